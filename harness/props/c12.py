"""C12 — gradients are the derivatives of the reported densities.
(1) On the implementation: back-propagated gradient vs Richardson finite differences of the returned
    value, for every density and every continuous parameter (the property itself).
(2) Correspondence with the proved derivative enclosures (dual-number runs of the Coq models)."""
import json
import math
import random
import time
from fractions import Fraction

from harness import common as C
from harness import impl, trees
from harness.props import c01, c06

PID = "C12"
HEADER = ("From Coq Require Import QArith ZArith List. Import ListNotations.\n"
          "From TT Require Import Num NumI NumD Tree M_like M_data M_like_data M_height M_site "
          "M_coalescent M_bdsk M_gmrf.\n"
          "Definition L2PI_D : dual := (ln2pi_of NumI (I.pi prec), I.fromZ prec 0).\n")


# ----------------------------------------------------------------------------- densities

def time_tree_json(rng, n):
    t = trees.random_tree(rng, n, rng.choice(["random", "caterpillar", "balanced"]))
    names = [f"t{i}" for i in range(n)]
    dates = [0.0] * n if rng.random() < 0.4 else [0.0] + [round(rng.uniform(0, 2), 1) for _ in range(n - 1)]
    oldest = max(dates)
    taxa = {"id": "taxa", "type": "Taxa", "taxa": [
        {"id": names[i], "type": "Taxon", "attributes": {"date": dates[i]}} for i in range(n)]}
    # distinct internal heights guaranteed by generic ratios ("away from ties")
    d = {"id": "tree", "type": "ReparameterizedTimeTreeModel", "newick": trees.newick(t, names), "taxa": taxa,
         "ratios": impl.param_json("ratios", [rng.uniform(0.15, 0.85) for _ in range(n - 2)]),
         "root_height": impl.param_json("root_height", [oldest + rng.uniform(0.5, 2.0)])}
    return d, t, names, dates


def build_scenario(rng, tier, idx=None):
    """A small joint model over a time tree; returns (dict of named densities, dic of objects)."""
    torch = impl.load()
    from torchtree.core.utils import process_objects
    n = rng.choice([4, 5, 6])
    tree, t, names, dates = time_tree_json(rng, n)
    seqs = c01.gen_alignment(rng, n, rng.randint(4, 8))
    subst = rng.choice(["JC69", "HKY", "GTR"])
    sm = {"id": "m", "type": subst}
    if subst != "JC69":
        sm["frequencies"] = impl.param_json("freqs", c01.simplex(rng, 4))
        if subst == "HKY":
            sm["kappa"] = impl.param_json("kappa", [math.exp(rng.uniform(-1, 2))])
        else:
            sm["rates"] = impl.param_json("gtr_rates", [math.exp(rng.uniform(-1, 1)) for _ in range(6)])
    site_kind = rng.choice(["constant", "weibull", "weibull+inv", "invariant"])
    if "weibull" in site_kind:
        site = {"id": "sm", "type": "WeibullSiteModel", "categories": rng.randint(2, 4),
                "shape": impl.param_json("shape", [math.exp(rng.uniform(-1, 1))])}
    elif site_kind == "invariant":
        site = {"id": "sm", "type": "InvariantSiteModel"}
    else:
        site = {"id": "sm", "type": "ConstantSiteModel"}
    if "inv" in site_kind:
        site["invariant"] = impl.param_json("pinv", [rng.uniform(0.05, 0.6)])
    clock_kind = rng.choice(["StrictClockModel", "SimpleClockModel"])
    nrates = 1 if clock_kind == "StrictClockModel" else 2 * n - 2
    like = {"id": "like", "type": "TreeLikelihoodModel", "tree_model": tree, "site_model": site,
            "substitution_model": sm,
            "site_pattern": {"id": "sp", "type": "SitePattern", "alignment": {
                "id": "aln", "type": "Alignment", "datatype": "nucleotide", "taxa": "taxa",
                "sequences": [{"taxon": names[i], "sequence": seqs[i]} for i in range(n)]}},
            "branch_model": {"id": "clock", "type": clock_kind, "tree_model": "tree",
                             "rate": impl.param_json("clock_rate", [math.exp(rng.uniform(-3.5, -1.5)) for _ in range(nrates)])},
            "use_tip_states": rng.random() < 0.3}
    kinds = ["PiecewiseLinearCoalescentGridModel", "ConstantCoalescentModel", "PiecewiseConstantCoalescentGridModel",
             "ExponentialCoalescentModel", "PiecewiseConstantCoalescentModel"]
    # every family in turn (a run of a few scenarios must not depend on luck to meet one of them)
    coal_kind = rng.choice(kinds) if idx is None else kinds[idx % len(kinds)]
    coal = {"id": "coalescent", "type": coal_kind, "tree_model": "tree"}
    if coal_kind == "ConstantCoalescentModel":
        coal["theta"] = impl.param_json("theta", [math.exp(rng.uniform(0, 2))])
    elif coal_kind == "ExponentialCoalescentModel":
        coal["theta"] = impl.param_json("theta", [math.exp(rng.uniform(0, 2))])
        coal["growth"] = impl.param_json("growth", [rng.uniform(-0.5, 0.5) or 0.1])
    elif coal_kind == "PiecewiseConstantCoalescentModel":
        coal["theta"] = impl.param_json("theta", [math.exp(rng.uniform(0, 2)) for _ in range(n - 1)])
    else:
        k = rng.randint(3, 5)
        coal["theta"] = impl.param_json("theta", [math.exp(rng.uniform(0, 2)) for _ in range(k)])
        coal["cutoff"] = rng.uniform(1.0, 6.0)
        if rng.random() < 0.6:
            # the grid ends below the root: some coalescent intervals lie where the population size is constant
            coal["cutoff"] = float(tree["root_height"]["tensor"][0]) * rng.uniform(0.3, 0.8)
    gmrf = {"id": "gmrf", "type": "GMRF", "x": "theta" if len(coal["theta"]["tensor"]) > 1 else
            impl.param_json("field", [rng.uniform(-1, 1) for _ in range(4)]),
            "precision": impl.param_json("gmrf_precision", [math.exp(rng.uniform(-1, 1))])}
    ctmc = {"id": "ctmc", "type": "CTMCScale", "x": "clock_rate", "tree_model": "tree"}
    prior = {"id": "prior_kappa", "type": "Distribution", "distribution": "torch.distributions.LogNormal",
             "x": "shape" if "weibull" in site_kind else "root_height", "parameters": {"loc": 0.5, "scale": 1.2}}
    # a genuine birth-death skyline (2-3 epochs; serial sampling when the dates differ) on the same tree
    m = rng.choice([2, 3])
    root_h = tree["root_height"]["tensor"][0]
    bdsk = {"id": "bdsk", "type": "BDSKModel", "tree_model": "tree",
            "R": impl.param_json("bdsk_R", [math.exp(rng.uniform(-0.3, 1.0)) for _ in range(m)]),
            "delta": impl.param_json("bdsk_delta", [math.exp(rng.uniform(-1.0, 0.7)) for _ in range(m)]),
            "s": impl.param_json("bdsk_s", [rng.uniform(0.1, 0.8) for _ in range(m)]),
            "rho": impl.param_json("bdsk_rho", [rng.uniform(0.2, 0.9)]),
            "origin": impl.param_json("bdsk_origin", [root_h + rng.uniform(1.0, 3.0)])}
    joint = {"id": "joint", "type": "JointDistributionModel",
             "distributions": [like, coal, gmrf, ctmc, prior, "tree"]}
    dic = {}
    process_objects([joint], dic)
    dens = {"tree_likelihood": dic["like"], "coalescent:" + coal_kind: dic["coalescent"], "gmrf": dic["gmrf"],
            "ctmc_scale": dic["ctmc"], "distribution": dic["prior_kappa"], "height_jacobian": dic["tree"],
            "joint": dic["joint"]}
    try:
        process_objects([bdsk], dic)
        dens["bdsk"] = dic["bdsk"]
    except Exception:
        pass
    # the rescaled pruning recursion in use (as after an underflow, or set by the user)
    rescale = rng.random() < 0.5
    if rescale:
        dic["like"].rescale = True
    desc = dict(n=n, newick=tree["newick"], dates=dates, subst=subst, site=site_kind, clock=clock_kind, coalescent=coal_kind,
                tip_states=like["use_tip_states"], tree=t, seqs=seqs, rescale=rescale, bdsk_epochs=m)
    return dens, dic, desc


def leaf_parameters(dic):
    from torchtree.core.parameter import Parameter
    return {k: v for k, v in dic.items() if isinstance(v, Parameter) and v.tensor.dtype.is_floating_point}


def autograd(model, params, refire=True):
    torch = impl.load()
    if refire:
        for p in params.values():
            p.requires_grad = True
            p.tensor.grad = None
        # fire change events so nothing cached without a graph is reused
        for p in params.values():
            p.tensor = p.tensor
    else:
        # what Optimizer / the HMC operator / MAP do: the model has been evaluated without gradients, then
        # gradients are switched on through the public setter and the density is evaluated — nothing else
        for p in params.values():
            p.requires_grad = False
        with torch.no_grad():
            model()
        for p in params.values():
            p.requires_grad = True
            p.tensor.grad = None
    v = model()
    v.sum().backward()
    return float(v.sum().detach()), {k: (None if p.tensor.grad is None else p.tensor.grad.detach().clone().reshape(-1).tolist())
                                     for k, p in params.items()}


def finite_diff(model, p, i, h0):
    torch = impl.load()
    base = p.tensor.detach().clone()

    def val(delta):
        x = base.clone().reshape(-1)
        x[i] = x[i] + delta
        p.tensor = x.reshape(base.shape)
        with torch.no_grad():
            return float(model().sum())
    ests = []
    for h in (h0, h0 / 2):
        ests.append((val(h) - val(-h)) / (2 * h))
    p.tensor = base
    rich = (4 * ests[1] - ests[0]) / 3
    return rich, abs(ests[1] - ests[0])


# ----------------------------------------------------------------------------- Coq correspondences

def case_height_jacobian(rng):
    """d/dx_k of the ratio-transform log-Jacobian: autograd vs proved dual-number enclosure."""
    torch = impl.load()
    n = rng.choice([4, 5, 6, 8])
    t = trees.random_tree(rng, n, rng.choice(["random", "caterpillar", "balanced"]))
    # distinct sampling times: at a tie between two bounds the max is not certainly differentiable and the
    # proved enclosure makes no claim (NaN); a third of the cases keep ties on purpose
    if rng.random() < 0.33:
        mode, dates = c06.gen_dates(rng, n)
    else:
        dates = [0.0] + sorted(rng.sample([round(0.1 * k, 1) for k in range(1, 40)], n - 1))
        rng.shuffle(dates)
    oldest = max(c06.leaf_heights(dates))
    x = [rng.uniform(0.1, 0.9) for _ in range(n - 2)] + [oldest + rng.uniform(0.5, 2)]
    c = dict(tree=t, n=n, dates=dates, kind="ratio", B=None, x=[x], ops=[])
    tm = c06.build(c)
    leafs = list(tm._internal_heights._parameter_container.params())     # [ratios, root_height]
    for p in leafs:
        p.requires_grad = True
    for p in leafs:
        p.fire_parameter_changed()
    v = tm()
    v.backward()
    grads = []
    for p in leafs:
        grads += p.tensor.grad.reshape(-1).tolist()
    k = rng.randrange(n - 1)
    I = lambda q: f"ofQ NumI {C.qlit(q)}"
    X = C.coq_list(list(range(n - 1)), lambda j: (f"dvar {C.qlit(x[j])}" if j == k else f"dconst {C.qlit(x[j])}"))
    expr = (f"let t := index_tree {trees.coq_tree(t)} in "
            f"let times := map dconst (leaf_heights {C.qlist(dates)}) in "
            f"show_d (ratio_logdet NumD times None t (ratio_fwd NumD {C.natlit(n)} times {X} None t))")
    return dict(kind="height_jacobian", desc=dict(newick=trees.newick(t, [f"t{i}" for i in range(n)]), dates=dates, x=x, k=k),
                value=float(v.detach()), grad=grads[k], expr=expr)


def case_loglik_branch(rng):
    """d/d b_j of the tree log-likelihood (unrooted): autograd vs proved enclosure; dP/dt is an oracle."""
    torch = impl.load()
    from torch.autograd.functional import jacobian
    c = c01.gen_case(rng, 10**9, "quick", [])
    while c["treem"]["kind"] != "unrooted" or c["n"] > 7 or c["subst"]["type"] in ("LG", "WAG"):
        c = c01.gen_case(rng, 10**9, "quick", [])
    like = c01.build(c)
    if rng.random() < 0.5:
        like.rescale = True        # the rescaled recursion (as after an underflow)
    bl = like.tree_model._branch_lengths
    bl.requires_grad = True
    bl.tensor = bl.tensor
    v = like()
    v.backward()
    grad = bl.tensor.grad.reshape(-1).tolist()
    n = c["n"]
    j = rng.randrange(2 * n - 3)
    out = c01.run_impl(c)
    # oracle: dP/dt at t = b_j * r_k  (validated against central differences of p_t)
    dmats = []
    for rk in out["rates"]:
        tt = torch.tensor([out["lengths"][j] * rk])
        f = lambda z: like.subst_model.p_t(z).reshape(4, 4)
        dP = jacobian(f, tt).reshape(4, 4) * rk
        h = 1e-6
        fd = (f(tt + h) - f(tt - h)) / (2 * h) * rk
        if float((dP - fd).abs().max()) > 1e-5:
            return None
        dmats.append([[float(a) for a in row] for row in dP])
    I = lambda q: f"ofQ NumI {C.qlit(q)}"
    Dc = lambda q: f"dconst {C.qlit(q)}"

    def mat(k, node):
        M = out["mats"][k][node]
        if node == j:
            return C.coq_list(range(4), lambda a: C.coq_list(range(4), lambda b: f"({I(M[a][b])}, {I(dmats[k][a][b])})"))
        return C.coq_list(M, lambda row: C.coq_list(row, Dc))
    mats = C.coq_list(range(len(out["rates"])), lambda k: C.coq_list(range(2 * n - 1), lambda node: mat(k, node)))
    tip = {"partials_amb": "(TipPartials true)", "partials_noamb": "(TipPartials false)", "states": "TipStates"}[c["tip"]]
    taxa = C.coq_list(c["taxa_order"], C.natlit)
    sel = c01.used_seqs(c)        # the site pattern may select columns of the alignment (`indices`)
    seqs = C.coq_list(c["seq_order"], lambda q: f"({C.natlit(q)}, {C.coq_list([ord(ch) for ch in sel[q]], C.natlit)})")
    expr = (f"show_d (loglik_nuc NumD {tip} {taxa} {seqs} {trees.coq_tree(c['tree'])} "
            f"{C.coq_list(out['freqs'], Dc)} {mats} {C.coq_list(out['props'], Dc)})")
    return dict(kind="loglik_branch", desc=dict(config=f"{c['subst']['type']}/{c['site']['type']}/{c['tip']}", n=n, branch=j,
                                                rescale=bool(like.rescale)),
                value=out["value"], grad=grad[j], expr=expr)


def case_site_rates(rng):
    """d rates_k / d shape and d rates_k / d mu of the Weibull site model (mu: the optional relative rate, also at its
    conventional starting value 1.0 exactly): autograd vs proved enclosure."""
    torch = impl.load()
    from torchtree.evolution.site_model import WeibullSiteModel
    K = rng.randint(2, 6)
    shape = math.exp(rng.uniform(-1.5, 1.5))
    pinv = rng.uniform(0.05, 0.6) if rng.random() < 0.5 else None
    mu = None
    if rng.random() < 0.5:
        mu = 1.0 if rng.random() < 0.5 else round(math.exp(rng.uniform(-1, 1)), 3)
    d = {"id": "sm", "type": "WeibullSiteModel", "categories": K, "shape": impl.param_json("shape", [shape])}
    if pinv is not None:
        d["invariant"] = impl.param_json("pinv", [pinv])
    if mu is not None:
        d["mu"] = impl.param_json("mu", [mu])
    dic = {}
    m = WeibullSiteModel.from_json(d, dic)
    wrt = "mu" if (mu is not None and rng.random() < 0.6) else "shape"
    dic[wrt].requires_grad = True
    dic[wrt].tensor = dic[wrt].tensor
    k = rng.randrange(K) + (1 if pinv is not None else 0)
    r = m.rates()
    try:
        r[..., k].backward()
        gt = dic[wrt].tensor.grad
    except RuntimeError:        # the value does not depend on the parameter in the autograd graph at all
        gt = None
    g = float(gt) if gt is not None else float("nan")       # no gradient at all: reported as a difference below
    inv = "None" if pinv is None else f"(Some (dconst {C.qlit(pinv)}))"
    mus = "None" if mu is None else f"(Some {_dq(mu, wrt == 'mu')})"
    expr = (f"show_d (lk (weibull_rates NumD {_dq(shape, wrt == 'shape')} {C.natlit(K)} {inv} {mus}) {C.natlit(k)} "
            f"(dconst 0))")
    return dict(kind="site_rates", desc=dict(K=K, shape=shape, pinv=pinv, mu=mu, wrt=wrt, k=k),
                value=float(r[..., k].detach()), grad=g, expr=expr)


def _dq(v, is_var):
    return f"({'dvar' if is_var else 'dconst'} {C.qlit(v)})"


def case_coalescent(rng):
    """d log p / d theta_k or d / d (a coalescent time) for the constant, exponential, skyride and skygrid
    coalescents: autograd of Distribution.log_prob vs the proved dual-number enclosure."""
    torch = impl.load()
    from torchtree.evolution import coalescent as K
    n = rng.randint(3, 7)
    grid16 = lambda lo, hi: round(rng.uniform(lo, hi) * 64) / 64
    tips = sorted({0.0} | {grid16(0.0, 2.0) for _ in range(n - 1)}) if rng.random() < 0.7 else [0.0] * n
    while len(tips) < n:
        tips.append(grid16(0.0, 2.0))
        tips = sorted(set(tips))
    tips = tips[:n]
    # the j-th coalescence after the (j+1)-th sampling: always a valid genealogy; all times distinct
    coals, used = [], set(tips)
    prev = 0.0
    for j in range(n - 1):
        lo = max(prev, sorted(tips)[j + 1])
        c = lo + rng.uniform(0.05, 0.9)
        while c in used:
            c += 0.013
        used.add(c)
        coals.append(c)
        prev = c
    order = list(range(n - 1))
    rng.shuffle(order)                      # the order in which the internal heights are supplied is arbitrary
    coals_s = [coals[i] for i in order]
    model = rng.choice(["constant", "exponential", "skyride", "skygrid"])
    if model == "skyride":
        theta = [math.exp(rng.uniform(-1, 2)) for _ in range(n - 1)]
    elif model == "skygrid":
        k = rng.randint(2, 5)
        theta = [math.exp(rng.uniform(-1, 2)) for _ in range(k)]
        top = max(coals) * rng.choice([0.6, 1.3])
        grid = [top * (i + 1) / (k - 1) for i in range(k - 1)]
        grid = [g + 1e-3 * (i + 1) if g in used else g for i, g in enumerate(grid)]
    else:
        theta = [math.exp(rng.uniform(-1, 2))]
    growth = rng.choice([-1, 1]) * rng.uniform(0.05, 0.8)
    wrt = rng.choice(["theta", "time"] + (["growth"] if model == "exponential" else []))
    kk = rng.randrange(len(theta)) if wrt == "theta" else (rng.randrange(n - 1) if wrt == "time" else 0)
    th = torch.tensor(theta, requires_grad=True)
    gr = torch.tensor([growth], requires_grad=True)
    nh = torch.tensor(tips + coals_s, requires_grad=True)
    if model == "constant":
        d = K.ConstantCoalescent(th)
    elif model == "exponential":
        d = K.ExponentialCoalescent(th, gr)
    elif model == "skyride":
        d = K.PiecewiseConstantCoalescent(th)
    else:
        d = K.PiecewiseConstantCoalescentGrid(th, torch.tensor(grid))
    v = d.log_prob(nh).sum()
    v.backward()
    g = float({"theta": th.grad, "time": nh.grad[n:], "growth": gr.grad}[wrt].reshape(-1)[kk])
    ev = [f"mkEv {C.qlit(t)} (dconst {C.qlit(t)}) Tip" for t in tips]
    ev += [f"mkEv {C.qlit(c)} {_dq(c, wrt == 'time' and i == kk)} Coal" for i, c in enumerate(coals_s)]
    if model == "skygrid":
        ev += [f"mkEv {C.qlit(x)} (dconst {C.qlit(x)}) Grid" for x in grid]
    evs = "[" + "; ".join(ev) + "]"
    TH = C.coq_list(range(len(theta)), lambda i: _dq(theta[i], wrt == "theta" and i == kk))
    if model == "constant":
        e = f"constant_lp NumD {_dq(theta[0], wrt == 'theta')} {evs}"
    elif model == "exponential":
        e = f"exponential_lp NumD {_dq(theta[0], wrt == 'theta')} {C.qlit(growth)} {_dq(growth, wrt == 'growth')} {evs}"
    elif model == "skyride":
        e = f"skyride_lp NumD {TH} {evs}"
    else:
        e = f"skygrid_lp NumD {TH} {evs}"
    return dict(kind="coalescent:" + model, desc=dict(model=model, n=n, tips=tips, coalescent_times=coals_s, theta=theta,
                                                        growth=growth if model == "exponential" else None,
                                                        wrt=wrt, coordinate=kk),
                value=float(v.detach()), grad=g, expr=f"show_d ({e})")


def case_bdsk(rng):
    """d log p / d R_i, delta_i or s_i of a birth-death skyline with >= 2 epochs, built from JSON."""
    torch = impl.load()
    from harness.props import c09
    from torchtree.evolution.bdsk import BDSKModel
    for _ in range(400):
        c = c09.gen_case(rng, rng.choice([0, 1, 2, 10, 14]), "quick")
        if c["api"] == "BDSK" and c["m"] >= 2 and c["r"] is None and c["times_mode"] == "absolute" \
                and not c09.hazards(c, set()):
            break
    else:
        return None
    dic = {}
    mod = BDSKModel.from_json(c09.bdsk_json(c), dic)
    which = rng.choice(["R", "delta", "s"])
    i = rng.randrange(c["m"])
    for k in ("R", "delta", "s"):
        dic[k].requires_grad = True
        dic[k].tensor = dic[k].tensor
    v = mod().sum()
    v.backward()
    g = float(dic[which].tensor.grad.reshape(-1)[i])
    et = c09.eff_times(c)
    rho = C.qlist(c["rho"] if c["rho"] is not None else [0.0])
    L = lambda name: C.coq_list(range(c["m"]), lambda j: _dq(c[name][j], name == which and j == i))
    sv = "true" if c["survival"] else "false"
    e = (f"bdsk_model_log_prob NumD {sv} None {L('R')} {L('delta')} {L('s')} {rho} {C.qlist(et)} "
         f"{C.qlist(c['tips'])} {C.qlist(c['ints'])}")
    return dict(kind="bdsk", desc=dict(epochs=c["m"], n=len(c["tips"]), wrt=which, coordinate=i, R=c["R"], delta=c["delta"],
                                        s=c["s"], rho=c["rho"], times=et, survival=c["survival"]),
                value=float(v.detach()), grad=g, expr=f"show_d ({e})")


def case_gmrf(rng):
    """d GMRF() / d field_i, d precision or d weight_i (plain and weighted fields), built from JSON."""
    torch = impl.load()
    from torchtree.distributions.gmrf import GMRF
    n = rng.randint(2, 9)
    x = [rng.uniform(-2, 2) for _ in range(n)]
    tau = math.exp(rng.uniform(-2, 2))
    weighted = rng.random() < 0.5
    w = [math.exp(rng.uniform(-1, 1)) for _ in range(n - 1)]
    d = {"id": "gmrf", "type": "GMRF", "x": impl.param_json("field", x), "precision": impl.param_json("precision", [tau])}
    if weighted:
        d["weights"] = impl.param_json("weights", w)
    dic = {}
    g = GMRF.from_json(d, dic)
    wrt = rng.choice(["field", "precision"] + (["weights"] if weighted else []))
    i = rng.randrange({"field": n, "precision": 1, "weights": n - 1}[wrt])
    dic[wrt].requires_grad = True
    dic[wrt].tensor = dic[wrt].tensor
    v = g().sum()
    v.backward()
    gr = float(dic[wrt].tensor.grad.reshape(-1)[i])
    X = C.coq_list(range(n), lambda j: _dq(x[j], wrt == "field" and j == i))
    V = ("(Weighted " + C.coq_list(range(n - 1), lambda j: _dq(w[j], wrt == "weights" and j == i)) + ")") if weighted else "Plain"
    e = f"gmrf NumD L2PI_D {V} {X} {_dq(tau, wrt == 'precision')}"
    return dict(kind="gmrf", desc=dict(n=n, weighted=weighted, wrt=wrt, coordinate=i, field=x, precision=tau),
                value=float(v.detach()), grad=gr, expr=f"show_d ({e})")


def case_gmrf_covariate(rng):
    """d GMRFCovariate() / d field_i, d precision or d beta_k, built from JSON: the plain field density of the residual
    x - Z beta (the same polymorphic `gmrf` term, the residual written with the Num operations)."""
    torch = impl.load()
    from torchtree.distributions.gmrf import GMRFCovariate
    n, p = rng.randint(2, 7), rng.randint(1, 3)
    x = [rng.uniform(-2, 2) for _ in range(n)]
    tau = math.exp(rng.uniform(-2, 2))
    Z = [[round(rng.uniform(-1.5, 1.5), 3) for _ in range(p)] for _ in range(n)]
    beta = [rng.uniform(-1, 1) for _ in range(p)]
    d = {"id": "gmrfc", "type": "GMRFCovariate", "field": impl.param_json("field", x),
         "precision": impl.param_json("precision", [tau]), "covariates": Z, "beta": impl.param_json("beta", beta)}
    dic = {}
    g = GMRFCovariate.from_json(d, dic)
    wrt = rng.choice(["field", "precision", "beta"])
    i = rng.randrange({"field": n, "precision": 1, "beta": p}[wrt])
    dic[wrt].requires_grad = True
    dic[wrt].tensor = dic[wrt].tensor
    v = g().sum()
    v.backward()
    gr = float(dic[wrt].tensor.grad.reshape(-1)[i])
    B = C.coq_list(range(p), lambda k: _dq(beta[k], wrt == "beta" and k == i))
    X = C.coq_list(range(n), lambda j: f"(sub NumD {_dq(x[j], wrt == 'field' and j == i)} "
                                       f"(ndot NumD {C.coq_list(Z[j], lambda z: _dq(z, False))} {B}))")
    e = f"gmrf NumD L2PI_D Plain {X} {_dq(tau, wrt == 'precision')}"
    return dict(kind="gmrf_covariate", desc=dict(n=n, p=p, wrt=wrt, coordinate=i, field=x, precision=tau, covariates=Z,
                                                  beta=beta),
                value=float(v.detach()), grad=gr, expr=f"show_d ({e})")


def declared_gradients_findings(rng):
    """Parameters DECLARED differentiable in the specification ("requires_grad": true), with no dtype, with the run's
    dtype and with another one (a float32 parameter in a float64 run): after backward() every one of them holds a
    gradient, equal to the numerical derivative of the returned value (float32 parameters: to single precision)."""
    torch = impl.load()
    from torchtree.core.utils import process_object
    found, n = {}, 0
    for dt in (None, "torch.float64", "torch.float32"):
        def par(id_, vals):
            d = {"id": id_, "type": "Parameter", "tensor": vals, "requires_grad": True}
            if dt:
                d["dtype"] = dt
            return d
        x0 = [round(rng.uniform(0.4, 2.0), 3) for _ in range(3)]
        loc0 = [round(rng.uniform(-0.5, 0.5), 3)]
        objs = [par("x", x0), par("loc", loc0),
                {"id": "d1", "type": "Distribution", "distribution": "torch.distributions.LogNormal", "x": "x",
                 "parameters": {"loc": "loc", "scale": 0.8}},
                {"id": "d2", "type": "Distribution", "distribution": "torch.distributions.Normal", "x": "loc",
                 "parameters": {"loc": 0.0, "scale": 2.0}},
                {"id": "joint", "type": "JointDistributionModel", "distributions": ["d1", "d2"]}]
        try:
            dic = {}
            for o in objs:
                process_object(o, dic)
            v = dic["joint"]()
            v.sum().backward()
        except Exception as e:  # noqa
            k = f"C12:declared-gradient:raises:{type(e).__name__}"
            found.setdefault(k, (k, f"dtype {dt}: {type(e).__name__}: {str(e)[:160]}", dict(dtype=dt)))
            continue

        def value(xv, lv):
            lx = [math.log(t) for t in xv]
            a = sum(-((t - lv[0]) ** 2) / (2 * 0.64) - math.log(0.8) - 0.5 * math.log(2 * math.pi) - t for t in lx)
            return a - lv[0] ** 2 / 8.0 - math.log(2.0) - 0.5 * math.log(2 * math.pi)
        # exact gradients of this joint (closed form)
        want = {"x": [(-(math.log(t) - loc0[0]) / 0.64 - 1.0) / t for t in x0],
                "loc": [sum((math.log(t) - loc0[0]) / 0.64 for t in x0) - loc0[0] / 4.0]}
        tol = 2e-3 if dt == "torch.float32" else 1e-8
        if abs(float(v.sum()) - value(x0, loc0)) > tol * max(1.0, abs(value(x0, loc0))):
            k = "C12:declared-gradient:value"
            found.setdefault(k, (k, f"dtype {dt}: joint = {float(v.sum())!r}, closed form {value(x0, loc0)!r}", dict(dtype=dt)))
        for pid in ("x", "loc"):
            n += 1
            g = dic[pid].grad
            if g is None:
                k = f"C12:missing-gradient:declared-in-the-specification:dtype={dt}"
                found.setdefault(k, (k, f"parameter `{pid}' is declared with requires_grad true (dtype {dt}) but holds no "
                                        f"gradient after backward(); the derivative of the returned value is {want[pid]}",
                                     dict(dtype=dt, objects=objs, parameter=pid)))
                continue
            gl = [float(t) for t in g.reshape(-1)]
            if any(abs(a - b) > tol * max(1.0, abs(b)) for a, b in zip(gl, want[pid])):
                k = f"C12:wrong-gradient:declared-in-the-specification:dtype={dt}"
                found.setdefault(k, (k, f"parameter `{pid}' (dtype {dt}): gradient {gl} but the derivative is {want[pid]}",
                                     dict(dtype=dt, objects=objs, parameter=pid)))
    return list(found.values()), n


def run(tier, seed, replay=None):
    torch = impl.load()
    rep = C.Report(PID, tier, seed)
    rep.trusted = C.COMMON_TRUSTED + [
        "base/NumD.v + ParamD.v: verified forward-mode AD instance (kernel-checked, Coquelicot + Interval)",
        "models M_like.v, M_height.v, M_site.v, M_coalescent.v, M_bdsk.v, M_gmrf.v (tied by the value correspondences of "
        "C01/C06/C05/C08/C09/C20 and by the gradient correspondence here); piecewise-linear / piecewise-exponential "
        "coalescent, CTMC scale and torch priors: implementation-side check only",
        "oracle: dP/dt of the transition matrices (autograd of p_t, validated by central differences)",
        "PyTorch autograd is NOT verified: that is what the correspondence and the finite-difference comparison test",
        "finite differences (Richardson, two step sizes) with tolerance max(1e-5 relative, 50 x the step-halving "
        "discrepancy): a numerical reference, used only on the implementation side"]
    rng = random.Random(seed)
    nscen = 7 if tier == "quick" else 50
    found = {}
    dist = {}
    t0 = time.time()
    n_coord = 0
    for s in range(nscen):
        try:
            dens, dic, desc = build_scenario(rng, tier, s)
        except Exception as e:
            found.setdefault(f"C12:scenario-raises:{type(e).__name__}",
                             (f"C12:scenario-raises:{type(e).__name__}", f"building the joint model raised {type(e).__name__}: {str(e)[:200]}", {}))
            continue
        params = leaf_parameters(dic)
        for dname, model in dens.items():
            try:
                value, grads = autograd(model, params, refire=(s % 2 == 0))
            except Exception as e:
                k = f"C12:backward-raises:{dname.split(':')[0]}:{type(e).__name__}"
                found.setdefault(k, (k, f"{dname}: backward raised {type(e).__name__}: {str(e)[:200]}", dict(scenario=desc)))
                continue
            if not math.isfinite(value):
                continue
            for pname, p in params.items():
                size = p.tensor.numel()
                coords = list(range(size)) if size <= 4 else rng.sample(range(size), 3)
                for i in coords:
                    x = float(p.tensor.detach().reshape(-1)[i])
                    h0 = 1e-4 * max(1.0, abs(x)) if pname not in ("ratios", "pinv", "freqs") else 1e-5
                    fd, err = finite_diff(model, p, i, h0)
                    if not math.isfinite(fd):
                        continue
                    g = grads[pname]
                    gi = 0.0 if g is None else g[i]
                    n_coord += 1
                    dist[dname.split(":")[0]] = dist.get(dname.split(":")[0], 0) + 1
                    rep.case(dict(s=s, d=dname, p=pname, i=i), nontrivial=abs(fd) > 1e-9,
                             sample=dict(density=dname, parameter=pname, coordinate=i, autograd=gi, finite_difference=fd,
                                         scenario={k: v for k, v in desc.items() if k not in ("tree", "seqs")}))
                    tol = max(1e-5 * max(abs(fd), abs(gi)), 50 * err, 1e-7)
                    if not math.isfinite(gi) or abs(fd - gi) > tol:
                        kind = "missing" if (g is None or gi == 0.0) else ("nonfinite" if not math.isfinite(gi) else "wrong")
                        k = f"C12:{kind}-gradient:{dname.split(':')[0]}:{pname}"
                        found.setdefault(k, (k, f"{dname} w.r.t. {pname}[{i}]: back-propagated gradient {gi!r} but the numerical "
                                                f"derivative of the returned value is {fd!r} (+-{err:.1e})",
                                             dict(scenario=desc, density=dname, parameter=pname, coordinate=i,
                                                  autograd=gi, finite_difference=fd)))
    dg_fs, n_declared = declared_gradients_findings(rng)
    for f in dg_fs:
        found.setdefault(f[0], f)
    rep.timings["impl_fd"] = round(time.time() - t0, 2)

    def search():
        return list(found.values())[:8]

    C.handle_proof(rep, PID, search)
    for f in search():
        rep.violation(*f)

    # correspondence with proved derivative enclosures
    t0 = time.time()
    gens = [case_height_jacobian, case_loglik_branch, case_site_rates, case_coalescent, case_bdsk, case_gmrf,
            case_gmrf_covariate]
    ncorr = 72 if tier == "quick" else 600
    cases = []
    for i in range(ncorr):
        try:
            c = gens[i % len(gens)](rng)
        except Exception as e:
            k = f"C12:correspondence-case-raises:{gens[i % len(gens)].__name__}:{type(e).__name__}"
            rep.violation(k, f"{type(e).__name__}: {str(e)[:200]}", dict(), True)
            continue
        if c is not None:
            cases.append(c)
    res = C.run_cases(PID, HEADER, [c["expr"] for c in cases], shard=max(2, len(cases) // 24 + 1))
    rep.timings["model_eval"] = round(time.time() - t0, 2)
    undefined = 0
    for c, flat in zip(cases, res):
        v_iv, d_iv = C.ival_to_fracs(flat[:6]), C.ival_to_fracs(flat[6:])
        dist["coq:" + c["kind"]] = dist.get("coq:" + c["kind"], 0) + 1
        rep.case(dict(k=c["kind"], d=c["desc"]), nontrivial=True,
                 sample=dict(kind=c["kind"], case=c["desc"], autograd=c["grad"],
                             proved_enclosure=None if d_iv is None else [float(d_iv[0]), float(d_iv[1])]))
        if d_iv is None or v_iv is None:
            undefined += 1
            continue

        def inside(x, iv, rtol):
            tol = Fraction(rtol) * max(abs(iv[0]), abs(iv[1])) + Fraction(1, 10**9)
            if not math.isfinite(x):
                return False
            return iv[0] - tol <= Fraction(x) <= iv[1] + tol
        if not inside(c["value"], v_iv, 1e-9) or not inside(c["grad"], d_iv, 1e-7):
            k = f"C12:gradient-differs-from-proved-derivative:{c['kind']}"
            rep.violation(k, f"{c['kind']} {c['desc']}: autograd {c['grad']!r} (value {c['value']!r}) vs proved enclosure "
                             f"derivative [{float(d_iv[0])!r}, {float(d_iv[1])!r}] value [{float(v_iv[0])!r}, {float(v_iv[1])!r}]",
                          dict(case=c["desc"], kind=c["kind"], autograd=c["grad"]))
    rep.rule = ("(1) joint models over random time trees (4..6 taxa; JC69/HKY/GTR x site models x strict/simple clock x tip "
                "partials/states, half of them with the rescaled recursion in use; constant/exponential/skyride/skygrid/piecewise-"
                "linear coalescent; a 2-3 epoch birth-death skyline; GMRF; CTMC scale; a torch "
                "prior; the node-height Jacobian term; the joint): for every density and every coordinate (<= 3 sampled per "
                "large parameter) autograd vs Richardson finite differences; (2) autograd vs proved dual-number enclosures for "
                "the height log-Jacobian w.r.t. ratios/root height, the tree log-likelihood w.r.t. a branch length, Weibull "
                "rates w.r.t. the shape, the constant / exponential / skyride / skygrid coalescents w.r.t. a population size, "
                "the growth rate or a coalescent time, the birth-death skyline (>= 2 epochs) w.r.t. R_i / delta_i / s_i, "
                "the (weighted) GMRF w.r.t. field, precision or a weight; non-trivial = non-zero derivative; distinct = distinct (scenario,density,parameter,coordinate)")
    rep.extra = dict(input_distribution=dist, model_undefined=undefined, coordinates_checked=n_coord,
                     traces_validated_against_impl=len(cases))
    return rep.finish()
