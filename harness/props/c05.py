"""C05 — site models keep the mean rate at one.  Hand model M_site.v, NumI run vs implementation."""
import math
import random
import time
from fractions import Fraction

from harness import common as C
from harness import impl

PID = "C05"
HEADER = ("From Coq Require Import QArith ZArith List. Import ListNotations.\n"
          "From TT Require Import Num NumI M_site.\n")


def gen_case(rng, i):
    kind = ["weibull", "weibull", "weibull", "invariant", "constant"][i % 5]
    B = rng.choice([None, None, 1, 2, 3])   # batch shape [] or [B]
    n = B or 1
    K = rng.randint(1, 16)
    def logu(lo, hi):
        return math.exp(rng.uniform(math.log(lo), math.log(hi)))
    shape = [logu(1e-2, 1e2) for _ in range(n)]
    if rng.random() < 0.12:
        # the bottom of the admissible range of the shape, where a single category has a rate far below machine
        # epsilon before normalisation (0.693 ** (1 / shape))
        shape = [0.01 * (1.0 + 0.03 * rng.random()) for _ in range(n)]
        K = rng.choice([1, 1, 2])
    has_inv = kind == "invariant" or (kind == "weibull" and rng.random() < 0.5)
    inv = [rng.choice([0.0, rng.random() * 0.999, logu(1e-6, 0.5)]) for _ in range(n)] if has_inv else None
    has_mu = rng.random() < 0.5
    mu = [logu(1e-3, 1e3) for _ in range(n)] if has_mu else None
    case = dict(kind=kind, B=B, K=K, shape=shape, inv=inv, mu=mu)
    # what kind of object carries the relative rate: a plain parameter, a view into a longer parameter (how the CLI
    # writes the relative rates of a partitioned model) or a transformed parameter (a rate kept positive through exp)
    case["mu_kind"] = rng.choice(["plain", "plain", "view", "exp"]) if has_mu else "plain"
    # the same specification (the same dict object) parsed twice: the second model is the one examined
    case["parse_twice"] = rng.random() < 0.3
    # history: the same object is evaluated, one of its parameters is assigned, and it is evaluated again
    hist = []
    names = [k for k in (("shape",) if kind == "weibull" else ()) + ("inv", "mu") if case.get(k) is not None]
    if names and rng.random() < 0.6:
        for _ in range(rng.randint(1, 3)):
            w = rng.choice(names)
            if w == "shape":
                v = [logu(1e-2, 1e2) for _ in range(n)]
            elif w == "inv":
                v = [rng.choice([0.0, rng.random() * 0.999, logu(1e-6, 0.5)]) for _ in range(n)]
            else:
                v = [logu(1e-3, 1e3) for _ in range(n)]
            hist.append([w, v])
    case["hist"] = hist
    case["how"] = {str(k + 1): rng.choice([0, 0, 1, 2]) for k in range(len(hist))}
    # which accessor is read first at each stage (they share one dirty flag)
    case["first"] = {str(k): rng.choice(["rates", "probabilities"]) for k in range(len(hist) + 1)}
    return case


def stages_of(case):
    """the configurations the object goes through: initial, then after each assignment"""
    cur = {k: v for k, v in case.items() if k not in ("hist", "how", "first")}
    out = [dict(cur)]
    for w, v in case.get("hist", []):
        cur = dict(cur)
        cur[w] = v
        out.append(cur)
    return out


def run_impl(case):
    torch = impl.load()
    from torchtree.core.utils import JSONParseError  # noqa
    from torchtree.evolution.site_model import ConstantSiteModel, InvariantSiteModel, WeibullSiteModel
    B = case["B"]

    def P(id_, vals):
        t = [[v] for v in vals] if B is not None else [vals[0]]
        return impl.param_json(id_, t)

    dic = {}
    if case["kind"] == "weibull":
        d = {"id": "sm", "type": "WeibullSiteModel", "categories": case["K"], "shape": P("shape", case["shape"])}
        cls = WeibullSiteModel
    elif case["kind"] == "invariant":
        d = {"id": "sm", "type": "InvariantSiteModel"}
        cls = InvariantSiteModel
    else:
        d = {"id": "sm", "type": "ConstantSiteModel"}
        cls = ConstantSiteModel
    if case["inv"] is not None:
        d["invariant"] = P("inv", case["inv"])
    if case["mu"] is not None:
        mk = case.get("mu_kind", "plain")
        if mk == "view":
            base = [[7.0, v] for v in case["mu"]] if B is not None else [7.0, case["mu"][0]]
            d["mu"] = {"id": "mu", "type": "ViewParameter", "parameter": impl.param_json("mu.base", base), "indices": "1:"}
        elif mk == "exp":
            logs = [[math.log(v)] for v in case["mu"]] if B is not None else [math.log(case["mu"][0])]
            d["mu"] = {"id": "mu", "type": "TransformedParameter", "transform": "torch.distributions.ExpTransform",
                       "x": impl.param_json("mu.log", logs)}
        else:
            d["mu"] = P("mu", case["mu"])
    if case.get("parse_twice"):
        cls.from_json(d, {})        # a first model from the same dict object (thrown away)
    m = cls.from_json(d, dic)
    n = B or 1
    def rows(t):
        t = t.detach()
        if B is None:
            t = t.reshape(1, -1) if t.dim() <= 1 else t
        t = t.expand(n, t.shape[-1]) if t.dim() == 2 and t.shape[0] != n else t
        if t.dim() == 1:
            t = t.unsqueeze(0).expand(n, -1)
        return [[float(x) for x in row] for row in t]
    def read(stage):
        if case.get("first", {}).get(str(stage)) == "probabilities":
            pr = rows(m.probabilities())
            return rows(m.rates()), pr
        rt = rows(m.rates())
        return rt, rows(m.probabilities())
    out = [read(0)]
    ids = dict(shape="shape", inv="inv", mu="mu")
    for w, v in case.get("hist", []):
        par = dic[ids[w]]
        new = torch.tensor([[x] for x in v] if B is not None else [v[0]], dtype=par.tensor.dtype)
        how = case.get("how", {}).get(str(len(out)), 0)
        if w == "mu" and case.get("mu_kind", "plain") != "plain":
            how = 0                      # a view / a transformed parameter is assigned through its setter
        if how == 1 and new.shape == par.tensor.shape:
            held = par.tensor            # edit in place, assign the same object back (as MCMC operators do)
            held.copy_(new)
            par.tensor = held
        elif how == 2 and new.shape == par.tensor.shape:
            par.tensor.copy_(new)        # in-place change followed by the notification
            par.fire_parameter_changed()
        else:
            par.tensor = new
        out.append(read(len(out)))
    return out


def coq_case(case, row):
    opt = lambda l: "None" if l is None else f"(Some (ofQ NumI {C.qlit(l[row])}))"
    if case["kind"] == "weibull":
        inv, mu = opt(case["inv"]), opt(case["mu"])
        return (f"concat (map show_i (weibull_rates NumI (ofQ NumI {C.qlit(case['shape'][row])}) "
                f"{C.natlit(case['K'])} {inv} {mu} ++ disc_probs NumI {C.natlit(case['K'])} {inv}))")
    if case["kind"] == "invariant":
        p = f"(ofQ NumI {C.qlit(case['inv'][row])})"
        return (f"concat (map show_i (invariant_rates NumI {p} {opt(case['mu'])} ++ invariant_probs NumI {p}))")
    return f"concat (map show_i (constant_rates NumI {opt(case['mu'])} ++ constant_probs NumI))"


def property_on_impl(case, rates, probs):
    """The property itself evaluated on the implementation's outputs -> failure text or None."""
    for r, (rt, pr) in enumerate(zip(rates, probs)):
        mu = case["mu"][r] if case["mu"] is not None else 1.0
        if len(rt) != len(pr):
            return f"row {r}: {len(rt)} rates vs {len(pr)} probabilities"
        if any(not (p >= 0.0) for p in pr):
            return f"row {r}: negative / NaN probability {pr}"
        if abs(sum(Fraction(p) for p in pr) - 1) > Fraction(1, 10**12):
            return f"row {r}: probabilities sum to {float(sum(pr))!r}"
        if any(not (x >= 0.0) or math.isinf(x) for x in rt):
            return f"row {r}: negative / non-finite rate {rt}"
        mean = sum(Fraction(a) * Fraction(b) for a, b in zip(rt, pr))
        if abs(mean - Fraction(mu)) > Fraction(1, 10**9) * abs(Fraction(mu)):
            return f"row {r}: weighted mean rate {float(mean)!r} != {mu!r}"
        if case["inv"] is not None:
            if rt[0] != 0.0:
                return f"row {r}: invariant category rate {rt[0]!r} != 0"
            if pr[0] != case["inv"][r]:
                return f"row {r}: invariant category probability {pr[0]!r} != {case['inv'][r]!r}"
    return None


def close(x, iv, rtol=1e-9):
    if iv is None:
        return None
    lo, hi = iv
    if not math.isfinite(x):
        return False
    fx = Fraction(x)
    tol = Fraction(rtol) * max(abs(lo), abs(hi)) + Fraction(1, 10**300)
    return lo - tol <= fx <= hi + tol


def run(tier, seed, replay=None):
    rep = C.Report(PID, tier, seed)
    rep.trusted = C.COMMON_TRUSTED + [
        "hand-written model model/M_site.v (tied by correspondence on rates()/probabilities())",
        "Paramcoq-generated free theorem + Interval library correctness lemmas (kernel-checked)",
        "modelled not verified: torch.pow/log/cat rounding (compared under relative 1e-9)"]
    rng = random.Random(seed)
    n = 150 if tier == "quick" else 2500
    search_state = {}

    cases = [gen_case(rng, i) for i in range(n)]
    if replay:
        import json
        cases = [json.load(open(replay))["replay"]["case"]]
    t0 = time.time()
    outs = []
    for c in cases:
        try:
            outs.append(run_impl(c))
        except Exception as e:  # a site model that raises on admissible parameters
            outs.append(e)
    rep.timings["impl"] = round(time.time() - t0, 2)

    def search():
        for c, o in zip(cases, outs):
            if isinstance(o, Exception):
                return (f"C05:raises:{c['kind']}", f"{type(o).__name__}: {o}", dict(case=c))
            for k, (st, (rates, probs)) in enumerate(zip(stages_of(c), o)):
                bad = property_on_impl(st, rates, probs)
                if bad:
                    when = "fresh" if k == 0 else "after-update"
                    return (f"C05:{c['kind']}:inv={c['inv'] is not None}:mu={c['mu'] is not None}:"
                            f"B={c['B'] is not None}:{when}",
                            bad + (f" [evaluation {k} of the same object, after assigning "
                                   f"{[h[0] for h in c['hist'][:k]]}]" if k else ""),
                            dict(case=c, stage=k, rates=rates, probs=probs))
        return None

    C.handle_proof(rep, PID, search)
    f = search()
    if f:
        rep.violation(*f)

    t0 = time.time()
    exprs, index = [], []
    for ci, (c, o) in enumerate(zip(cases, outs)):
        if isinstance(o, Exception):
            continue
        for k, st in enumerate(stages_of(c)):
            for r in range(c["B"] or 1):
                exprs.append(coq_case(st, r))
                index.append((ci, r, k))
    res = C.run_cases(PID, HEADER, exprs, shard=max(10, len(exprs) // 16 + 1))
    rep.timings["model_eval"] = round(time.time() - t0, 2)
    undefined = 0
    dist = {}
    for (ci, r, k), flat in zip(index, res):
        c, (rates, probs) = cases[ci], outs[ci][k]
        vals = rates[r] + probs[r]
        ivs = [C.ival_to_fracs(flat[k:k + 6]) for k in range(0, len(flat), 6)]
        dist[c["kind"]] = dist.get(c["kind"], 0) + 1
        rep.case(dict(c=c, r=r, k=k), nontrivial=c["kind"] != "constant",
                 sample=dict(case=c, evaluation=k, impl_rates=rates[r], impl_probs=probs[r]))
        if len(ivs) != len(vals):
            bad = f"model has {len(ivs)} outputs, implementation {len(vals)}"
        else:
            bad = None
            for k, (x, iv) in enumerate(zip(vals, ivs)):
                ok = close(x, iv)
                if ok is None:
                    undefined += 1
                elif not ok:
                    bad = f"output {k}: impl {x!r} not within 1e-9 of model [{float(iv[0])!r}, {float(iv[1])!r}]"
                    break
        if bad:
            f = search()
            if f:
                rep.violation(*f)
            else:
                rep.violation(f"C05:model-impl-differ:{c['kind']}", f"{bad} on {c} (evaluation {k})",
                              dict(case=c, row=r, stage=k, broken="correspondence M_site vs site_model.py"), False)
    rep.rule = ("random site-model configurations: kind in {Weibull(K=1..16) [+invariant] [*mu], Invariant, "
                "Constant}, shape log-uniform 1e-2..1e2, invariant in [0,1) incl. 0, batch [] or [B<=3]; "
                "non-trivial = not the constant model; distinct = distinct (configuration,row)")
    rep.extra = dict(input_distribution=dist, model_undefined=undefined,
                     traces_validated_against_impl=len(index))
    return rep.finish()
