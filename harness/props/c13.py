"""C13 — in a model specification every id denotes exactly one shared object.

Pipeline: T-classes translator (type-string table) -> proofs (prop/C13.v) -> property evaluated
directly on the implementation (traced process_object calls of the real torchtree.torchtree.main)
-> correspondence of the loader model (model/M_loader.v, vm_compute) with the implementation on
random specification programs -> json_factory round trips.
"""
import contextlib
import copy
import inspect
import io
import json
import logging
import os
import random
import re
import sys
import time

from harness import common as C
from harness import impl
from harness.translate import t_classes

PID = "C13"
HEADER = ("From Coq Require Import List String ZArith. Import ListNotations.\n"
          "From TT Require Import M_loader G_classes.\nOpen Scope string_scope.\nOpen Scope list_scope.\n"
          "Definition SCH := schema_of class_aliases.\n")
FUEL = 90
K_NESTED = "C13:process_object:duplicate-id-nested-in-own-definition-accepted"
SLOT_NAMES = (["x", "parameter", "parameters", "taxa", "mu", "invariant", "shape", "kappa", "frequencies", "rates",
               "branch_lengths", "tree_model", "rate", "full_like", "zeros_like", "ones_like", "eye_like", "type",
               "tensor", "indices", "transform", "distribution", "distributions"] +
              [f"{k}.{i}" for k in ("x", "parameters", "taxa", "distributions") for i in range(8)] +
              [f"parameters.{a}" for a in ("loc", "scale", "rate", "concentration", "concentration1",
                                           "concentration0", "exponent")])
K_TRANSFORM = "C13:update-not-observed:TransformedParameter:parameters-of-the-transform"

TORCH_SIGS = {
    "torch.distributions.Normal": ["loc", "scale", "validate_args"],
    "torch.distributions.LogNormal": ["loc", "scale", "validate_args"],
    "torch.distributions.Cauchy": ["loc", "scale", "validate_args"],
    "torch.distributions.Exponential": ["rate", "validate_args"],
    "torch.distributions.Gamma": ["concentration", "rate", "validate_args"],
    "torch.distributions.Beta": ["concentration1", "concentration0", "validate_args"],
    "torch.distributions.AffineTransform": ["loc", "scale", "event_dim", "cache_size"],
    "torch.distributions.ExpTransform": ["cache_size"],
    "torch.distributions.SigmoidTransform": ["cache_size"],
    "torch.distributions.PowerTransform": ["exponent", "cache_size"],
}


def sync():
    try:
        txt, aliases = t_classes.translate()
    except t_classes.TranslateError as e:
        return False, f"T-classes translator: {e}"
    with C.CoqLock():
        C.write_if_changed(os.path.join(C.COQ, "gen", "G_classes.v"), txt)
    return True, aliases


# ------------------------------------------------------------------------------- generator

class Gen:
    """Random specification programs: DAGs of nested / inlined / referenced objects over the
    registered classes, then faults (duplicate ids at any depth, dangling / forward / self
    references, missing id / type / keys, non-objects), plates, and comments."""

    def __init__(self, rng, aliases):
        self.rng = rng
        self.alias = {}
        for a, c in aliases:
            self.alias.setdefault(c, []).append(a)
        self.n = 0
        self.done = []        # (id, kind, meta) in completion order
        self.defs = []        # dicts that are definitions, with parent def (or None)
        self.refs = []        # (container, key) positions holding a reference string
        self.stack = []
        self.features = set()

    # -- helpers
    def fresh(self, stem):
        self.n += 1
        return f"{stem}{self.n}"

    def ty(self, cls):
        return self.rng.choice(self.alias[cls])

    def num(self, lo=0.25, hi=4.0):
        return self.rng.randrange(int(lo * 8), int(hi * 8) + 1) / 8.0

    def ref(self, container, key):
        # position of a reference string and how many definitions were complete when it is read
        self.refs.append((container, key, len(self.done)))

    def pool(self, kinds):
        return [d for d in self.done if d[1] in kinds]

    def open(self, d):
        self.defs.append((d, self.stack[-1] if self.stack else None))
        self.stack.append(d)

    def close(self, d, kind, meta=None):
        self.stack.pop()
        self.done.append((d["id"], kind, meta))
        return d

    def slot(self, container, key, kinds, depth, p_ref=0.45):
        """fill container[key] with a reference to / an inline definition of an object of one of kinds"""
        cands = self.pool(kinds)
        if cands and (depth <= 0 or self.rng.random() < p_ref):
            container[key] = self.rng.choice(cands)[0]
            self.ref(container, key)
            self.features.add("reference")
        else:
            container[key] = self.make(self.rng.choice(kinds), depth - 1)
            self.features.add("inline")

    def obj_list(self, kinds, depth, lo=1, hi=3, plates=True):
        out = []
        for _ in range(self.rng.randint(lo, hi)):
            if plates and "p" in kinds and self.rng.random() < 0.07:
                out.append(self.plate())
                continue
            out.append(None)
            self.slot(out, len(out) - 1, kinds, depth)
        return out

    def plate(self):
        """a Plate of leaf parameters (ids stem.${i} or stem*), sometimes with a nested id that
        lacks the wildcard (=> duplicate ids when the range has two or more indices)"""
        self.features.add("plate")
        stem = self.fresh("pl")
        a = self.rng.choice([0, 0, 1])
        b = a + self.rng.choice([0, 1, 2, 2, 3])
        use_var = self.rng.random() < 0.6
        oid = f"{stem}.${{i}}" if use_var else f"{stem}*"
        leaf = {"id": oid, "type": self.ty("Parameter"), "tensor": [self.num(), self.num()]}
        obj = leaf
        r = self.rng.random()
        if r < 0.2:
            inner = dict(leaf)
            inner["id"] = self.fresh("in") + (".${i}" if use_var and self.rng.random() < 0.6 else "")
            obj = {"id": oid, "type": self.ty("TransformedParameter"),
                   "transform": "torch.distributions.ExpTransform", "x": inner}
            self.features.add("plate-nested-id")
        p = {"type": self.rng.choice(["torchtree.Plate", "Plate"]),
             "range": f"{a}:{b}" if (a or self.rng.random() < 0.7) else f"{b}", "object": obj}
        if use_var:
            p["var"] = "i"
        for i in range(a, b):
            self.done.append((f"{stem}.{i}" if use_var else f"{stem}{i}", "p", None))
        return p

    # -- classes
    def make(self, kind, depth):
        f = getattr(self, "mk_" + kind)
        return f(depth)

    def mk_p1(self, depth):
        r = self.rng.random()
        if r < 0.75 or depth <= 0:
            d = {"id": self.fresh("s"), "type": self.ty("Parameter"), "tensor": [self.num()]}
            self.open(d)
            return self.close(d, "p1")
        d = {"id": self.fresh("v"), "type": self.ty("ViewParameter")}
        self.open(d)
        self.slot(d, "parameter", ["p", "p1"], depth)
        d["indices"] = "0:1"
        return self.close(d, "p1")

    def mk_p(self, depth):
        r = self.rng.random()
        if depth <= 0 or r < 0.30:
            d = {"id": self.fresh("p"), "type": self.ty("Parameter")}
            self.open(d)
            v = self.rng.random()
            if v < 0.7 or not self.pool(["p", "p1"]):
                d["tensor"] = [self.num(), self.num()]
            elif v < 0.8:
                self.slot(d, "full_like", ["p", "p1"], depth, p_ref=0.8)
                d["tensor"] = self.num()
            elif v < 0.9:
                self.slot(d, self.rng.choice(["zeros_like", "ones_like"]), ["p", "p1"], depth, p_ref=0.8)
            else:
                d[self.rng.choice(["zeros", "ones"])] = [2]
            return self.close(d, "p")
        if r < 0.50:
            d = {"id": self.fresh("t"), "type": self.ty("TransformedParameter")}
            self.open(d)
            if self.rng.random() < 0.6:
                d["transform"] = "torch.distributions.ExpTransform"
                if self.rng.random() < 0.3:
                    d["x"] = self.obj_list(["p", "p1"], depth, 1, 3)
                else:
                    self.slot(d, "x", ["p", "p1"], depth)
            else:
                d["transform"] = "torch.distributions.AffineTransform"
                pr = {}
                for arg in self.rng.sample(["scale", "loc"], 2):
                    if self.rng.random() < 0.5:
                        pr[arg] = self.num()
                    else:
                        self.slot(pr, arg, ["p1"], depth)
                d["parameters"] = pr
                self.slot(d, "x", ["p", "p1"], depth)
                self.features.add("transform-parameters")
            if self.rng.random() < 0.5:     # key order in the JSON is not the processing order
                d = self._reorder(d)
            return self.close(d, "p")
        if r < 0.65:
            d = {"id": self.fresh("v"), "type": self.ty("ViewParameter")}
            self.open(d)
            self.slot(d, "parameter", ["p", "p1"], depth)
            d["indices"] = self.rng.choice([":", "0:1", "0:2"])
            return self.close(d, "p")
        d = {"id": self.fresh("c"), "type": self.ty("CatParameter")}
        self.open(d)
        d["parameters"] = self.obj_list(["p", "p1"], depth, 1, 4)
        return self.close(d, "p")

    def _reorder(self, d):
        """same dict object, keys re-inserted in a random order (id/type first)"""
        items = [(k, v) for k, v in d.items() if k not in ("id", "type")]
        self.rng.shuffle(items)
        head = [(k, d[k]) for k in ("id", "type") if k in d]
        d.clear()
        d.update(head + items)
        return d

    def mk_dist(self, depth):
        if depth > 0 and self.rng.random() < 0.3:
            d = {"id": self.fresh("j"), "type": self.ty("JointDistributionModel")}
            self.open(d)
            d["distributions"] = self.obj_list(["dist"], depth, 1, 3, plates=False)
            return self.close(d, "dist")
        d = {"id": self.fresh("d"), "type": self.ty("Distribution")}
        self.open(d)
        name = self.rng.choice(["Normal", "LogNormal", "Gamma", "Exponential", "Cauchy"])
        d["distribution"] = "torch.distributions." + name
        x_list = self.rng.random() < 0.3
        if x_list:
            d["x"] = self.obj_list(["p", "p1"], depth, 1, 3)
        else:
            self.slot(d, "x", ["p", "p1"], depth)
        if self.rng.random() < 0.9:
            args = [a for a in TORCH_SIGS[d["distribution"]] if a != "validate_args"]
            self.rng.shuffle(args)
            pr = {}
            for arg in args:
                if not x_list and self.rng.random() < 0.3:
                    pr[arg] = self.rng.choice([self.num(), [self.num()]])
                else:
                    self.slot(pr, arg, ["p1"], depth)
            if self.rng.random() < 0.1:
                pr["not_an_argument"] = self.mk_p1(0)     # never processed by from_json
                self.done.pop()
                self.features.add("unprocessed-definition")
            d["parameters"] = pr
        if self.rng.random() < 0.5:
            d = self._reorder(d)
        return self.close(d, "dist")

    def mk_taxon(self, depth):
        d = {"id": self.fresh("tx"), "type": self.ty("Taxon")}
        self.open(d)
        if self.rng.random() < 0.5:
            d["attributes"] = {"date": float(self.rng.randint(0, 3))}
        return self.close(d, "taxon")

    def mk_taxa(self, depth):
        d = {"id": self.fresh("taxa"), "type": self.ty("Taxa")}
        self.open(d)
        lst, names = [], []
        avail = [t[0] for t in self.pool(["taxon"])]
        self.rng.shuffle(avail)
        for _ in range(self.rng.randint(3, 4)):
            if avail and self.rng.random() < 0.3:
                lst.append(avail.pop())
                self.ref(lst, len(lst) - 1)
                names.append(lst[-1])
            else:
                t = self.mk_taxon(0)
                lst.append(t)
                names.append(t["id"])
        d["taxa"] = lst
        return self.close(d, "taxa", names)

    def mk_site(self, depth):
        r = self.rng.random()
        if r < 0.4:
            d = {"id": self.fresh("sm"), "type": self.ty("ConstantSiteModel")}
            self.open(d)
            if self.rng.random() < 0.6:
                self.slot(d, "mu", ["p1"], depth)
        elif r < 0.6:
            d = {"id": self.fresh("sm"), "type": self.ty("InvariantSiteModel")}
            self.open(d)
            if self.rng.random() < 0.5:
                self.slot(d, "mu", ["p1"], depth)
            self.slot(d, "invariant", ["p1"], depth)
        else:
            d = {"id": self.fresh("sm"), "type": self.ty("WeibullSiteModel"), "categories": 4}
            self.open(d)
            for k in self.rng.sample(["mu", "invariant"], 2):
                if self.rng.random() < 0.4:
                    self.slot(d, k, ["p1"], depth)
            self.slot(d, "shape", ["p1"], depth)
        return self.close(d, "site")

    def mk_subst(self, depth):
        r = self.rng.random()
        if r < 0.3:
            d = {"id": self.fresh("jc"), "type": self.ty("JC69")}
            self.open(d)
        elif r < 0.7:
            d = {"id": self.fresh("hky"), "type": self.ty("HKY")}
            self.open(d)
            for k in self.rng.sample(["frequencies", "kappa"], 2):
                self.slot(d, k, ["p", "p1"] if k == "frequencies" else ["p1"], depth)
        else:
            d = {"id": self.fresh("gtr"), "type": self.ty("GTR")}
            self.open(d)
            for k in self.rng.sample(["frequencies", "rates"], 2):
                self.slot(d, k, ["p", "p1"], depth)
        return self.close(d, "subst")

    def mk_tree(self, depth):
        d = {"id": self.fresh("tree"), "type": self.ty("UnRootedTreeModel")}
        self.open(d)
        keys = ["taxa", "branch_lengths"]
        self.rng.shuffle(keys)
        for k in keys:
            if k == "taxa":
                cands = self.pool(["taxa"])
                if cands and self.rng.random() < 0.5:
                    c = self.rng.choice(cands)
                    d["taxa"] = c[0]
                    self.ref(d, "taxa")
                    names = c[2]
                else:
                    t = self.mk_taxa(depth - 1)
                    d["taxa"] = t
                    names = self.done[-1][2]
            else:
                self.slot(d, "branch_lengths", ["p", "p1"], depth)
        nm = list(names)
        self.rng.shuffle(nm)
        nw = f"({nm[0]}:0.1,{nm[1]}:0.2)"
        for x in nm[2:]:
            nw = f"({nw}:0.1,{x}:0.3)"
        d["newick"] = nw + ";"
        return self.close(d, "tree")

    def mk_clock(self, depth):
        d = {"id": self.fresh("clk"), "type": self.ty(self.rng.choice(["SimpleClockModel", "StrictClockModel"]))}
        self.open(d)
        for k in self.rng.sample(["rate", "tree_model"], 2):
            self.slot(d, k, ["tree"] if k == "tree_model" else ["p1"], depth)
        return self.close(d, "clock")

    def mk_prior(self, depth):
        d = {"id": self.fresh("ctmc"), "type": self.ty("CTMCScale")}
        self.open(d)
        for k in self.rng.sample(["x", "tree_model"], 2):
            self.slot(d, k, ["tree"] if k == "tree_model" else ["p1"], depth)
        return self.close(d, "prior")

    # -- whole specification
    def spec(self):
        rng = self.rng
        top = []
        kinds = ["p", "p", "p", "p1", "dist", "dist", "dist", "taxon", "taxa", "site", "subst", "tree",
                 "clock", "prior"]
        for _ in range(rng.randint(2, 7)):
            r = rng.random()
            if r < 0.04:
                top.append(self.plate())
            elif r < 0.09:
                top.append([self.make(rng.choice(["p", "p1"]), 1) for _ in range(rng.randint(0, 2))])
                self.features.add("nested-list")
            elif r < 0.12 and self.done:
                top.append(rng.choice(self.done)[0])
                self.ref(top, len(top) - 1)
                self.features.add("top-level-reference")
            else:
                top.append(self.make(rng.choice(kinds), rng.choice([1, 2, 2, 3, 3, 4])))
        return top

    # -- faults
    def ancestors(self, d):
        par = {id(x): p for x, p in self.defs}
        out = []
        p = par.get(id(d))
        while p is not None:
            out.append(p)
            p = par.get(id(p))
        return out

    def inject(self, top):
        rng = self.rng
        r = rng.random()
        faults = []
        n = 0 if r < 0.40 else (1 if r < 0.92 else 2)
        for _ in range(n):
            f = rng.choice(["dup-sibling", "dup-sibling", "dup-nested", "dup-nested", "dup-nested", "dangling",
                            "dangling", "forward", "self", "no-id", "no-type", "bad-type", "non-object",
                            "missing-key", "dup-in-unprocessed"])
            defs = [d for d, _ in self.defs if isinstance(d.get("id"), str)]
            if f == "dup-nested" and n > 1:
                continue      # kept alone: what follows an accepted nested duplicate is unconstrained
            if f == "dup-sibling" and len(defs) >= 2:
                a, b = rng.sample(defs, 2)
                if "Taxon" in str(b.get("type", "")):
                    continue          # the newick string names the taxa
                if any(x is a for x in self.ancestors(b)) or any(x is b for x in self.ancestors(a)):
                    continue
                b["id"] = a["id"]
            elif f == "dup-nested":
                cands = [d for d in defs if self.ancestors(d) and "Taxon" not in d.get("type", "")]
                if not cands:
                    continue
                b = rng.choice(cands)
                b["id"] = rng.choice(self.ancestors(b))["id"]
            elif f == "dangling" and self.refs:
                c, k, _ = rng.choice(self.refs)
                c[k] = self.fresh("nowhere")
            elif f == "forward" and self.refs:
                c, k, ndone = rng.choice(self.refs)
                kinds = {d[0]: d[1] for d in self.done}
                try:
                    cur = c[k]
                except (KeyError, IndexError):
                    continue          # an earlier fault of this case removed that key
                k0 = kinds.get(cur if isinstance(cur, str) else None)
                if k0 in (None, "taxon", "taxa"):
                    continue      # the newick string names the taxa
                # not complete (in generation order) when the reference is read; same kind, because the
                # class may well process its keys in another order and resolve it after all
                later = [d[0] for d in self.done[ndone:] if d[1] == k0 or (k0 == "p" and d[1] == "p1")]
                if not later:
                    continue
                c[k] = rng.choice(later)
            elif f == "self":
                cands = [(c, k) for c, k, _ in self.refs if isinstance(c, dict) and "id" in c]
                if not cands:
                    continue
                c, k = rng.choice(cands)
                c[k] = c["id"]
            elif f == "no-id" and defs:
                rng.choice(defs).pop("id", None)
            elif f == "no-type" and defs:
                rng.choice(defs).pop("type", None)
            elif f == "bad-type" and defs:
                rng.choice(defs)["type"] = rng.choice(["Nope", "torchtree.Nope", "nomodule.Thing"])
            elif f == "non-object" and self.refs:
                c, k, _ = rng.choice(self.refs)
                if isinstance(c, dict) and k in ("loc", "scale", "rate", "concentration"):
                    continue     # numbers are legal distribution / transform arguments
                c[k] = rng.choice([None, 3, True, 2.5])
            elif f == "missing-key" and defs:
                d = rng.choice(defs)
                ks = [k for k in d if k not in ("id", "type", "newick", "transform", "distribution", "full_like",
                                                "categories", "attributes", "parameters", "dim")]
                if not ks:
                    continue
                d.pop(rng.choice(ks))
            elif f == "dup-in-unprocessed" and defs:
                # a definition under a key the class never reads: not a definition for the loader
                d = rng.choice(defs)
                d["unread_key"] = {"id": rng.choice(defs).get("id", "x"), "type": self.ty("Parameter"),
                                   "tensor": [1.0]}
            else:
                continue
            faults.append(f)
        return faults

    # -- comments
    def junk(self, top):
        rng = self.rng
        defs = [d for d, _ in self.defs]
        r = rng.random()
        if r < 0.3 and defs:
            return copy.deepcopy(rng.choice(defs))
        if r < 0.5:
            return rng.choice(["text", "", 0, 1.5, None, True, [], {}])
        if r < 0.7:
            return {"id": self.fresh("c"), "nested": [{"ignore": True}, "x"]}
        return [rng.choice(["a", 1]), {"_k": 1}]

    def ignored_obj(self, top):
        rng = self.rng
        defs = [d for d, _ in self.defs]
        if rng.random() < 0.2:
            # an ignored PLATE: nothing of it may be instantiated (comments are removed before plates expand)
            stem = self.fresh("ipl")
            self.features.add("ignored-plate")
            return {"type": rng.choice(["torchtree.Plate", "Plate"]), "range": rng.choice(["0:2", "1:2", "3"]), "var": "i",
                    "object": {"id": f"{stem}.${{i}}", "type": self.ty("Parameter"), "tensor": [self.num()]},
                    "ignore": rng.choice([True, 1, "yes"])}
        o = copy.deepcopy(rng.choice(defs)) if defs and rng.random() < 0.6 else {"note": "x"}
        o["ignore"] = rng.choice([True, True, 1, "yes", [0], {"a": 1}, 2.5])
        return o

    def decorate(self, node, top, depth=0):
        """insert comments everywhere except inside the value of an `ignore` key"""
        rng = self.rng
        if isinstance(node, list):
            i = 0
            while i < len(node):
                self.decorate(node[i], top, depth + 1)
                i += 1
            if node and all(isinstance(x, (dict, str)) for x in node) and rng.random() < 0.25:
                node.insert(rng.randint(0, len(node)), self.ignored_obj(top))
                self.features.add("ignored-in-list")
        elif isinstance(node, dict):
            for k in list(node.keys()):
                if k != "ignore":
                    self.decorate(node[k], top, depth + 1)
            if rng.random() < 0.25:
                items = list(node.items())
                items.insert(rng.randint(0, len(items)), ("_" + self.fresh("c"), self.junk(top)))
                node.clear()
                node.update(items)
                self.features.add("underscore-key")
            if "type" in node and rng.random() < 0.08:
                key = rng.choice(["mu", "invariant", "extra", "note"])
                if key not in node:
                    node[key] = self.ignored_obj(top)
                    self.features.add("ignored-as-value")
            if "id" in node and "type" in node and "ignore" not in node and rng.random() < 0.06:
                node["ignore"] = rng.choice([False, 0, "", [], {}, None, 0.0])
                self.features.add("ignore-falsy")


def gen_case(seed, i, aliases):
    rng = random.Random(f"{seed}/{i}")
    g = Gen(rng, aliases)
    top = g.spec()
    faults = g.inject(top)
    if rng.random() < 0.02:
        g.features.add("plate-as-value")
        d = next((d for d, _ in g.defs if "x" in d), None)
        if d is not None:
            d["x"] = g.plate()
    spec = top
    if rng.random() < 0.015 and top and all(isinstance(x, dict) and isinstance(x.get("id"), str) for x in top):
        spec = {x["id"]: x for x in top}        # main iterates the keys of a dict
        g.features.add("top-level-dict")
    plain = copy.deepcopy(spec)
    g.decorate(spec, top)
    return dict(i=i, spec=spec, plain=plain, faults=faults, features=sorted(g.features))


# ---------------------------------------------------------------------------- Coq literals

def coq_string(s):
    assert all(32 <= ord(ch) < 127 for ch in s), s
    return '"' + s.replace('"', '""') + '"'


class Interner:
    """every distinct string becomes one named constant of the case file (string literals are by far
    the most expensive thing for coqc to read)"""

    def __init__(self):
        self.names = {}

    def __call__(self, s):
        if s not in self.names:
            self.names[s] = f"s{len(self.names)}"
        return self.names[s]

    def header(self):
        return ("".join(f"Definition {n} := {coq_string(s)}.\n" for s, n in self.names.items()) +
                "Definition tbl : list string := [" + "; ".join(self.names.values()) + "].\n")

    def table(self):
        return list(self.names.keys())


def coq_json(j, S):
    if j is None:
        return "JNull"
    if j is True:
        return "(JBool true)"
    if j is False:
        return "(JBool false)"
    if isinstance(j, int):
        return f"(JInt {C.zlit(j)})"
    if isinstance(j, float):
        k = round(j * 1000)
        assert abs(j * 1000 - k) < 1e-9, j
        return f"(JFlt {C.zlit(k)})"
    if isinstance(j, str):
        return f"(JStr {S(j)})"
    if isinstance(j, list):
        return "(JArr [" + "; ".join(coq_json(x, S) for x in j) + "])"
    if isinstance(j, dict):
        return "(JObj [" + "; ".join(f"({S(k)}, {coq_json(v, S)})" for k, v in j.items()) + "])"
    raise TypeError(type(j))


def tok_json(j, out):
    def s_(x):
        out.append(len(x))
        out.extend(ord(ch) for ch in x)
    if j is None:
        out.append(0)
    elif j is True or j is False:
        out.extend([1, 1 if j else 0])
    elif isinstance(j, int):
        out.extend([2, j])
    elif isinstance(j, float):
        out.extend([3, round(j * 1000)])
    elif isinstance(j, str):
        out.append(4)
        s_(j)
    elif isinstance(j, list):
        out.extend([5, len(j)])
        for x in j:
            tok_json(x, out)
    else:
        out.extend([6, len(j)])
        for k, v in j.items():
            s_(k)
            tok_json(v, out)
    return out


def fp_json(j):
    h = 7
    for t in tok_json(j, []):
        h = (31 * h + t + 1) & 1152921504606846975
    return h


# ------------------------------------------------------------------- implementation runner

class _Cap(logging.Handler):
    def __init__(self):
        super().__init__()
        self.recs = []

    def emit(self, r):
        self.recs.append(r.msg)


class Tracer:
    """Wraps every module-level binding of core.utils.process_object in the torchtree package with
    a recorder (the real function does the work).  Events: ('ref', s, obj|None), ('open', id),
    ('close', id, obj), ('fail', id)."""

    def __init__(self):
        import torchtree.core.utils as U
        self.U = U
        self.real = U.process_object
        self.events = []
        self.sites = []

    def __enter__(self):
        real, ev = self.real, self.events

        def traced(data, dic):
            if isinstance(data, str):
                try:
                    o = real(data, dic)
                except BaseException:
                    ev.append(("ref", data, None))
                    raise
                ev.append(("ref", data, o))
                return o
            if isinstance(data, dict):
                i = data.get("id")
                ev.append(("open", i))
                try:
                    o = real(data, dic)
                except BaseException:
                    ev.append(("fail", i))
                    raise
                ev.append(("close", i, o))
                return o
            return real(data, dic)

        for name, mod in list(sys.modules.items()):
            if name.startswith("torchtree") and mod is not None and \
                    getattr(mod, "process_object", None) is real:
                self.sites.append(mod)
                mod.process_object = traced
        return self

    def __exit__(self, *a):
        for mod in self.sites:
            mod.process_object = self.real
        self.sites = []


ROOT_PATTERNS = [
    (r"^Object with ID `(.*)' already exists$", lambda m: ("dup", m.group(1))),
    (r"^Object with ID `(.*)' not found$", lambda m: ("notfound", m.group(1))),
    (r"^Missing key `(.*)' for object of type `(.*)' with ID `(.*)'$",
     lambda m: ("missingkey", m.group(1), m.group(2), m.group(3))),
    (r"^Missing `id'", lambda m: ("noid",)),
    (r"^Object with ID `(.*)' does not have a type$", lambda m: ("notype", m.group(1))),
    (r"in object with ID `(.*)'$", lambda m: ("badclass", m.group(1))),
    (r"^Object is not valid", lambda m: ("notobject",)),
    (r"^indices must be", lambda m: ("indices",)),
    (r"^plate works only", lambda m: ("plate",)),
]


def parse_root(msg):
    for pat, f in ROOT_PATTERNS:
        m = re.search(pat, msg, re.S)
        if m:
            return f(m)
    return ("other", msg[:80])


def run_main(spec, path):
    """Run the real torchtree.torchtree.main on the specification; observe the registry it threads
    through process_objects, the exception (if any) and the logged errors."""
    import torchtree.torchtree as TT
    from torchtree.core.utils import JSONParseError
    with open(path, "w") as f:
        json.dump(spec, f)
    cap = {"dic": None, "exc": None}
    real = TT.process_objects

    def wrapped(data, dic, *a, **k):
        cap["dic"] = dic
        try:
            return real(data, dic, *a, **k)
        except BaseException as e:
            cap["exc"] = e
            raise

    h = _Cap()
    root = logging.getLogger()
    old_handlers = root.handlers[:]
    root.handlers = [h]
    argv = sys.argv
    sys.argv = ["torchtree", path, "--dry"]
    TT.process_objects = wrapped
    crash = None
    try:
        with Tracer() as tr, contextlib.redirect_stdout(io.StringIO()):
            try:
                TT.main()
            except BaseException as e:   # noqa
                crash = e
    finally:
        sys.argv = argv
        TT.process_objects = real
        root.handlers = old_handlers
    exc = crash if crash is not None else cap["exc"]
    out = dict(events=tr.events, dic=cap["dic"] if cap["dic"] is not None else {})
    if exc is None:
        out["kind"] = "ok"
    elif isinstance(exc, JSONParseError):
        seq = [str(m) for m in h.recs if isinstance(m, JSONParseError)]
        if not seq or seq[-1] != str(exc) or crash is not None:
            seq.append(str(exc))
        out["kind"] = "parse"
        out["root"] = parse_root(seq[0])
        chain = []
        for m in seq[1:]:
            mm = re.match(r"^Calling object of type `(.*)' with ID `(.*)'$", m, re.S)
            chain.append(mm.group(2) if mm else "?" + m[:40])
        out["chain"] = chain
        out["escaped_main"] = crash is not None
    else:
        out["kind"] = "crash"
        out["exc"] = type(exc).__name__ + ": " + str(exc)[:120]
    return out


def signature(o):
    """what two runs must agree on for `comments are inert`"""
    if o["kind"] == "ok":
        return ("ok", tuple((k, type(v).__name__) for k, v in o["dic"].items()))
    if o["kind"] == "parse":
        return ("parse", o["root"], tuple(o["chain"]))
    return ("crash", o["exc"].split(":")[0])


def direct_checks(case, o, o_plain):
    """The property evaluated on the implementation alone (no model): from the traced
    process_object calls of one run of main."""
    found = []
    spec = case["spec"]
    ev = o["events"]
    if o["kind"] == "ok":
        dic = o["dic"]
        open_ids, closed, nested_dup, plain_dup = [], set(), None, None
        for e in ev:
            if e[0] == "open":
                if e[1] in open_ids and nested_dup is None:
                    nested_dup = e[1]
                elif e[1] in closed and plain_dup is None:
                    plain_dup = e[1]
                open_ids.append(e[1])
            elif e[0] == "close":
                open_ids.remove(e[1])
                if e[1] in closed and plain_dup is None and nested_dup is None:
                    nested_dup = e[1]
                closed.add(e[1])
        if plain_dup is not None:
            found.append(("C13:process_object:duplicate-id-accepted",
                          f"id `{plain_dup}' is defined twice (the second definition starts after the first "
                          f"was registered) and the specification loads without an error", dict(spec=spec)))
        if nested_dup is not None:
            found.append((K_NESTED,
                          f"id `{nested_dup}' is defined again inside its own definition; process_object tests "
                          f"`id in dic' only before construction, registers the inner object and then silently "
                          f"overwrites it with the outer one: the specification loads without an error",
                          dict(spec=spec)))
        if nested_dup is None and plain_dup is None:
            for e in ev:
                if e[0] == "ref" and e[2] is None:
                    found.append(("C13:process_object:dangling-reference-accepted",
                                  f"reference `{e[1]}' failed to resolve but the load succeeded", dict(spec=spec)))
                    break
                if e[0] == "ref" and e[2] is not dic.get(e[1]):
                    found.append(("C13:sharing:reference-not-same-instance",
                                  f"a reference to `{e[1]}' resolved to an object that is not the instance "
                                  f"registered under that id", dict(spec=spec)))
                    break
                if e[0] == "close" and e[2] is not dic.get(e[1]):
                    found.append(("C13:sharing:definition-not-registered",
                                  f"the object built for id `{e[1]}' is not the instance registered under "
                                  f"that id", dict(spec=spec)))
                    break
            ids = [k for k in dic]
            for a in range(len(ids)):
                for b in range(a + 1, len(ids)):
                    if dic[ids[a]] is dic[ids[b]]:
                        found.append(("C13:sharing:two-ids-one-instance",
                                      f"ids `{ids[a]}' and `{ids[b]}' are bound to the same instance",
                                      dict(spec=spec)))
    if o_plain is not None and signature(o) != signature(o_plain):
        found.append(("C13:remove_comments:comments-not-inert",
                      f"with comments (underscore keys / ignored objects) the load gives {signature(o)[:2]}, "
                      f"without them {signature(o_plain)[:2]}", dict(spec=spec, plain=case["plain"])))
    return found


# -------------------------------------------------------------------------- model outcomes

class _Rd:
    def __init__(self, xs, table):
        self.xs, self.i, self.table = xs, 0, table

    def num(self):
        v = self.xs[self.i]
        self.i += 1
        return v

    def str(self):
        k = self.num()
        if k >= 0:
            return self.table[k]
        n = self.num()
        s = "".join(chr(c) for c in self.xs[self.i:self.i + n])
        self.i += n
        return s


ERR_TAGS = {1: ("dup", 1), 2: ("notfound", 1), 3: ("keyerror", 1), 4: ("missingkey", 3), 5: ("noid", -1),
            6: ("noid", 0), 7: ("notype", 1), 8: ("badclass", 1), 9: ("notobject", 0), 10: ("indices", 0),
            11: ("plate", 0), 12: ("crash", 1), 13: ("fuel", 0)}


def decode_show(rd):
    tag = rd.num()
    if tag == 1:
        reg = []
        for _ in range(rd.num()):
            s = rd.str()
            reg.append((s, rd.num()))
        heap = {}
        for _ in range(rd.num()):
            n = rd.num()
            cls, oid = rd.str(), rd.str()
            kids = []
            for _ in range(rd.num()):
                k = rd.str()
                kids.append((k, rd.num()))
            heap[n] = (cls, oid, kids)
        return dict(kind="ok", reg=reg, heap=heap)
    t = rd.num()
    name, nstr = ERR_TAGS[t]
    args = [rd.str() for _ in range(abs(nstr))]
    chain = [rd.str() for _ in range(rd.num())]
    if name in ("crash", "keyerror"):
        return dict(kind="crash", what=args[0])
    if name == "fuel":
        return dict(kind="fuel")
    root = (name,) + (tuple(args) if nstr > 0 else ())
    return dict(kind="parse", root=root, chain=chain)


def decode_case(flat, table):
    rd = _Rd(flat, table)
    m_true = decode_show(rd)
    assert rd.num() == -1
    m_false = decode_show(rd)
    assert rd.num() == -1
    fp_rc, exp_tag, fp_exp = rd.num(), rd.num(), rd.num()
    assert rd.i == len(flat)
    return m_true, m_false, fp_rc, (exp_tag, fp_exp)


def coq_case(case, S):
    return (f"let j := {coq_json(case['spec'], S)} in "
            f"show tbl (load SCH true {FUEL}%nat j) ++ [(-1)%Z] ++ show tbl (load SCH false {FUEL}%nat j) ++ "
            f"((-1)%Z :: fp_prepare {FUEL}%nat j)")


# ------------------------------------------------------ where a holder keeps a slot's object

NOT_HELD = object()


def accessor(obj, cls, slot):
    base, _, idx = slot.partition(".")

    def cat_members(c):
        return list(c._parameter_container._parameters.values())

    if cls == "Parameter":
        return NOT_HELD                     # full_like / zeros_like / ...: only the shape is used
    if cls == "TransformedParameter":
        if base == "x":
            return obj.x if idx == "" else cat_members(obj.x)[int(idx)]
        if base == "parameters":
            return getattr(obj.transform, idx)
    if cls == "ViewParameter" and base == "parameter":
        return obj.parameter
    if cls == "CatParameter" and base == "parameters" and idx != "":
        return cat_members(obj)[int(idx)]
    if cls == "Distribution":
        if base == "x":
            return obj.x if idx == "" else cat_members(obj.x)[int(idx)]
        if base == "parameters":
            return obj.dict_parameters[idx]
    if cls == "JointDistributionModel" and base == "distributions":
        return list(obj._distributions._models.values())[int(idx)]
    if cls == "Taxa" and base == "taxa":
        return obj[int(idx)] if idx != "" else NOT_HELD
    table = {
        ("ConstantSiteModel", "mu"): "_mu", ("InvariantSiteModel", "mu"): "_mu",
        ("InvariantSiteModel", "invariant"): "_invariant", ("WeibullSiteModel", "shape"): "_parameter",
        ("WeibullSiteModel", "invariant"): "_invariant", ("WeibullSiteModel", "mu"): "_mu",
        ("HKY", "kappa"): "_kappa", ("HKY", "frequencies"): "_frequencies", ("GTR", "rates"): "_rates",
        ("GTR", "frequencies"): "_frequencies", ("UnRootedTreeModel", "taxa"): "_taxa",
        ("UnRootedTreeModel", "branch_lengths"): "_branch_lengths",
        ("SimpleClockModel", "tree_model"): "tree", ("SimpleClockModel", "rate"): "_rates",
        ("StrictClockModel", "tree_model"): "tree", ("StrictClockModel", "rate"): "_rates",
        ("CTMCScale", "x"): "x", ("CTMCScale", "tree_model"): "tree_model",
    }
    if (cls, slot) in table:
        return getattr(obj, table[(cls, slot)])
    raise KeyError(f"harness has no accessor for {cls}.{slot}")


def compare_graph(model, dic):
    """identity-sharing structure of the model's registry/heap vs the implementation's objects.
    Returns (None | (key, what), M) with M: model identity -> python object."""
    reg = {}
    for s, n in reversed(model["reg"]):      # the head of the list is the binding in force
        reg[s] = n
    if set(reg) != set(dic):
        return ("C13:registry:ids-differ", f"registered ids: model {sorted(reg)} vs implementation "
                                           f"{sorted(map(str, dic))}"), {}
    M, back = {}, {}
    todo = []
    for s, n in reg.items():
        if n in M and M[n] is not dic[s]:
            return ("C13:sharing:one-id-two-instances", f"id `{s}'"), M
        if id(dic[s]) in back and back[id(dic[s])] != n:
            return ("C13:sharing:two-ids-one-instance", f"id `{s}' is the instance of another id"), M
        M[n] = dic[s]
        back[id(dic[s])] = n
        todo.append(n)
    while todo:
        n = todo.pop()
        cls, oid, kids = model["heap"][n]
        if type(M[n]).__name__ != cls:
            return ("C13:registry:class-differs", f"id `{oid}': model class {cls}, implementation "
                                                  f"{type(M[n]).__name__}"), M
        for slot, cn in kids:
            child = accessor(M[n], cls, slot)
            if child is NOT_HELD:
                continue
            if cn in M:
                if M[cn] is not child:
                    return (f"C13:sharing:{cls}.{slot.split('.')[0]}:not-the-registered-instance",
                            f"object `{oid}' holds under {slot} an instance that is not the one bound to id "
                            f"`{model['heap'][cn][1]}'"), M
            else:
                if id(child) in back:
                    return (f"C13:sharing:{cls}.{slot.split('.')[0]}:unexpected-sharing",
                            f"object `{oid}' slot {slot}"), M
                M[cn] = child
                back[id(child)] = cn
                todo.append(cn)
    return None, M


# ---------------------------------------------- an update through one holder is seen by all

def fresh_value(o, torch):
    """the value of a parameter-like object / Distribution recomputed from the leaves, bypassing caches"""
    n = type(o).__name__
    if n == "Parameter":
        return o._tensor
    if n == "ViewParameter":
        return fresh_value(o.parameter, torch)[..., o.indices]
    if n == "CatParameter":
        return torch.cat([fresh_value(p, torch) for p in o._parameter_container._parameters.values()], dim=o._dim)
    if n == "TransformedParameter":
        return o.transform(fresh_value(o.x, torch))
    if n == "Distribution":
        return o.dist(**{k: fresh_value(v, torch) for k, v in o.dict_parameters.items()},
                      **o.kwargs).log_prob(fresh_value(o.x, torch))
    raise TypeError(n)


def cached_value(o):
    return o() if type(o).__name__ == "Distribution" else o.tensor


def update_checks(model, M, rng, stats):
    torch = impl.load()
    heap = model["heap"]
    holders = {}      # identity -> [(holder identity, slot)]
    for n, (cls, oid, kids) in heap.items():
        if n not in M:
            continue
        for slot, cn in kids:
            if cn in M and accessor(M[n], cls, slot) is not NOT_HELD:
                holders.setdefault(cn, []).append((n, slot))
    # leaves that reach a TransformedParameter through a parameter OF ITS TRANSFORM (directly or through views /
    # other derived parameters) come first: the holder must see their updates like any other
    below = set()
    todo = [cn for n, (cls, _, kids) in heap.items() if cls == "TransformedParameter"
            for slot, cn in kids if slot.startswith("parameters.")]
    while todo:
        n = todo.pop()
        if n not in below:
            below.add(n)
            todo += [cn for _, cn in heap[n][2]]
    leaves = [n for n in M if heap[n][0] == "Parameter" and holders.get(n)]
    rng.shuffle(leaves)
    leaves.sort(key=lambda n: n not in below)
    for n in leaves[:4]:
        p = M[n]
        up = set()
        todo = [n]
        while todo:
            x = todo.pop()
            for h, _ in holders.get(x, []):
                if h not in up:
                    up.add(h)
                    todo.append(h)
        evaluable = [h for h in up if heap[h][0] in ("ViewParameter", "CatParameter", "TransformedParameter",
                                                     "Distribution")]
        for h in evaluable:                      # populate the caches before the update
            try:
                cached_value(M[h])
            except Exception:      # noqa
                pass
        new = (p.tensor.detach().clone() * 1.5 + 0.25)
        hs = holders[n]
        h0, s0 = hs[rng.randrange(len(hs))]
        accessor(M[h0], heap[h0][0], s0).tensor = new       # the update, through ONE holder
        stats["updates"] += 1
        for h, s in hs:
            seen = accessor(M[h], heap[h][0], s).tensor
            stats["observations"] += 1
            if not torch.equal(seen, new):
                return (f"C13:update-not-observed:{heap[h][0]}.{s.split('.')[0]}",
                        f"parameter `{heap[n][1]}' updated through holder `{heap[h0][1]}'.{s0} is not seen "
                        f"through holder `{heap[h][1]}'.{s}")
        for h in evaluable:
            try:
                want = fresh_value(M[h], torch)
            except Exception:      # noqa
                stats["not_evaluable"] += 1
                continue
            try:
                got = cached_value(M[h])
            except Exception as e:      # noqa
                return (f"C13:update-not-observed:{heap[h][0]}:raises",
                        f"after updating `{heap[n][1]}' holder `{heap[h][1]}' raises {type(e).__name__}")
            stats["evaluations"] += 1
            if got.shape != want.shape or not torch.allclose(got, want, rtol=1e-9, atol=1e-12, equal_nan=True):
                return (f"C13:update-not-observed:{heap[h][0]}:stale-value",
                        f"after updating `{heap[n][1]}' through `{heap[h0][1]}'.{s0} the value of "
                        f"`{heap[h][1]}' ({heap[h][0]}) is {got.tolist()} but recomputed from the leaves "
                        f"{want.tolist()}")
    # last (it may leave stale values behind): a leaf that a TransformedParameter holds as a parameter of
    # its transform, updated through the registry's instance, observed through that holder alone
    direct = [(n, h, s) for n in M if heap[n][0] == "Parameter"
              for h, s in holders.get(n, []) if heap[h][0] == "TransformedParameter" and s.startswith("parameters.")]
    if direct:
        n, h, s = direct[rng.randrange(len(direct))]
        try:
            cached_value(M[h])
            M[n].tensor = M[n].tensor.detach().clone() * 1.5 + 0.25
            stats["updates"] += 1
            got, want = cached_value(M[h]), fresh_value(M[h], torch)
            stats["evaluations"] += 1
        except Exception:      # noqa
            stats["not_evaluable"] += 1
            return None
        if got.shape != want.shape or not torch.allclose(got, want, rtol=1e-9, atol=1e-12, equal_nan=True):
            return (K_TRANSFORM,
                    f"`{heap[h][1]}' (TransformedParameter) holds parameter `{heap[n][1]}' as {s[11:]} of its "
                    f"transform; after updating `{heap[n][1]}' its value is still {got.tolist()}, recomputed "
                    f"{want.tolist()} (the holder never listens to the parameters of its transform)")
    return None


# ------------------------------------------------------------------ range references (outside the loader model)

def range_reference_check(rng):
    """References of the form "stem{a:b}" stand for the objects stem a .. stem b-1: every one of them must have been
    defined, whichever member is missing.  Judged on the implementation only (the loader model has no ranges).
    -> (count, [finding])"""
    impl.load()
    from torchtree.core.utils import JSONParseError, process_objects
    found, count = [], 0
    for _ in range(12):
        lo = rng.randint(0, 2)
        hi = lo + rng.randint(2, 5)
        stem = rng.choice(["p", "branches.", "w_"])
        missing = rng.choice([None, lo, hi - 1] + list(range(lo, hi)))
        defs = [{"id": f"{stem}{i}", "type": "Parameter", "tensor": [0.5 + i]} for i in range(lo, hi) if i != missing]
        rng.shuffle(defs)
        user = {"id": "user", "type": "ViewParameter", "parameter": f"{stem}{{{lo}:{hi}}}", "indices": "0:1"}
        dic = {}
        try:
            for d in defs + [user]:
                process_objects(copy.deepcopy(d), dic)
            outcome = "accepted"
        except JSONParseError:
            outcome = "parse-error"
        except Exception as e:      # noqa
            outcome = f"{type(e).__name__}"
        count += 1
        want = "accepted" if missing is None else "parse-error"
        if outcome != want:
            which = "none" if missing is None else ("first" if missing == lo else "last" if missing == hi - 1 else "middle")
            found.append((f"C13:range-reference:missing-{which}-member:{outcome}",
                          f"reference {user['parameter']!r} with member {missing} undefined ({which}): loader outcome "
                          f"{outcome}, expected {want}", dict(definitions=[d['id'] for d in defs], reference=user["parameter"])))
    return count, found


def self_registration_check(rng):
    """A class that registers ITSELF under its id while it is being built (FlexibleTimeTreeModel: so that its own
    heights parameter can refer to the tree) — outside the loader model, judged on the implementation: the object
    the loader returns, the registry entry and what a reference inside its own definition resolves to are ONE
    object; a second definition of the id is still rejected, before and after; a reference to it from a later
    object resolves to it.  -> (count, [finding])"""
    impl.load()
    from torchtree.core.utils import JSONParseError, process_object
    found, count = [], 0
    names = ["A", "B", "C", "D"]
    taxa = {"id": "taxa", "type": "Taxa", "taxa": [{"id": n, "type": "Taxon", "attributes": {"date": 0.0}} for n in names]}

    def tree(heights):
        return {"id": "tree", "type": "FlexibleTimeTreeModel", "newick": "(((A,B),C),D);", "taxa": "taxa",
                "internal_heights": heights}
    plain = {"id": "heights", "type": "Parameter", "tensor": [1.0, 2.0, 3.0]}
    # the heights refer back to the tree that is being built (the case self-registration exists for)
    circular = {"id": "heights", "type": "TransformedParameter",
                "transform": "torchtree.evolution.tree_height_transform.GeneralNodeHeightTransform",
                "parameters": {"tree": "tree"},
                "x": {"id": "ratios_root", "type": "Parameter", "tensor": [0.5, 0.5, 3.0]}}
    for label, heights in (("plain", plain), ("heights-refer-to-the-tree", circular)):
        dic = {}
        try:
            process_object(copy.deepcopy(taxa), dic)
            obj = process_object(tree(copy.deepcopy(heights)), dic)
            count += 1
            if dic.get("tree") is not obj:
                found.append((f"C13:self-registration:{label}:registry-holds-another-object",
                              "the object returned for `tree' is not the one registered under `tree'", dict(case=label)))
            if label != "plain":
                held = getattr(dic["heights"].transform, "tree", None)
                if held is not obj:
                    found.append((f"C13:self-registration:{label}:reference-resolves-to-another-object",
                                  "the reference to `tree' inside its own definition does not denote the object that "
                                  "ends up registered under `tree'", dict(case=label)))
            user = process_object({"id": "coal", "type": "ConstantCoalescentModel", "tree_model": "tree",
                                   "theta": {"id": "theta", "type": "Parameter", "tensor": [3.0]}}, dic)
            if user.tree_model is not obj:
                found.append((f"C13:self-registration:{label}:later-reference-resolves-to-another-object",
                              "a later reference to `tree' does not denote the registered object", dict(case=label)))
        except Exception as e:      # noqa
            found.append((f"C13:self-registration:{label}:raises:{type(e).__name__}", f"{type(e).__name__}: {str(e)[:160]}",
                          dict(case=label)))
            continue
        # the id cannot be defined a second time, by the same class or another one, inline or at the top level
        for again in (tree(copy.deepcopy(plain) | {"id": "heights2"}), {"id": "tree", "type": "Parameter", "tensor": [1.0]}):
            count += 1
            try:
                process_object(copy.deepcopy(again), dic)
                found.append((f"C13:self-registration:{label}:duplicate-accepted",
                              f"a second definition of `tree' ({again['type']}) is accepted", dict(case=label)))
            except JSONParseError:
                pass
            except Exception as e:      # noqa
                found.append((f"C13:self-registration:{label}:duplicate:{type(e).__name__}",
                              f"a second definition of `tree' raises {type(e).__name__}: {str(e)[:120]} instead of a parse "
                              f"error", dict(case=label)))
    # defined first by someone else: the self-registering class must refuse the id
    dic = {}
    try:
        process_object(copy.deepcopy(taxa), dic)
        process_object({"id": "tree", "type": "Parameter", "tensor": [1.0]}, dic)
        count += 1
        process_object(tree(copy.deepcopy(plain)), dic)
        found.append(("C13:self-registration:duplicate-of-an-earlier-object-accepted",
                      "FlexibleTimeTreeModel takes an id that is already registered", {}))
    except JSONParseError:
        pass
    except Exception as e:      # noqa
        found.append((f"C13:self-registration:earlier:{type(e).__name__}", f"{type(e).__name__}: {str(e)[:160]}", {}))
    return count, found


def eager_listener_check(rng):
    """A holder may read the shared parameter AT THE MOMENT it is told about the change (HMCOperator recomputes its
    inverse mass matrix inside handle_parameter_changed).  What it reads then — directly or through a view / a
    concatenation / a transformed parameter built in the same specification — must already be the new value.
    -> (count, [finding])"""
    torch = impl.load()
    from torchtree.core.utils import process_object
    found, count = [], 0

    class Probe:
        def __init__(self, watched):
            self.watched, self.seen = watched, []

        def handle_parameter_changed(self, variable, index, event):
            self.seen.append(self.watched.tensor.detach().clone())

        def handle_model_changed(self, model, obj, index):
            pass
    objs = [{"id": "p", "type": "Parameter", "tensor": [0.5, 1.5, 2.5]},
            {"id": "v", "type": "ViewParameter", "parameter": "p", "indices": "1:"},
            {"id": "t", "type": "TransformedParameter", "transform": "torch.distributions.ExpTransform", "x": "p"},
            {"id": "c", "type": "CatParameter", "parameters": ["p", {"id": "q", "type": "Parameter", "tensor": [9.0]}], "dim": -1}]
    for _ in range(3):
        dic = {}
        for o in copy.deepcopy(objs):
            process_object(o, dic)
        new = torch.tensor([rng.uniform(0.1, 3.0) for _ in range(3)])
        want = {"p": new, "v": new[1:], "t": new.exp(), "c": torch.cat([new, torch.tensor([9.0])])}
        probes = {}
        for k in ("p", "v", "t", "c"):
            dic[k].tensor                      # everything evaluated (and cached) once
            probes[k] = Probe(dic[k])
            dic[k].add_parameter_listener(probes[k])
        dic["p"].tensor = new.clone()
        for k, pr in probes.items():
            count += 1
            if not pr.seen:
                found.append((f"C13:eager-listener:{type(dic[k]).__name__}:not-notified",
                              f"a listener of `{k}' is not told that `p' was assigned", dict(holder=k)))
            elif not torch.allclose(pr.seen[-1], want[k].to(pr.seen[-1].dtype), rtol=1e-12, atol=0):
                found.append((f"C13:eager-listener:{type(dic[k]).__name__}:reads-the-old-value",
                              f"a listener of `{k}' ({type(dic[k]).__name__}) that reads it when notified of the assignment "
                              f"p = {new.tolist()} sees {pr.seen[-1].tolist()}, not {want[k].tolist()}", dict(holder=k)))
    # the shipped eager holder: an HMC operator and an adaptor sharing the mass matrix by id
    for dense in (False, True):
        try:
            dic = {}
            mm = {"id": "mass", "type": "Parameter", "tensor": [[1.0, 0.0], [0.0, 1.0]] if dense else [1.0, 1.0]}
            for o in ({"id": "y", "type": "Parameter", "tensor": [0.2, -0.1]},
                      {"id": "d", "type": "Distribution", "distribution": "torch.distributions.Normal", "x": "y",
                       "parameters": {"loc": [0.0, 0.0], "scale": [1.0, 2.0]}},
                      {"id": "joint", "type": "JointDistributionModel", "distributions": ["d"]},
                      mm,
                      {"id": "hmc", "type": "HMCOperator", "joint": "joint", "parameters": ["y"], "weight": 1.0,
                       "integrator": {"id": "lf", "type": "LeapfrogIntegrator", "steps": 2, "step_size": 0.1},
                       "mass_matrix": "mass"}):
                process_object(copy.deepcopy(o), dic)
            new = torch.tensor([[2.0, 0.5], [0.5, 1.5]]) if dense else torch.tensor([rng.uniform(0.5, 3.0), rng.uniform(0.5, 3.0)])
            dic["mass"].tensor = new.clone()
            inv = dic["hmc"].inverse_mass_matrix
            want = torch.linalg.inv(new) if dense else 1.0 / new
            count += 1
            if inv.shape != want.shape or not torch.allclose(inv, want, rtol=1e-9, atol=1e-12):
                found.append((f"C13:eager-listener:HMCOperator:{'dense' if dense else 'diagonal'}-mass-matrix",
                              f"the mass matrix shared by id with an HMC operator is assigned {new.tolist()} through the "
                              f"registry: the operator's inverse mass matrix is {inv.tolist()}, not {want.tolist()}",
                              dict(dense=dense)))
        except Exception as e:      # noqa
            found.append((f"C13:eager-listener:HMCOperator:raises:{type(e).__name__}", f"{type(e).__name__}: {str(e)[:160]}", {}))
    return count, found


# ------------------------------------------------------------------ json_factory round trips

def factory_roundtrips(rng, n_rounds):
    """Specifications produced by the library's own json_factory helpers, loaded with
    process_objects, evaluate like directly constructed objects.  -> (count, [finding])"""
    torch = impl.load()
    from torchtree.core.utils import process_objects
    from torchtree.core.parameter import Parameter, ViewParameter
    from torchtree.distributions.distributions import Distribution
    from torchtree.distributions.ctmc_scale import CTMCScale
    from torchtree.evolution.branch_model import SimpleClockModel
    from torchtree.evolution.taxa import Taxa, Taxon
    from torchtree.evolution import tree_model as TM
    found, count = [], 0

    def same(a, b):
        return a.shape == b.shape and a.dtype == b.dtype and torch.allclose(a, b, rtol=1e-12, atol=0, equal_nan=True)

    def attempt(name, spec_fn, check_fn):
        nonlocal count
        count += 1
        try:
            spec = spec_fn()
            dic = {}
            objs = [process_objects(s, dic) for s in spec]
            bad = check_fn(objs, dic)
        except Exception as e:      # noqa
            bad = f"{type(e).__name__}: {str(e)[:160]}"
            spec = None
        if bad:
            found.append((f"C13:json_factory:{name}", f"{name}: {bad}", dict(factory=name, spec=spec)))

    for _ in range(n_rounds):
        vals = [rng.randrange(1, 40) / 8.0 for _ in range(rng.randint(1, 4))]
        t = torch.tensor(vals)
        # --- parameter.py
        attempt("Parameter.json_factory(tensor)", lambda: [Parameter.json_factory("a", tensor=vals)],
                lambda o, d: None if same(o[0].tensor, Parameter("a", t).tensor) and o[0].id == "a" else "tensor differs")
        sz = [rng.randint(1, 3), rng.randint(1, 3)]
        v = rng.randrange(1, 40) / 8.0
        attempt("Parameter.json_factory(full)", lambda: [Parameter.json_factory("a", full=sz, tensor=v)],
                lambda o, d: None if same(o[0].tensor, torch.full(sz, v)) else "tensor differs")
        attempt("Parameter.json_factory(zeros)", lambda: [Parameter.json_factory("a", zeros=sz)],
                lambda o, d: None if same(o[0].tensor, torch.zeros(sz)) else "tensor differs")
        attempt("Parameter.json_factory(ones)", lambda: [Parameter.json_factory("a", ones=sz)],
                lambda o, d: None if same(o[0].tensor, torch.ones(sz)) else "tensor differs")
        attempt("Parameter.json_factory(eye)", lambda: [Parameter.json_factory("a", eye=sz[0])],
                lambda o, d: None if same(o[0].tensor, torch.eye(sz[0])) else "tensor differs")
        base = Parameter.json_factory("b", tensor=vals)
        attempt("Parameter.json_factory(full_like)",
                lambda: [base, Parameter.json_factory("a", full_like="b", tensor=v)],
                lambda o, d: None if same(o[1].tensor, torch.full_like(t, v)) else "tensor differs")
        attempt("Parameter.json_factory(zeros_like)",
                lambda: [Parameter.json_factory("a", zeros_like=copy.deepcopy(base))],
                lambda o, d: None if same(o[0].tensor, torch.zeros_like(t)) and d["b"] is not None else "tensor differs")
        attempt("Parameter.json_factory(ones_like)",
                lambda: [base, Parameter.json_factory("a", ones_like="b")],
                lambda o, d: None if same(o[1].tensor, torch.ones_like(t)) else "tensor differs")
        attempt("Parameter.json_factory(eye_like)",
                lambda: [Parameter.json_factory("m", zeros=sz), Parameter.json_factory("a", eye_like="m")],
                lambda o, d: None if same(o[1].tensor, torch.eye(*sz)) else "tensor differs")
        attempt("Parameter.json_factory(dtype)",
                lambda: [Parameter.json_factory("a", tensor=vals, dtype="torch.float32")],
                lambda o, d: None if same(o[0].tensor, torch.tensor(vals, dtype=torch.float32)) else "tensor differs")
        idx = rng.choice(["0:1", ":", "0:2", 0])
        pyidx = {"0:1": slice(0, 1), ":": slice(None, None), "0:2": slice(0, 2), 0: 0}[idx]

        def chk_view(o, d):
            direct = ViewParameter("v", Parameter("b", t.clone()), pyidx)
            if not same(o[1].tensor, direct.tensor):
                return "view tensor differs"
            if o[1].parameter is not d["b"]:
                return "the view does not hold the registered parameter"
            d["b"].tensor = t * 2
            return None if same(o[1].tensor, (t * 2)[..., pyidx]) else "update of the parameter not seen by the view"
        attempt("ViewParameter.json_factory", lambda: [base, ViewParameter.json_factory("v", "b", idx)], chk_view)
        attempt("ViewParameter.json_factory(inline)",
                lambda: [ViewParameter.json_factory("v", copy.deepcopy(base), idx)],
                lambda o, d: None if same(o[0].tensor, t[..., pyidx]) and o[0].parameter is d["b"] else "differs")
        # --- distributions.py
        loc, scale = rng.randrange(-8, 8) / 4.0, rng.randrange(1, 16) / 4.0
        name, pars, tdist = rng.choice([
            ("torch.distributions.Normal", {"loc": loc, "scale": scale}, torch.distributions.Normal),
            ("torch.distributions.LogNormal", {"loc": loc, "scale": scale}, torch.distributions.LogNormal),
            ("torch.distributions.Gamma", {"concentration": scale, "rate": scale + 0.5}, torch.distributions.Gamma),
            ("torch.distributions.Exponential", {"rate": scale}, torch.distributions.Exponential)])
        style = rng.choice(["numbers", "inline", "refs"])
        keys = list(pars)

        def dist_spec():
            if style == "numbers":
                return [Distribution.json_factory("d", name, copy.deepcopy(base), dict(pars))]
            if style == "inline":
                return [Distribution.json_factory("d", name, copy.deepcopy(base),
                                                  {k: Parameter.json_factory("par." + k, tensor=[pars[k]]) for k in keys})]
            return [base] + [Parameter.json_factory("par." + k, tensor=[pars[k]]) for k in keys] + \
                   [Distribution.json_factory("d", name, "b", {k: "par." + k for k in keys})]

        def chk_dist(o, d):
            direct = Distribution("d", tdist, Parameter("b", t.clone()),
                                  {k: Parameter(None, torch.tensor([pars[k]])) for k in keys})
            got, want = d["d"](), direct()
            if not torch.allclose(got, want, rtol=1e-12, atol=0):
                return f"log density {got.tolist()} vs directly constructed {want.tolist()}"
            if d["d"].x is not d["b"]:
                return "x is not the registered parameter"
            if style != "numbers" and any(d["d"].dict_parameters[k] is not d["par." + k] for k in keys):
                return "a distribution parameter is not the registered instance"
            return None
        attempt(f"Distribution.json_factory({style})", dist_spec, chk_dist)
        attempt("Distribution.json_factory(no parameters)",
                lambda: [Distribution.json_factory("d", "torch.distributions.Normal", copy.deepcopy(base))],
                lambda o, d: None if d["d"].dict_parameters == {} and d["d"].x is d["b"] else "differs")
        # --- tree_model.py
        ntax = rng.randint(3, 5)
        names = [f"T{k}" for k in range(ntax)]
        nw = f"({names[0]}:0.1,{names[1]}:0.2)"
        for x in names[2:]:
            nw = f"({nw}:0.15,{x}:0.3)"
        nw += ";"
        bl = [rng.randrange(1, 40) / 16.0 for _ in range(2 * ntax - 3)]
        taxa_arg = rng.choice(["dict", "list", "ref"])

        def taxa_json(dates=None):
            if taxa_arg == "dict":
                return {n: (dates[i] if dates else 0.0) for i, n in enumerate(names)}
            lst = [{"id": n, "type": "Taxon", "attributes": {"date": dates[i] if dates else 0.0}}
                   for i, n in enumerate(names)]
            return lst

        def with_taxa(mk, dates=None):
            if taxa_arg == "ref":
                return [{"id": "taxa", "type": "Taxa", "taxa": taxa_json(dates) if taxa_arg != "dict" else None},
                        mk("taxa")]
            return [mk(taxa_json(dates))]

        def direct_taxa(dates=None):
            return Taxa("taxa", [Taxon(n, {"date": dates[i] if dates else 0.0}) for i, n in enumerate(names)])

        def chk_unrooted(o, d):
            tm = d["tree"]
            taxa = direct_taxa()
            direct = TM.UnRootedTreeModel("tree", TM.parse_tree(taxa, {"newick": nw}), taxa,
                                          Parameter("bl", torch.tensor(bl)))
            if not same(tm.branch_lengths(), direct.branch_lengths()):
                return "branch lengths differ"
            if tm.taxa != direct.taxa or tm.postorder != direct.postorder:
                return "taxa / traversal differ"
            if tm._branch_lengths is not d[tm._branch_lengths.id] or tm._taxa is not d["taxa"]:
                return "tree model does not hold the registered instances"
            return None
        bl_arg = rng.choice(["list", "dict", "ref"])

        def unrooted_spec():
            pre = []
            b = bl
            if bl_arg == "dict":
                b = Parameter.json_factory("bl", tensor=bl)
            elif bl_arg == "ref":
                pre = [Parameter.json_factory("bl", tensor=bl)]
                b = "bl"
            return pre + with_taxa(lambda tx: TM.UnRootedTreeModel.json_factory("tree", nw, b, tx))
        attempt(f"UnRootedTreeModel.json_factory(taxa={taxa_arg},branch_lengths={bl_arg})", unrooted_spec, chk_unrooted)

        # the same factory with the option keep_branch_lengths given explicitly as a false value and a newick string
        # that carries (other) lengths: the supplied branch lengths are the ones in force
        falsy = rng.choice([False, 0, None])
        nw_len = nw        # the newick string of these round trips already carries lengths

        def unrooted_spec_falsy():
            return with_taxa(lambda tx: TM.UnRootedTreeModel.json_factory("tree", nw_len, bl, tx,
                                                                          keep_branch_lengths=falsy))

        def chk_unrooted_falsy(o, d):
            got = d["tree"].branch_lengths()
            if not same(got, torch.tensor(bl)):
                return (f"keep_branch_lengths={falsy!r}: branch lengths {got.tolist()} instead of the supplied "
                        f"{bl} (newick {nw_len})")
            return None
        attempt(f"UnRootedTreeModel.json_factory(keep_branch_lengths={falsy!r})", unrooted_spec_falsy, chk_unrooted_falsy)

        dates = [float(rng.randint(0, 2)) for _ in names]
        dates[rng.randrange(ntax)] = 0.0
        hs, top = [], max(dates)
        for _ in range(ntax - 1):
            top += rng.randrange(1, 16) / 8.0
            hs.append(top)

        def chk_time(o, d):
            tm = d["tree"]
            taxa = direct_taxa(dates)
            tree = TM.parse_tree(taxa, {"newick": nw})
            TM.initialize_dates_from_taxa(tree, taxa)
            direct = TM.TimeTreeModel("tree", tree, taxa, Parameter("h", torch.tensor(hs)))
            if not same(tm.node_heights, direct.node_heights):
                return f"node heights {tm.node_heights.tolist()} vs {direct.node_heights.tolist()}"
            if not same(tm.branch_lengths(), direct.branch_lengths()):
                return "branch lengths differ"
            return None
        attempt(f"TimeTreeModel.json_factory(taxa={taxa_arg})",
                lambda: with_taxa(lambda tx: TM.TimeTreeModel.json_factory("tree", nw, hs, tx,
                                                                           internal_heights_id="h"), dates),
                chk_time)

        ratios = [rng.randrange(1, 8) / 8.0 for _ in range(ntax - 2)]
        root = [max(dates) + rng.randrange(1, 32) / 8.0]
        shifts = [rng.randrange(1, 16) / 8.0 for _ in range(ntax - 1)]
        mode = rng.choice(["ratios", "shifts"])

        def chk_reparam(o, d):
            tm = d["tree"]
            taxa = direct_taxa(dates)
            tree = TM.parse_tree(taxa, {"newick": nw})
            TM.initialize_dates_from_taxa(tree, taxa)
            if mode == "ratios":
                from torchtree.core.parameter import CatParameter
                direct = TM.ReparameterizedTimeTreeModel(
                    "tree", tree, taxa,
                    CatParameter(None, [Parameter("r", torch.tensor(ratios)), Parameter("rh", torch.tensor(root))], dim=-1))
            else:
                direct = TM.ReparameterizedTimeTreeModel("tree", tree, taxa, shifts=Parameter("s", torch.tensor(shifts)))
            if type(tm.transform) is not type(direct.transform):
                return f"transform {type(tm.transform).__name__} vs {type(direct.transform).__name__}"
            if not same(tm.node_heights, direct.node_heights):
                return f"node heights {tm.node_heights.tolist()} vs {direct.node_heights.tolist()}"
            return None
        attempt(f"ReparameterizedTimeTreeModel.json_factory({mode},taxa={taxa_arg})",
                lambda: with_taxa(lambda tx: TM.ReparameterizedTimeTreeModel.json_factory(
                    "tree", nw, tx, **(dict(ratios=ratios, root_height=root) if mode == "ratios" else dict(shifts=shifts))),
                    dates),
                chk_reparam)
        # --- branch_model.py, ctmc_scale.py
        rate = [rng.randrange(1, 16) / 64.0]

        def chk_clock(o, d):
            taxa = direct_taxa()
            tree = TM.UnRootedTreeModel("tree", TM.parse_tree(taxa, {"newick": nw}), taxa, Parameter("bl", torch.tensor(bl)))
            direct = SimpleClockModel("clock", Parameter("rate", torch.tensor(rate)), tree)
            if not same(d["clock"].rates, direct.rates):
                return "rates differ"
            if d["clock"].tree is not d["tree"] or d["clock"]._rates is not d["rate"]:
                return "clock does not hold the registered instances"
            return None
        tree_json = TM.UnRootedTreeModel.json_factory("tree", nw, bl, taxa_json())
        how = rng.choice(["inline", "ref"])
        attempt(f"SimpleClockModel.json_factory({how})",
                lambda: ([copy.deepcopy(tree_json), Parameter.json_factory("rate", tensor=rate),
                          SimpleClockModel.json_factory("clock", "tree", "rate")] if how == "ref" else
                         [SimpleClockModel.json_factory("clock", copy.deepcopy(tree_json),
                                                        Parameter.json_factory("rate", tensor=rate))]),
                chk_clock)

        def chk_ctmc(o, d):
            taxa = direct_taxa()
            tree = TM.UnRootedTreeModel("tree", TM.parse_tree(taxa, {"newick": nw}), taxa, Parameter("bl", torch.tensor(bl)))
            direct = CTMCScale("ctmc", Parameter("rate", torch.tensor(rate)), tree)
            got, want = d["ctmc"](), direct()
            if not torch.allclose(got, want, rtol=1e-12, atol=0):
                return f"value {got.tolist()} vs directly constructed {want.tolist()}"
            if d["ctmc"].tree_model is not d["tree"] or d["ctmc"].x is not d["rate"]:
                return "prior does not hold the registered instances"
            return None
        attempt(f"CTMCScale.json_factory({how})",
                lambda: ([copy.deepcopy(tree_json), Parameter.json_factory("rate", tensor=rate),
                          CTMCScale.json_factory("ctmc", "rate", "tree")] if how == "ref" else
                         [CTMCScale.json_factory("ctmc", Parameter.json_factory("rate", tensor=rate),
                                                 copy.deepcopy(tree_json))]),
                chk_ctmc)
    return count, found


# ----------------------------------------------------------------------------------- run

def static_checks(aliases):
    """the two tables the model takes from outside, checked against the running implementation"""
    torch = impl.load()
    from torchtree.core.utils import get_class
    found = []
    for name, want in TORCH_SIGS.items():
        got = list(inspect.signature(get_class(name).__init__).parameters)[1:]
        if got != want:
            found.append(("C13:harness:torch-signature-table", f"{name}: installed torch has {got}, model table {want}",
                          dict(name=name)))
    for a, c in aliases:
        try:
            k = get_class(a).__name__
        except Exception as e:      # noqa
            k = f"{type(e).__name__}"
        if k != c:
            found.append(("C13:get_class:alias-table", f"type string {a}: get_class gives {k}, translator {c}",
                          dict(alias=a)))
    return found


def model_tag(m):
    if m["kind"] == "parse":
        return "parse-error:" + m["root"][0]
    return m["kind"]


def same_outcome(m, o, detail):
    """model outcome vs implementation outcome (status and, for errors, root cause and chain)"""
    if m["kind"] != o["kind"]:
        return False
    if m["kind"] == "parse" and detail:
        return m["root"] == o["root"] and m["chain"] == o["chain"]
    return True


def run(tier, seed, replay=None):
    rep = C.Report(PID, tier, seed)
    rep.trusted = C.COMMON_TRUSTED + [
        "hand-written loader model model/M_loader.v (JSON terms, remove_comments, expand_plates, process_object(s), "
        "from_json_safe, per-class schema table class_steps / torch_sig) tied by outcome correspondence with the "
        "real torchtree.torchtree.main on random specification programs",
        "translator harness/translate/t_classes.py (python ast, fail-closed) for the type-string table",
        "harness accessor table (which attribute of a holder keeps which slot) and the process_object tracer",
        "ids containing `{' (range references such as branches.{0:3}), non-string ids, Runnable objects and "
        "checkpoints are outside the model and never generated",
        "floats in specifications are multiples of 1/1000 (the loader never inspects them except for truthiness)"]
    rep.assumptions = ["a class's from_json decides what to process from its data alone (not from the registry)"]
    t0 = time.time()
    ok_sync, info = sync()
    aliases = info if ok_sync else None
    if not ok_sync:
        try:
            aliases = [(c, c) for c in t_classes.MODELLED]
        except Exception:      # noqa
            aliases = []
    impl.load()
    work = os.path.join(C.WORKROOT, PID)
    os.makedirs(work, exist_ok=True)
    spec_path = os.path.join(work, "spec.json")

    ncases = 800 if tier == "quick" else 12000
    if replay:
        r = json.load(open(replay))["replay"]
        cases = [dict(i=0, spec=r["spec"], plain=r.get("plain"), faults=["replay"], features=["replay"])]
    else:
        cases = [gen_case(seed, i, aliases) for i in range(ncases)]
    rep.timings["generate"] = round(time.time() - t0, 2)

    # ---- implementation: the real main on every specification (with and without its comments)
    t0 = time.time()
    from torchtree.core.utils import remove_comments, expand_plates, JSONParseError
    outs, plain_outs, py_prep = [], [], []
    for c in cases:
        outs.append(run_main(c["spec"], spec_path))
        plain_outs.append(run_main(c["plain"], spec_path) if c.get("plain") is not None else None)
        r = copy.deepcopy(c["spec"])
        remove_comments(r)
        fp_rc = fp_json(r)
        try:
            expand_plates(r)
            prep = (fp_rc, (1, fp_json(r)))
        except JSONParseError:
            prep = (fp_rc, (2, 0))
        except Exception:      # noqa
            prep = (fp_rc, (3, 0))
        py_prep.append(prep)
    rep.timings["impl"] = round(time.time() - t0, 2)

    direct = {}
    for c, o, op in zip(cases, outs, plain_outs):
        for f in direct_checks(c, o, op):
            direct.setdefault(f[0], f)
    rng = random.Random(seed + 1)
    t0 = time.time()
    n_factory, ffound = factory_roundtrips(rng, 12 if tier == "quick" else 100)
    for f in ffound:
        direct.setdefault(f[0], f)
    n_range, rfound = range_reference_check(random.Random(seed + 2))
    for f in rfound:
        direct.setdefault(f[0], f)
    n_selfreg, sfound = self_registration_check(random.Random(seed + 3))
    for f in sfound:
        direct.setdefault(f[0], f)
    n_eager, efound = eager_listener_check(random.Random(seed + 4))
    for f in efound:
        direct.setdefault(f[0], f)
    for f in static_checks(aliases):
        direct.setdefault(f[0], f)
    rep.timings["factory_roundtrips"] = round(time.time() - t0, 2)

    def search():
        return list(direct.values())

    if not ok_sync:
        rep.proof = dict(obligations=1, discharged=0, axioms={}, theorems=["T-classes translation"], ok=False)
        fs = search()
        for f in fs:
            rep.violation(*f)
        if not fs:
            rep.violation("C13:translator-failed", info, dict(error=info), False)
        proved = False
    else:
        proved = C.handle_proof(rep, PID, search)
    for f in search():
        rep.violation(*f)

    # ---- correspondence: the model evaluated by vm_compute on the same specifications
    t0 = time.time()
    res = None
    try:
        # one set of interned strings per shard
        nshard = max(8, len(cases) // 16 + 1)
        res = []
        jobs, tables = [], []
        for k in range(0, len(cases), nshard):
            S = Interner()
            for w in list(t_classes.MODELLED) + SLOT_NAMES:
                S(w)
            exprs = [coq_case(c, S) for c in cases[k:k + nshard]]
            jobs.append((HEADER + S.header(), exprs))
            tables += [S.table()] * len(exprs)
        import concurrent.futures as cf
        with cf.ThreadPoolExecutor(max_workers=16) as ex:
            parts = list(ex.map(lambda a: C.run_cases(f"{PID}_s{a[0]:02d}", a[1][0], a[1][1], shard=100000, rtype="Z"),
                                enumerate(jobs)))
        for part in parts:
            res.extend(part)
    except (RuntimeError, AssertionError, TypeError) as e:
        res = None
        if proved:
            rep.violation("C13:model-eval-failed", str(e)[:300], dict(error=str(e)[-2000:]), False)
    rep.timings["model_eval"] = round(time.time() - t0, 2)

    dist, undefined = {}, 0
    stats = dict(updates=0, observations=0, evaluations=0, not_evaluable=0, graphs_compared=0,
                 detail_compared=0, rc_compared=0, expand_compared=0)
    urng = random.Random(seed + 2)
    for ci, c in enumerate(cases if res is not None else []):
        o = outs[ci]
        m_true, m_false, fp_rc, fp_exp = decode_case(res[ci], tables[ci])
        tag = model_tag(m_true)
        dist[tag] = dist.get(tag, 0) + 1
        rep.case(c["spec"], nontrivial=len(o["events"]) >= 3,
                 sample=dict(spec=json.dumps(c["spec"])[:400], faults=c["faults"], model=tag, implementation=o["kind"]))
        stats["rc_compared"] += 1
        if fp_rc != py_prep[ci][0]:
            rep.violation("C13:remove_comments:model-impl-differ",
                          "remove_comments: the model's result differs from the implementation's",
                          dict(spec=c["spec"]))
            continue
        stats["expand_compared"] += 1
        if fp_exp != py_prep[ci][1] and not (fp_exp[0] == 3 and m_true["kind"] == "fuel"):
            rep.violation("C13:expand_plates:model-impl-differ",
                          f"expand_plates: model gives {fp_exp}, implementation {py_prep[ci][1]} "
                          f"(1 = expanded document with this fingerprint, 2 = parse error, 3 = other exception)",
                          dict(spec=c["spec"]))
            continue
        if m_true["kind"] == "fuel" or m_false["kind"] == "fuel":
            undefined += 1
            continue
        recheck_fired = (m_true != m_false)
        detail = not recheck_fired
        stats["detail_compared"] += detail
        agrees = same_outcome(m_true, o, detail)
        model_for_graph = m_true
        if not agrees:
            if recheck_fired and same_outcome(m_false, o, True) and m_true["kind"] == "parse" and \
                    m_true["root"][0] == "dup":
                # the code as it stands: membership test before construction only
                rep.violation(K_NESTED,
                              f"id `{m_true['root'][1]}' is defined again inside its own definition: the corrected "
                              f"loader raises a parse error, the implementation behaves like the unchecked model "
                              f"({o['kind']})", dict(spec=c["spec"]))
                model_for_graph = m_false
            else:
                what = (f"model: {m_true['kind']} {m_true.get('root', '')} chain {m_true.get('chain', '')}; "
                        f"implementation: {o['kind']} {o.get('root', o.get('exc', ''))} chain {o.get('chain', '')}; "
                        f"faults injected: {c['faults']}")
                rep.violation(f"C13:outcome:model={model_tag(m_true)}:impl="
                              f"{'parse-error:' + o['root'][0] if o['kind'] == 'parse' else o['kind']}",
                              what, dict(spec=c["spec"]))
                continue
        if o["kind"] == "ok" and model_for_graph["kind"] == "ok":
            try:
                bad, M = compare_graph(model_for_graph, o["dic"])
            except Exception as e:      # noqa
                bad, M = ("C13:graph:accessor-failed", f"{type(e).__name__}: {str(e)[:200]}"), {}
            stats["graphs_compared"] += 1
            if bad:
                rep.violation(bad[0], bad[1], dict(spec=c["spec"]))
                continue
            try:
                bad = update_checks(model_for_graph, M, urng, stats)
            except Exception as e:      # noqa
                bad = ("C13:update:check-failed", f"{type(e).__name__}: {str(e)[:200]}")
            if bad:
                rep.violation(bad[0], bad[1], dict(spec=c["spec"]))

    feats = {}
    for c in cases:
        for f in c["features"] + ["fault:" + x for x in c["faults"]]:
            feats[f] = feats.get(f, 0) + 1
    impl_kinds = {}
    for o in outs:
        k = o["kind"] + (":" + o["root"][0] if o["kind"] == "parse" else "")
        impl_kinds[k] = impl_kinds.get(k, 0) + 1
    rep.rule = ("random specification programs: 2-7 top-level elements, objects nested up to depth 4 over 18 registered "
                "classes (each slot a reference to an earlier id or an inline definition, random type-string alias, "
                "random key order), then 0-2 faults (duplicate id between siblings / nested inside its own definition, "
                "dangling / forward / self reference, missing id / type / key, unknown type, non-object), plates, and "
                "comments (underscore keys, ignored objects in lists and as values, falsy ignore flags); every "
                "specification is run through the real main twice (with / without comments); non-trivial = at least 3 "
                "process_object calls; distinct = distinct specifications")
    rep.extra = dict(input_distribution=dict(model_outcome=dist, implementation_outcome=impl_kinds, features=feats),
                     traces_validated_against_impl=len(cases) if res is not None else 0,
                     model_undefined=undefined, json_factory_roundtrips=n_factory, checks=stats,
                     translator_units=["register_class / get_class / @register_class / package re-exports -> "
                                       "gen/G_classes.v"])
    return rep.finish()
