"""C06 — node-height parameterisations.  M_height.v run exactly (NumQ) vs ReparameterizedTimeTreeModel."""
import json
import math
import os
import random
import time
from fractions import Fraction

from harness import common as C
from harness import history as H
from harness import impl, trees
from harness.translate import t_kind

PID = "C06"
HEADER = ("From Coq Require Import QArith ZArith List. Import ListNotations.\n"
          "From TT Require Import Num NumQ Tree M_height.\n")


def sync():
    try:
        txt = t_kind.translate()
    except t_kind.TranslateError as e:
        return False, f"T-kind translator: {e}"
    with C.CoqLock():
        C.write_if_changed(os.path.join(C.COQ, "gen", "G_kind.v"), txt)
    return True, txt


def gen_dates(rng, n):
    mode = rng.choice(["iso", "ages", "ages_ties", "calendar", "calendar_ties", "whole_ages", "whole_years"])
    if mode == "whole_ages":       # whole numbers (the specification may then write them as integers)
        d = [float(rng.randint(0, 4)) for _ in range(n)]
        d[rng.randrange(n)] = 0.0
        return mode, d
    if mode == "whole_years":
        return mode, [float(rng.randint(2005, 2012)) for _ in range(n)]
    if mode == "iso":
        return mode, [0.0] * n
    if mode.startswith("ages"):
        pool = [0.0] + [round(rng.uniform(0, 5), rng.choice([0, 1, 3])) for _ in range(3 if "ties" in mode else n)]
        d = [rng.choice(pool) for _ in range(n)]
        d[rng.randrange(n)] = 0.0
        return mode, d
    pool = [round(rng.uniform(1990, 2020), rng.choice([0, 1, 2])) for _ in range(3 if "ties" in mode else n)]
    return mode, [rng.choice(pool) for _ in range(n)]


def leaf_heights(dates):
    mx = max(dates)
    return list(dates) if min(dates) == 0.0 else [mx - d for d in dates]


def gen_case(rng, i, tier, exhaustive_pool):
    if exhaustive_pool and i < len(exhaustive_pool):
        t = exhaustive_pool[i]
        t = trees.swap_children(rng, t)
        n = trees.n_leaves(t)
    else:
        n = rng.choice([2, 3, 4, 5, 6, 7, 8, 10, 14, 20, 30] if tier == "thorough" else [2, 3, 4, 5, 6, 8, 12])
        t = trees.random_tree(rng, n, rng.choice(["random", "random", "caterpillar", "balanced"]))
    mode, dates = gen_dates(rng, n)
    kind = rng.choice(["ratio", "ratio", "shift"])
    B = rng.choice([None, None, 2, 3])
    rows = B or 1
    oldest = max(leaf_heights(dates))
    if kind == "ratio":
        x = [[round(rng.uniform(0.05, 0.95), rng.choice([2, 6, 16])) for _ in range(n - 2)]
             + [oldest + math.exp(rng.uniform(-3, 3))] for _ in range(rows)]
    else:
        x = [[math.exp(rng.uniform(-4, 2)) for _ in range(n - 1)] for _ in range(rows)]
    # the edge of the (open) parameter domain: a parent a hair above the bound of its child, a child a hair below its
    # parent, a whole tree on a tiny time scale — all legal, all far from the values drawn above
    edge = None
    if rng.random() < 0.2:
        edge = rng.choice(["ratio-near-one", "ratio-tiny", "root-just-above", "micro-scale"])
        tiny = rng.choice([2.0 ** -24, 2.0 ** -26, 2.0 ** -21])
        for r in x:
            if kind == "ratio":
                if edge == "ratio-near-one" and n > 2:
                    r[rng.randrange(n - 2)] = 1.0 - tiny
                elif edge == "ratio-tiny" and n > 2:
                    r[rng.randrange(n - 2)] = tiny
                elif edge == "root-just-above":
                    r[-1] = oldest + tiny * max(1.0, oldest)
                elif edge == "micro-scale" and oldest == 0.0:
                    r[-1] = 2.0 ** -22
            else:
                if edge == "micro-scale":
                    r[:] = [v * 2.0 ** -22 for v in r]
                else:
                    r[rng.randrange(n - 1)] = tiny
    ops = [rng.choice(["cpu", "to"]) for _ in range(rng.choice([0, 0, 1, 2, 3]))]
    # the increments may be written as several parameters joined by a CatParameter (inner nodes + root)
    cat = kind == "shift" and n >= 3 and rng.random() < 0.4
    # whole-number dates written as INTEGERS in the specification ("date": 2012, "date": 0)
    int_dates = all(float(d).is_integer() for d in dates) and rng.random() < 0.6
    return dict(tree=t, n=n, dates=dates, date_mode=mode, kind=kind, B=B, x=x, ops=ops, cat=cat, int_dates=int_dates,
                edge=edge)


def build(case):
    torch = impl.load()
    from torchtree.evolution.tree_model import ReparameterizedTimeTreeModel
    n = case["n"]
    names = [f"t{i}" for i in range(n)]
    taxa = {"id": "taxa", "type": "Taxa", "taxa": [
        {"id": names[i], "type": "Taxon", "attributes": {"date": int(case["dates"][i]) if case.get("int_dates")
                                                          else case["dates"][i]}} for i in range(n)]}
    d = {"id": "tree", "type": "ReparameterizedTimeTreeModel", "newick": trees.newick(case["tree"], names),
         "taxa": taxa}
    x = case["x"]
    B = case["B"]
    if case["kind"] == "ratio":
        d["ratios"] = impl.param_json("ratios", [r[:-1] for r in x] if B else x[0][:-1])
        d["root_height"] = impl.param_json("root_height", [r[-1:] for r in x] if B else x[0][-1:])
    elif case.get("cat"):
        d["shifts"] = {"id": "shifts", "type": "CatParameter", "dim": -1, "parameters": [
            impl.param_json("shifts.inner", [r[:-1] for r in x] if B else x[0][:-1]),
            impl.param_json("shifts.root", [r[-1:] for r in x] if B else x[0][-1:])]}
    else:
        d["shifts"] = impl.param_json("shifts", x if B else x[0])
    return H.tracked(ReparameterizedTimeTreeModel, d)


def run_impl(case):
    torch = impl.load()
    tm = build(case)
    kind0 = type(tm.transform).__name__
    for op in case["ops"]:
        if op == "cpu":
            tm.cpu()
        else:
            tm.to(torch.float64)
    kind1 = type(tm.transform).__name__
    B = case["B"]
    xt = torch.tensor(case["x"] if B else case["x"][0])
    nh = tm.node_heights.detach()
    bl = tm.branch_lengths().detach()
    y = tm.transform(xt).detach()
    xinv = tm.transform.inv(y).detach()
    rows = lambda t: [[float(v) for v in r] for r in (t if B else t.unsqueeze(0))]
    return dict(kind0=kind0, kind1=kind1, nh=rows(nh), bl=rows(bl), y=rows(y), xinv=rows(xinv),
                st=[float(v) for v in tm.sampling_times])


def coq_case(case, out, row):
    n = case["n"]
    some = lambda v: f"sq {C.qlit(v)}"
    X = C.coq_list(case["x"][row], some)
    Y = C.coq_list(out["y"][row], some)
    head = (f"let t := index_tree {trees.coq_tree(case['tree'])} in "
            f"let times := map sq (leaf_heights {C.qlist(case['dates'])}) in ")
    if case["kind"] == "ratio":
        return (head + f"let ht := ratio_fwd NumQ {C.natlit(n)} times {X} None t in "
                f"concat (map show_q (node_heights ht ++ branch_lengths NumQ ht ++ "
                f"internal_by_index (ratio_inv NumQ times None t (hfill NumQ {C.natlit(n)} times {Y} t))))")
    return (head + f"let ht := diff_fwd NumQ {C.natlit(n)} times {X} t in "
            f"concat (map show_q (node_heights ht ++ branch_lengths NumQ ht ++ "
            f"internal_by_index (diff_inv NumQ (hfill NumQ {C.natlit(n)} times {Y} t))))")


def near(a, b, rtol=1e-9, atol=1e-12):
    if not (math.isfinite(a) and math.isfinite(b)):
        return False
    return abs(Fraction(a) - Fraction(b)) <= Fraction(rtol) * max(abs(Fraction(a)), abs(Fraction(b))) + Fraction(atol)


def ratio_roundtrip_tolerance(case, nh, base=1e-7):
    """Recovering a ratio divides by (parent height - bound of the child).  -> the relative tolerance the round trip can
    be held to on these heights (a conditioning fact: 64 ulps of the largest height over the smallest such difference),
    or None when two heights have collided in double precision (the forward map lost the parameter: nothing to recover)."""
    n = case["n"]
    it = trees.index_tree(case["tree"])
    lh = leaf_heights(case["dates"])
    bound = {}

    def bnd(u):
        if isinstance(u, int):
            bound[u] = lh[u]
            return lh[u]
        b = max(bnd(u[1]), bnd(u[2]))
        bound[u[0]] = b
        return b
    bnd(it)
    gaps = [nh[p] - bound[c] for p, c in trees.edges(it) if c >= n]
    if any(g <= 0 for g in gaps):
        return None
    if not gaps:
        return base
    return max(base, 64 * 2.3e-16 * max(abs(v) for v in nh) / min(gaps))


def property_on_impl(case, out):
    n = case["n"]
    it = trees.index_tree(case["tree"])
    want_kind = "GeneralNodeHeightTransform" if case["kind"] == "ratio" else "DifferenceNodeHeightTransform"
    if out["kind0"] != want_kind:
        return "kind", f"specification asks for {case['kind']} but {out['kind0']} is installed"
    if out["kind1"] != out["kind0"]:
        return "kind-changed", f"after {case['ops']} the transform changed from {out['kind0']} to {out['kind1']}"
    lh = leaf_heights(case["dates"])
    for r, nh in enumerate(out["nh"]):
        if len(nh) != 2 * n - 1:
            return "shape", f"node_heights has {len(nh)} entries"
        for i in range(n):
            if not near(nh[i], lh[i]):
                return "tip", f"row {r}: tip {i} at {nh[i]!r}, sampling time {lh[i]!r}"
        bl = out["bl"][r]
        for p, c in trees.edges(it):
            if not nh[p] >= nh[c] - 1e-12:
                return "order", f"row {r}: parent {p} ({nh[p]!r}) younger than child {c} ({nh[c]!r})"
            if not near(bl[c], nh[p] - nh[c], 1e-9, 1e-10):
                return "branch", f"row {r}: branch {c} = {bl[c]!r} but parent-child = {nh[p] - nh[c]!r}"
        rt = 1e-7
        if case["kind"] == "ratio":
            rt = ratio_roundtrip_tolerance(case, nh)
            if rt is None:
                continue        # heights collided in double precision: the parameters cannot be recovered from them
        for k, (a, b) in enumerate(zip(out["xinv"][r], case["x"][r])):
            if not near(a, b, rt, 1e-9):
                return "roundtrip", f"row {r}: inv(fwd(x))[{k}] = {a!r} but x = {b!r}"
    return None


def run(tier, seed, replay=None):
    rep = C.Report(PID, tier, seed)
    rep.trusted = C.COMMON_TRUSTED + [
        "hand-written model model/M_height.v + base/Tree.v (index_tree, bounds, ratio/increment transforms, "
        "leaf heights, branch lengths) tied by exact-rational correspondence",
        "translator harness/translate/t_kind.py for cpu()/cuda()/to() effects (cuda cannot be executed here: "
        "covered by the translator + theorem only)",
        "dendropy Newick parsing and torch indexing are modelled, not verified"]
    rng = random.Random(seed)
    pool = []
    if tier == "thorough":
        for n in (3, 4, 5, 6):
            pool += list(trees.all_trees(range(n)))
    else:
        for n in (3, 4):
            pool += list(trees.all_trees(range(n)))
    ncases = (len(pool) + 120) if tier == "quick" else (len(pool) + 700)
    cases = [gen_case(rng, i, tier, pool) for i in range(ncases)]
    if replay:
        cases = [json.load(open(replay))["replay"]["case"]]
        cases[0]["tree"] = _tuplify(cases[0]["tree"])
    t0 = time.time()
    outs = []
    for c in cases:
        try:
            outs.append(run_impl(c))
        except Exception as e:
            outs.append(e)
    rep.timings["impl"] = round(time.time() - t0, 2)

    def search():
        found = {}
        for c, o in zip(cases, outs):
            if isinstance(o, Exception):
                f = (f"C06:raises:{c['kind']}:batched={c['B'] is not None}:{type(o).__name__}",
                     f"{type(o).__name__}: {str(o)[:200]}", dict(case=c))
            else:
                bad = property_on_impl(c, o)
                if not bad:
                    continue
                f = (f"C06:{bad[0]}:{c['kind']}:batched={c['B'] is not None}", bad[1], dict(case=c))
            found.setdefault(f[0], f)
        return list(found.values())

    ok_sync, info = sync()
    if not ok_sync:
        rep.proof = dict(obligations=1, discharged=0, axioms={}, theorems=["T-kind translation"], ok=False)
        fs = search()
        for f in fs:
            rep.violation(*f)
        if not fs:
            rep.violation("C06:translator-failed", info, dict(error=info), False)
    else:
        C.handle_proof(rep, PID, search)
    for f in search():
        rep.violation(*f)

    t0 = time.time()
    exprs, index = [], []
    for ci, (c, o) in enumerate(zip(cases, outs)):
        if isinstance(o, Exception):
            continue
        for r in range(c["B"] or 1):
            exprs.append(coq_case(c, o, r))
            index.append((ci, r))
    res = C.run_cases(PID, HEADER, exprs, shard=max(8, len(exprs) // 16 + 1))
    rep.timings["model_eval"] = round(time.time() - t0, 2)
    dist = {}
    undefined = 0
    for (ci, r), flat in zip(index, res):
        c, o = cases[ci], outs[ci]
        key = f"{c['kind']}{'(cat)' if c.get('cat') else ''}/{c['date_mode']}{'(int)' if c.get('int_dates') else ''}/n={c['n']}"
        dist[key] = dist.get(key, 0) + 1
        vals = o["nh"][r] + o["bl"][r] + o["xinv"][r]
        mod = [flat[k:k + 3] for k in range(0, len(flat), 3)]
        rep.case(dict(c=c, r=r), nontrivial=c["n"] >= 3,
                 sample=dict(newick=trees.newick(c["tree"], [f"t{i}" for i in range(c["n"])]), dates=c["dates"],
                             kind=c["kind"], x=c["x"][r], impl_node_heights=o["nh"][r]))
        bad = None
        if len(mod) != len(vals):
            bad = f"model has {len(mod)} outputs, implementation {len(vals)}"
        else:
            for k, (v, m) in enumerate(zip(vals, mod)):
                if m[0] != 1:
                    undefined += 1
                    continue
                if not near(v, Fraction(m[1], m[2]), 1e-9, 1e-11):
                    what = "node_heights" if k < 2 * c["n"] - 1 else ("branch_lengths" if k < 4 * c["n"] - 3 else "inverse")
                    bad = f"{what} output {k}: impl {v!r} vs model {float(Fraction(m[1], m[2]))!r}"
                    break
        if bad:
            fs = search()
            for f in fs:
                rep.violation(*f)
            if not fs:
                rep.violation(f"C06:model-impl-differ:{c['kind']}", f"{bad}; case {c}",
                              dict(case=c, row=r, broken="correspondence M_height vs tree_height_transform.py/tree_model.py"), False)
    # ---- same-object histories: heights / branch lengths / inverse after assignments == fresh object
    t0 = time.time()
    hrng = random.Random(seed + 17)
    nh, hist_found = 0, {}
    okc = [c for c, o in zip(cases, outs) if not isinstance(o, Exception) and not c["ops"]]
    hrng.shuffle(okc)
    for c in okc[:(80 if tier == "quick" else 500)]:
        try:
            tm = build(c)
        except Exception:
            continue

        with_inverse = hrng.random() < 0.4      # (a call of the inverse replaces whatever the transform object
                                                #  remembers of its last forward call: observe with and without)

        def obs(o):
            nhs = o.node_heights.detach()
            out = [nhs.tolist(), o.branch_lengths().detach().tolist()]
            if with_inverse:
                out.append(o.transform.inv(nhs[..., c["n"]:]).detach().tolist())
            return out
        fs = H.run(tm, obs, hrng, steps=2, reads=[("node_heights", lambda o: o.node_heights),
                                                  ("branch_lengths", lambda o: o.branch_lengths()),
                                                  ("call", lambda o: o())])
        nh += 1
        for f in fs:
            k = f"C06:history:{c['kind']}:batched={c['B'] is not None}"
            hist_found.setdefault(k, (k, f"after the history {f['history']} node_heights / branch_lengths() / inverse of "
                                         f"the same tree model differ from a freshly built one: {f['on_same_object']} vs "
                                         f"{f['fresh_object']}", dict(case=c, history=f)))
    for f in hist_found.values():
        rep.violation(*f)
    rep.timings["histories"] = round(time.time() - t0, 2)
    # ---- the documented option k > 0 of the increment parameterisation (a smooth maximum of the children's heights
    #      instead of the hard one; the model describes the hard maximum only): judged by the property itself —
    #      every parent at least as old as each of its children, tips at their sampling times, inverse(forward(x)) = x
    torch = impl.load()
    from torchtree.evolution.tree_height_transform import DifferenceNodeHeightTransform
    srng = random.Random(seed + 29)
    n_smooth, smooth_found = 0, {}
    shifts = [c for c, o in zip(cases, outs) if not isinstance(o, Exception) and c["kind"] == "shift" and c["B"] is None]
    for c in shifts[:(40 if tier == "quick" else 300)]:
        try:
            tm = build(dict(c, ops=[]))
            n = c["n"]
            tips = [float(v) for v in tm.sampling_times]
            ed = trees.edges(trees.index_tree(c["tree"]))
            for k in (srng.choice([0.5, 1.0, 2.0]), srng.choice([5.0, 20.0, 60.0])):
                tr = DifferenceNodeHeightTransform(tm, k=k)
                x = torch.tensor([v * srng.choice([1.0, 0.05, 1e-3]) for v in c["x"][0]])
                y = tr(x)
                hs = tips + [float(v) for v in y]
                n_smooth += 1
                bad = None
                for pa, ch in ed:
                    if hs[pa] < hs[ch] - 1e-12 * max(1.0, abs(hs[ch])):
                        bad = (f"parent {pa} (height {hs[pa]!r}) is younger than its child {ch} (height {hs[ch]!r}) "
                               f"with k = {k}, increments {x.tolist()}")
                        break
                if bad is None:
                    back = tr.inv(y)
                    if not torch.allclose(back, x, rtol=1e-9, atol=1e-12):
                        bad = f"inverse(forward(x)) = {back.tolist()} but x = {x.tolist()} with k = {k}"
                if bad:
                    smooth_found.setdefault("C06:smooth-maximum", ("C06:smooth-maximum", bad, dict(case=c, k=k, x=x.tolist())))
        except Exception as e:  # noqa
            smooth_found.setdefault(f"C06:smooth-maximum:raises:{type(e).__name__}",
                                    (f"C06:smooth-maximum:raises:{type(e).__name__}", f"{type(e).__name__}: {str(e)[:160]}",
                                     dict(case=c)))
    for f in smooth_found.values():
        rep.violation(*f)
    rep.rule = ("all rooted binary topologies for 3..4 taxa (quick) / 3..6 taxa (thorough) with random child order, "
                "plus random/caterpillar/balanced trees up to 12 (30) taxa; dates isochronous / ages / calendar with "
                "ties; ratio or shift parameterisation; batch [] or [B]; random cpu()/to() prefixes; non-trivial = at "
                "least 3 taxa; distinct = distinct (case,row)")
    rep.extra = dict(input_distribution=dist, smooth_maximum_evaluations=n_smooth, model_undefined=undefined, exhaustive_topologies=len(pool),
                     traces_validated_against_impl=len(index), translator_units=["cpu/cuda/to -> gen/G_kind.v"])
    return rep.finish()


def _tuplify(t):
    return t if isinstance(t, int) else (_tuplify(t[0]), _tuplify(t[1]))
