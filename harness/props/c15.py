"""C15 — every MCMC transition is a Metropolis-Hastings step on the stated target.

Pipeline: T3 translator (tuning arithmetic -> gen/G_tuning.v) -> proofs (prop/C15.v + the per-run
obligation about the regenerated Dirichlet re-parameterisation) -> seeded runs of the real MCMC.run
under a recorder that reconstructs one transition record per iteration by wrapping
operator.step/accept/reject/tune, the target handed to MCMC, torch.rand/randint/randn and the
kinetic energy of HMC operators (nothing in the repository is touched) -> the property evaluated
directly on the records (densities re-evaluated FROM SCRATCH on freshly built models) -> every
record replayed through the Coq model `step` at the interval instance and compared field by field.
"""
import contextlib
import copy
import io
import json
import math
import os
import random
import re
import threading
import time
from fractions import Fraction

from harness import common as C
from harness import impl
from harness.translate import t3_tuning

PID = "C15"

# =============================================================================== targets


def P(id_, values, **kw):
    d = {"id": id_, "type": "Parameter", "tensor": values}
    d.update(kw)
    return d


def TP(id_, transform, x):
    return {"id": id_, "type": "TransformedParameter", "transform": transform, "x": x}


def dist(id_, name, x, **params):
    return {"id": id_, "type": "Distribution", "distribution": "torch.distributions." + name, "x": x,
            "parameters": params}


def _simplex(rng, n):
    v = [rng.uniform(0.5, 2.0) for _ in range(n)]
    s = sum(v)
    return [x / s for x in v]


def toy_target(tseed):
    """gamma / normal / Dirichlet / log-normal toy posterior built from shipped models, with a
    coupling (the scale of the normal prior on b is the transformed parameter t = exp(z)), a view
    through a slice (c.view) and a view through an index tensor (c.rev)."""
    rng = random.Random(tseed)
    r = lambda lo, hi: round(rng.uniform(lo, hi), 3)
    objs = [
        P("a", [r(0.3, 2.0) for _ in range(3)]),
        P("b", [r(-1.0, 1.0) for _ in range(2)]),
        P("p", _simplex(rng, 4)),
        P("c", [r(0.5, 3.0) for _ in range(4)]),
        {"id": "c.view", "type": "ViewParameter", "parameter": "c", "indices": "1:3"},
        {"id": "c.rev", "type": "ViewParameter", "parameter": "c", "indices": "3:1:-1"},
        TP("t", "torch.distributions.ExpTransform", P("z", [r(-0.5, 0.5) for _ in range(2)])),
        # a simplex held as a slice of a longer vector (kappa and frequencies in one parameter)
        P("kp", [1.7] + _simplex(rng, 3)),
        {"id": "kp.freqs", "type": "ViewParameter", "parameter": "kp", "indices": "1:"},
        {"id": "kp.kappa", "type": "ViewParameter", "parameter": "kp", "indices": ":1"},
        # transformed parameters over LISTS of parameters (an anonymous concatenation sits in between)
        TP("t2", "torch.distributions.ExpTransform", [P("z1", [r(-0.5, 0.5), r(-0.5, 0.5)]), P("z2", [r(-0.5, 0.5)])]),
        TP("t3", "torch.distributions.ExpTransform", [P("z3", [r(-0.5, 0.5)]), P("z4", [r(-0.5, 0.5), r(-0.5, 0.5)])]),
        {"id": "joint", "type": "JointDistributionModel", "distributions": [
            dist("prior.a", "Gamma", "a", concentration=2.0, rate=3.0),
            dist("prior.b", "Normal", "b", loc=P("b.loc", [0.5, -0.25]), scale="t"),
            dist("prior.p", "Dirichlet", "p", concentration=[2.0, 3.0, 1.5, 2.5]),
            dist("prior.c", "LogNormal", "c", loc=0.25, scale=0.75),
            dist("prior.t", "Gamma", "t", concentration=3.0, rate=2.0),
            "t",
            dist("prior.kpf", "Dirichlet", "kp.freqs", concentration=[2.0, 1.5, 3.0]),
            dist("prior.kpk", "LogNormal", "kp.kappa", loc=0.5, scale=0.8),
            dist("prior.t2", "Gamma", "t2", concentration=2.5, rate=2.0), "t2",
            dist("prior.t3", "Gamma", "t3", concentration=2.0, rate=1.5), "t3",
        ]},
    ]
    return dict(name="toy", objs=objs, joint="joint", leaves=["a", "b", "p", "c", "z", "z1", "z2", "z3", "z4", "kp"],
                watch=["c.view", "c.rev", "t", "t2", "t3", "kp.freqs", "kp.kappa"])


def toy_operators(rng, mix, adapt):
    ops = []
    w = lambda: round(rng.uniform(0.5, 2.0), 2)
    da = not adapt
    for k in mix:
        if k == "scaler":
            ops.append({"id": "op.scaler", "type": "ScalerOperator", "parameters": ["a", "c.view"],
                        "weight": w(), "scaler": round(rng.uniform(0.3, 0.8), 3),
                        "target_acceptance_probability": 0.24, "disable_adaptation": da})
        elif k == "scaler_rev":
            ops.append({"id": "op.scaler_rev", "type": "ScalerOperator", "parameters": ["c.rev"],
                        "weight": w(), "scaler": round(rng.uniform(0.3, 0.8), 3),
                        "target_acceptance_probability": 0.3, "disable_adaptation": da})
        elif k == "sliding":
            ops.append({"id": "op.sliding", "type": "SlidingWindowOperator", "parameters": ["b", "z"],
                        "weight": w(), "width": round(rng.uniform(0.2, 1.5), 3),
                        "target_acceptance_probability": 0.24, "disable_adaptation": da})
        elif k == "dirichlet":
            ops.append({"id": "op.dirichlet", "type": "DirichletOperator", "parameters": "p",
                        "weight": w(), "scaler": round(rng.uniform(20.0, 200.0), 1),
                        "target_acceptance_probability": 0.24, "disable_adaptation": da})
        elif k == "dirichlet_view":
            ops.append({"id": "op.dirichlet_view", "type": "DirichletOperator", "parameters": "kp.freqs",
                        "weight": w(), "scaler": round(rng.uniform(20.0, 200.0), 1),
                        "target_acceptance_probability": 0.24, "disable_adaptation": da})
        elif k in ("hmc", "hmc_adaptive", "hmc_rate", "hmc_dual", "hmc_mass", "hmc_mass_dense", "hmc_bounded"):
            op = {"id": "op." + k, "type": "HMCOperator", "joint": "joint", "parameters": ["b", "z"],
                  "weight": w(), "target_acceptance_probability": 0.8, "disable_adaptation": da,
                  "integrator": {"id": k + ".leapfrog", "type": "LeapfrogIntegrator",
                                 "steps": rng.choice([2, 3, 5]),
                                 "step_size": round(rng.uniform(0.05, 0.4), 3)},
                  "mass_matrix": {"id": k + ".mass", "type": "Parameter", "tensor": [1.0, 1.0, 1.0, 1.0]},
                  "adaptors": []}
            if k in ("hmc_mass", "hmc_mass_dense"):
                if k == "hmc_mass_dense":
                    op["mass_matrix"] = {"id": k + ".mass", "type": "Parameter",
                                         "tensor": [[1.0 if i == j else 0.0 for j in range(4)] for i in range(4)]}
                op["adaptors"].append({"id": k + ".adaptor", "type": "MassMatrixAdaptor", "parameters": ["b", "z"],
                                       "mass_matrix": k + ".mass", "update_frequency": 7})
            if k == "hmc_adaptive" and adapt:
                op["adaptors"].append({"id": k + ".adaptor", "type": "AdaptiveStepSize",
                                       "integrator": k + ".leapfrog",
                                       "target_acceptance_probability": 0.8})
            if k == "hmc_bounded":
                # a positive parameter sampled WITHOUT an unconstraining transform, bold steps: trajectories leave the
                # support now and then, the evaluation raises, the move is retried with a new momentum
                op["parameters"] = ["a"]
                op["mass_matrix"]["tensor"] = [1.0, 1.0, 1.0]
                op["integrator"]["step_size"] = round(rng.uniform(0.25, 0.45), 3)
                op["integrator"]["steps"] = rng.choice([3, 5])
            if k == "hmc_rate" and adapt:
                # step size driven by the operator's running acceptance RATE (accepted / own calls)
                op["integrator"]["step_size"] = round(rng.uniform(0.02, 0.08), 3)
                op["adaptors"].append({"id": k + ".adaptor", "type": "AdaptiveStepSize",
                                       "integrator": k + ".leapfrog", "use_acceptance_rate": True,
                                       "target_acceptance_probability": 0.6})
            if k == "hmc_dual" and adapt:
                op["adaptors"].append({"id": k + ".adaptor", "type": "DualAveragingStepSize",
                                       "integrator": k + ".leapfrog"})
            ops.append(op)
        elif k == "scaler_cat":
            # one operator on two transformed parameters, each over a list of parameters
            ops.append({"id": "op.scaler_cat", "type": "ScalerOperator", "parameters": ["t2", "t3"],
                        "weight": w(), "scaler": round(rng.uniform(0.3, 0.7), 3),
                        "target_acceptance_probability": 0.24, "disable_adaptation": da})
        elif k == "sliding_cat":
            ops.append({"id": "op.sliding_cat", "type": "SlidingWindowOperator", "parameters": ["t3", "t2", "t"],
                        "weight": w(), "width": round(rng.uniform(0.5, 2.0), 3),
                        "target_acceptance_probability": 0.24, "disable_adaptation": da})
        elif k == "scaler_transformed":
            # an operator whose parameter is a TransformedParameter (what the CLI does with
            # gmrf.precision for the block-updating operator)
            ops.append({"id": "op.scaler_t", "type": "ScalerOperator", "parameters": ["t"],
                        "weight": w(), "scaler": round(rng.uniform(0.4, 0.8), 3),
                        "target_acceptance_probability": 0.24, "disable_adaptation": da})
        else:
            raise ValueError(k)
    return ops


def _read_tiny(repo):
    fa = open(os.path.join(repo, "data", "tiny.fa")).read().split(">")[1:]
    seqs = []
    for blk in fa:
        lines = blk.strip().split("\n")
        seqs.append((lines[0].strip(), "".join(lines[1:]).strip()))
    nwk = open(os.path.join(repo, "data", "tiny.nwk")).read().strip()
    return seqs, nwk


def phylo_target(cli_precision):
    """HKY + strict clock + skygrid(4) + GMRF posterior on data/tiny.*, unconstrained
    parameterisation and priors as emitted by `torchtree-cli mcmc --coalescent skygrid`.
    cli_precision: gmrf.precision is a TransformedParameter (exp) of gmrf.precision.unres, exactly as
    the CLI emits it (the block operator then works THROUGH the transform); otherwise a plain
    positive Parameter.  Frequencies are a plain simplex Parameter (moved by DirichletOperator)."""
    seqs, nwk = _read_tiny(C.REPO)
    taxa = {"id": "taxa", "type": "Taxa", "taxa": [
        {"id": n, "type": "Taxon", "attributes": {"date": 0.0}} for n, _ in seqs]}
    aln = {"id": "alignment", "type": "Alignment",
           "datatype": {"id": "data_type", "type": "NucleotideDataType"}, "taxa": "taxa",
           "sequences": [{"taxon": n, "sequence": s} for n, s in seqs]}
    if cli_precision:
        prec = TP("gmrf.precision", "torch.distributions.ExpTransform", P("gmrf.precision.unres", [-0.3341]))
    else:
        prec = P("gmrf.precision", [0.716])
    like = {
        "id": "like", "type": "TreeLikelihoodModel",
        "tree_model": {
            "id": "tree", "type": "ReparameterizedTimeTreeModel", "newick": nwk,
            "ratios": TP("tree.ratios", "torch.distributions.SigmoidTransform",
                         P("tree.ratios.unres", -1.2, full=[8])),
            "root_height": TP("tree.root_height", "torch.distributions.ExpTransform",
                              P("tree.root_height.unres", [2.3025851249694824])),
            "taxa": "taxa"},
        "site_model": {"id": "sitemodel", "type": "ConstantSiteModel"},
        "substitution_model": {
            "id": "substmodel", "type": "HKY",
            "kappa": TP("substmodel.kappa", "torch.distributions.ExpTransform",
                        P("substmodel.kappa.unres", [1.0986123085021973])),
            "frequencies": P("substmodel.frequencies", [0.3, 0.2, 0.25, 0.25])},
        "site_pattern": {"id": "patterns", "type": "SitePattern", "alignment": "alignment"},
        "branch_model": {
            "id": "branchmodel", "type": "StrictClockModel", "tree_model": "tree",
            "rate": TP("branchmodel.rate", "torch.distributions.ExpTransform",
                       P("branchmodel.rate.unres", [-6.907755374908447]))},
    }
    prior = {"id": "prior", "type": "JointDistributionModel", "distributions": [
        {"id": "coalescent", "type": "PiecewiseConstantCoalescentGridModel",
         "theta": TP("coalescent.theta", "torch.distributions.ExpTransform",
                     P("coalescent.theta.log", 3.0, full=[4])),
         "tree_model": "tree", "cutoff": 10.0},
        {"id": "gmrf", "type": "GMRF", "x": "coalescent.theta.log", "precision": prec},
        dist("gmrf.precision.prior", "Gamma", "gmrf.precision", concentration=0.001, rate=0.001),
        {"id": "branchmodel.rate.prior", "type": "CTMCScale", "x": "branchmodel.rate", "tree_model": "tree"},
        dist("substmodel.frequencies.prior", "Dirichlet", "substmodel.frequencies",
             concentration=[1.0, 1.0, 1.0, 1.0]),
        dist("substmodel.kappa.prior", "LogNormal", "substmodel.kappa", loc=1.0, scale=1.25),
    ]}
    joint = {"id": "joint", "type": "JointDistributionModel", "distributions": [like, prior]}
    jac = ["tree.ratios", "tree.root_height", "substmodel.kappa", "branchmodel.rate", "tree"]
    if cli_precision:
        jac.append("gmrf.precision")
    jj = {"id": "joint.jacobian", "type": "JointDistributionModel", "distributions": ["joint"] + jac}
    leaves = ["tree.ratios.unres", "tree.root_height.unres", "substmodel.kappa.unres",
              "substmodel.frequencies", "branchmodel.rate.unres", "coalescent.theta.log",
              "gmrf.precision.unres" if cli_precision else "gmrf.precision"]
    watch = ["tree.ratios", "tree.root_height", "substmodel.kappa", "branchmodel.rate", "coalescent.theta"]
    if cli_precision:
        watch.append("gmrf.precision")
    return dict(name="phylo-cli" if cli_precision else "phylo", objs=[taxa, aln, joint, jj],
                joint="joint.jacobian", leaves=leaves, watch=watch)


def phylo_operators(rng, mix, adapt):
    ops = []
    da = not adapt
    for k in mix:
        if k == "sliding_cli":
            # what `torchtree-cli mcmc` emits: one sliding window per unconstrained parameter
            for pid, wgt in (("tree.ratios.unres", 8.0), ("tree.root_height.unres", 1.0),
                             ("substmodel.kappa.unres", 1.0), ("branchmodel.rate.unres", 1.0)):
                ops.append({"id": pid + ".operator", "type": "SlidingWindowOperator", "parameters": pid,
                            "weight": wgt / 2, "width": 0.5, "disable_adaptation": da})
        elif k in ("block", "block_unit"):
            # block_unit: the documented special value scaler = 1 (the precision is not proposed until tuning moves it)
            ops.append({"id": "coalescent.theta.log.operator",
                        "type": "GMRFPiecewiseCoalescentBlockUpdatingOperator",
                        "coalescent": "coalescent", "gmrf": "gmrf", "weight": 3.0,
                        "scaler": 1.0 if k == "block_unit" else round(rng.uniform(1.5, 2.5), 2),
                        "disable_adaptation": da})
        elif k == "dirichlet":
            ops.append({"id": "freq.operator", "type": "DirichletOperator",
                        "parameters": "substmodel.frequencies", "weight": 2.0,
                        "scaler": round(rng.uniform(100.0, 400.0), 0),
                        "target_acceptance_probability": 0.24, "disable_adaptation": da})
        elif k == "scaler":
            ops.append({"id": "prec.operator", "type": "ScalerOperator", "parameters": ["gmrf.precision"],
                        "weight": 1.0, "scaler": 0.5, "target_acceptance_probability": 0.24,
                        "disable_adaptation": da})
        elif k == "hmc":
            ids = ["substmodel.kappa.unres", "branchmodel.rate.unres", "tree.root_height.unres"]
            ops.append({"id": "hmc.operator", "type": "HMCOperator", "joint": "joint.jacobian",
                        "parameters": ids, "weight": 2.0, "disable_adaptation": da,
                        "target_acceptance_probability": 0.8,
                        "integrator": {"id": "hmc.leapfrog", "type": "LeapfrogIntegrator", "steps": 3,
                                       "step_size": round(rng.uniform(0.02, 0.08), 3)},
                        "mass_matrix": {"id": "hmc.mass", "type": "Parameter", "tensor": [1.0, 1.0, 1.0]},
                        "adaptors": []})
        else:
            raise ValueError(k)
    return ops


def origin_target(tseed):
    """A chain STARTED where the target vanishes: r = |u| ~ Gamma(2, 1) with u = 0 (log density -inf, not NaN), next to
    an ordinary normal block.  From such a state every proposal with a positive density is accepted with probability
    one (the ratio is +inf), a proposal that leaves u at 0 has density -inf again and is rejected."""
    rng = random.Random(tseed)
    objs = [
        TP("r", "torch.distributions.AbsTransform", P("u", [0.0])),
        P("b", [round(rng.uniform(-1, 1), 3), round(rng.uniform(-1, 1), 3)]),
        {"id": "joint", "type": "JointDistributionModel", "distributions": [
            dist("prior.r", "Gamma", "r", concentration=2.0, rate=1.0),
            dist("prior.b", "Normal", "b", loc=0.0, scale=1.0)]},
    ]
    return dict(name="origin", objs=objs, joint="joint", leaves=["u", "b"], watch=["r"])


def origin_operators(rng, mix, adapt):
    da = not adapt
    return [{"id": "op.sliding", "type": "SlidingWindowOperator", "parameters": ["u"], "weight": 1.0,
             "width": round(rng.uniform(0.8, 2.0), 3), "target_acceptance_probability": 0.24, "disable_adaptation": da},
            {"id": "op.sliding_b", "type": "SlidingWindowOperator", "parameters": ["b"], "weight": 1.0,
             "width": round(rng.uniform(0.3, 1.0), 3), "target_acceptance_probability": 0.24, "disable_adaptation": da}]


def make_target(spec):
    if spec["target"] == "toy":
        return toy_target(spec["tseed"])
    if spec["target"] == "origin":
        return origin_target(spec["tseed"])
    return phylo_target(spec["target"] == "phylo-cli")


def make_operators(spec):
    rng = random.Random(spec["oseed"])
    if spec["target"] == "toy":
        return toy_operators(rng, spec["mix"], spec["adapt"])
    if spec["target"] == "origin":
        return origin_operators(rng, spec["mix"], spec["adapt"])
    return phylo_operators(rng, spec["mix"], spec["adapt"])


def plan(tier, seed):
    """Run specifications (JSON-serialisable; everything derives from VERIF_SEED)."""
    rng = random.Random(seed)
    s = lambda: rng.randrange(1, 10 ** 6)
    q = tier == "quick"
    n = (lambda a, b: a) if q else (lambda a, b: b)
    specs = []

    def add(target, mix, adapt, iters, log_every):
        specs.append(dict(target=target, tseed=s(), oseed=s(), mix=mix, adapt=adapt, iterations=iters,
                          log_every=log_every, torch_seed=s()))

    add("toy", ["scaler", "scaler_rev", "sliding", "dirichlet", "hmc"], True, n(200, 1500), 1)
    add("toy", ["scaler", "scaler_rev", "sliding", "dirichlet", "hmc"], False, n(120, 800), 3)
    add("toy", ["sliding", "hmc_adaptive", "dirichlet"], True, n(120, 800), 1)
    add("toy", ["scaler", "hmc_dual"], True, n(120, 800), 2)
    add("toy", ["sliding", "hmc_rate", "scaler"], True, n(150, 800), 1)
    add("toy", ["hmc_bounded", "sliding"], False, n(150, 800), 1)
    add("toy", ["scaler_transformed", "sliding"], True, n(100, 400), 1)
    add("toy", ["scaler_cat", "sliding"], True, n(100, 400), 1)
    add("toy", ["hmc_mass", "scaler"], True, n(80, 400), 1)
    add("toy", ["dirichlet_view", "sliding"], True, n(100, 400), 1)
    add("toy", ["hmc_mass_dense"], True, n(60, 300), 1)
    add("toy", ["scaler_cat", "scaler"], False, n(100, 400), 1)
    for k, ad in (("scaler", True), ("sliding", False), ("dirichlet", True), ("hmc", True),
                  ("scaler_rev", False)):
        add("toy", [k], ad, n(100, 400), 1)
    add("origin", ["sliding", "sliding_b"], False, n(40, 200), 1)
    add("phylo", ["sliding_cli", "block", "dirichlet", "scaler", "hmc"], True, n(200, 1500), 1)
    add("phylo", ["sliding_cli", "block", "dirichlet", "hmc"], False, n(100, 600), 5)
    add("phylo-cli", ["sliding_cli", "block"], True, n(120, 600), 1)
    add("phylo", ["block_unit", "sliding_cli"], True, n(120, 600), 1)
    if not q:
        for _ in range(4):
            mix = rng.sample(["scaler", "scaler_rev", "sliding", "dirichlet", "hmc", "hmc_adaptive", "hmc_dual", "hmc_rate"],
                             rng.randint(2, 4))
            add("toy", mix, rng.random() < 0.7, 600, rng.choice([1, 2, 7]))
        for _ in range(2):
            mix = rng.sample(["sliding_cli", "block", "dirichlet", "scaler", "hmc"], rng.randint(2, 4))
            add("phylo", mix, rng.random() < 0.7, 600, rng.choice([1, 4]))
    return specs


# =============================================================================== recorder

def build(objs, extra=()):
    """Fresh object graph from the JSON list.  Returns the id -> object dictionary."""
    impl.load()
    from torchtree.core.utils import process_object
    dic = {}
    for d in copy.deepcopy(list(objs)) + copy.deepcopy(list(extra)):
        process_object(d, dic)
    return dic


def flat(t):
    return [float(v) for v in t.detach().reshape(-1).tolist()]


def bits(xs):
    return [float(x).hex() for x in xs]


def set_leaves(dic, leaves, values):
    torch = impl.load()
    for pid in leaves:
        p = dic[pid]
        p.tensor = torch.tensor(values[pid], dtype=p.tensor.dtype).reshape(p.tensor.shape)


def state_key(target, values):
    return tuple(h for pid in target["leaves"] for h in bits(values[pid]))


class Fresh:
    """The target evaluated from scratch: new object graph, leaves set, one evaluation (memoised
    on the exact bit pattern of the state)."""

    def __init__(self, target):
        self.target = target
        self.memo = {}
        self.evals = 0

    def __call__(self, values):
        k = state_key(self.target, values)
        if k not in self.memo:
            torch = impl.load()
            dic = build(self.target["objs"])
            set_leaves(dic, self.target["leaves"], values)
            try:
                with torch.no_grad():
                    v = float(dic[self.target["joint"]]())
            except Exception:  # a state outside the support of some torch distribution
                v = float("nan")
            self.memo[k] = v
            self.evals += 1
        return self.memo[k]


class _JointProxy:
    def __init__(self, joint, rec):
        self._joint, self._rec = joint, rec

    def __call__(self, *a, **kw):
        v = self._joint(*a, **kw)
        self._rec._joint_called(v)
        return v

    def __getattr__(self, k):
        return getattr(self._joint, k)


class Recorder:
    def __init__(self, target, dic, mcmc):
        self.torch = impl.load()
        self.target, self.dic, self.mcmc = target, dic, mcmc
        self.records = []
        self.cur = None
        self.phase = "idle"
        self.init_joint = []
        self.anomalies = []

    def snap(self):
        s = {pid: flat(self.dic[pid].tensor) for pid in self.target["leaves"]}
        w = {pid: flat(self.dic[pid].tensor) for pid in self.target["watch"]}
        return s, w

    @staticmethod
    def op_state(op):
        st = dict(field=float(op.tuning_parameter), count=int(op._adapt_count), acc=int(op._accept),
                  rej=int(op._reject))
        ads = []
        for ad in getattr(op, "_adaptors", []):
            a = dict(type=type(ad).__name__, call_counter=int(ad._call_counter))
            if hasattr(ad, "_dual_avg"):
                da = ad._dual_avg
                a.update(s_bar=float(da.s_bar), x_bar=float(da.x_bar), counter=int(da._counter),
                         mu=float(da._mu), gamma=float(da._gamma), kappa=float(da._kappa), t0=float(da._t0),
                         delta=float(ad._delta))
            if hasattr(ad, "target_acceptance_probability"):
                a["target"] = float(ad.target_acceptance_probability)
            for k in ("_start", "_end"):
                if hasattr(ad, k):
                    a[k[1:]] = float(getattr(ad, k))
            if hasattr(ad, "_acceptance_rate"):
                a["use_rate"] = bool(ad._acceptance_rate)
                a["accepted"] = int(ad._accepted)
            ads.append(a)
        st["adaptors"] = ads
        return st

    def _joint_called(self, v):
        v = float(v)
        if self.cur is None:
            self.init_joint.append(v)
        else:
            self.cur["joint_calls"].append(v)
            self.phase = "after_joint"

    def _rand(self, kind, val):
        if self.cur is None:
            self.anomalies.append(f"{kind} draw outside an iteration")
        elif self.phase == "step":
            self.cur["draws"].append([kind, val])
        elif self.phase == "after_joint":
            self.cur["uacc"].append([kind, val])
        else:
            self.cur["other_draws"].append([self.phase, kind, val])

    def install(self):
        torch = self.torch
        rec = self
        self._saved = dict(rand=torch.rand, randint=torch.randint, randn=torch.randn)

        def rand(*a, **kw):
            v = rec._saved["rand"](*a, **kw)
            rec._rand("rand", flat(v))
            return v

        def randint(*a, **kw):
            v = rec._saved["randint"](*a, **kw)
            rec._rand("randint", [int(x) for x in v.reshape(-1).tolist()])
            return v

        def randn(*a, **kw):
            v = rec._saved["randn"](*a, **kw)
            rec._rand("randn", flat(v))
            return v

        torch.rand, torch.randint, torch.randn = rand, randint, randn
        self.mcmc.joint = _JointProxy(self.mcmc.joint, self)
        for k, op in enumerate(self.mcmc._operators):
            self._wrap(k, op)

    def uninstall(self):
        t = self.torch
        t.rand, t.randint, t.randn = self._saved["rand"], self._saved["randint"], self._saved["randn"]

    def _wrap(self, k, op):
        rec = self
        o_step, o_acc, o_rej, o_tune = op.step, op.accept, op.reject, op.tune

        def step():
            if rec.cur is not None:
                rec.anomalies.append("step() while the previous iteration is still open")
            before, wbefore = rec.snap()
            rec.cur = dict(op=k, op_id=op.id, kind=type(op).__name__, before=before, wbefore=wbefore,
                           state_before=rec.op_state(op), draws=[], uacc=[], other_draws=[],
                           joint_calls=[], kin=[], decision=None)
            rec.phase = "step"
            h = o_step()
            rec.phase = "after_step"
            rec.cur["hastings"] = float(h)
            rec.cur["proposed"], rec.cur["wproposed"] = rec.snap()
            return h

        def accept():
            rec.phase = "decide"
            o_acc()
            rec._decided("accept", op)

        def reject():
            rec.phase = "decide"
            o_rej()
            rec._decided("reject", op)

        def tune(acceptance_prob, sample, accepted):
            c = rec.cur
            if c is None or c["decision"] is None:
                rec.anomalies.append("tune() before accept()/reject()")
                return o_tune(acceptance_prob, sample, accepted)
            c["ap"] = float(acceptance_prob)
            c["sample"] = int(sample)
            c["tune_accepted"] = bool(accepted)
            rec.phase = "tune"
            o_tune(acceptance_prob, sample, accepted)
            c["state_after"] = rec.op_state(op)
            c["after_tune"], c["wafter_tune"] = rec.snap()
            rec.records.append(c)
            rec.cur = None
            rec.phase = "idle"

        op.step, op.accept, op.reject, op.tune = step, accept, reject, tune
        if hasattr(op, "_hamiltonian"):
            ham = op._hamiltonian
            o_kin = ham.kinetic_energy

            def kinetic_energy(momentum, inverse_mass_matrix):
                v = o_kin(momentum, inverse_mass_matrix)
                if rec.cur is not None and rec.phase == "step":
                    rec.cur["kin"].append(float(v))
                    # independent of the operator's cached inverse: the momentum was drawn from
                    # N(0, M) with M the LIVE mass-matrix parameter, so K(p) = p^T M^-1 p / 2
                    try:
                        torch = rec.torch
                        M = op._mass_matrix.tensor.detach().to(torch.float64)
                        pm = momentum.detach().to(torch.float64)
                        kt = 0.5 * float((pm * pm / M).sum()) if M.dim() == 1 else \
                            0.5 * float(pm @ torch.linalg.solve(M, pm))
                    except Exception:
                        kt = float("nan")
                    rec.cur.setdefault("kin_true", []).append(kt)
                return v

            ham.kinetic_energy = kinetic_energy

            def k_true(pm):
                torch = rec.torch
                try:
                    M = op._mass_matrix.tensor.detach().to(torch.float64)
                    pm = pm.detach().to(torch.float64)
                    return 0.5 * float((pm * pm / M).sum()) if M.dim() == 1 else \
                        0.5 * float(pm @ torch.linalg.solve(M, pm))
                except Exception:
                    return float("nan")
            # every momentum DRAWN (a trajectory that fails is discarded and a new momentum is drawn) and every
            # momentum an integration RETURNS: the Hastings term is K(last drawn) - K(last returned)
            o_samp = ham.sample_momentum

            def sample_momentum(mass_matrix):
                pm = o_samp(mass_matrix)
                if rec.cur is not None and rec.phase == "step":
                    rec.cur.setdefault("k_drawn", []).append(k_true(pm))
                return pm
            ham.sample_momentum = sample_momentum
            integ = op._integrator
            icls = integ.__class__

            def icall(self_, *a, **kw):
                pm = icls.__call__(self_, *a, **kw)
                if rec.cur is not None and rec.phase == "step":
                    rec.cur.setdefault("k_returned", []).append(k_true(pm))
                return pm
            integ.__class__ = type(icls.__name__, (icls,), {"__call__": icall})

    def _decided(self, what, op):
        c = self.cur
        c["decision"] = what
        c["after"], c["wafter"] = self.snap()
        c["state_decided"] = self.op_state(op)
        self.phase = "decided"


def run_recorded(spec, workdir, tag):
    """Build target + MCMC from JSON, run MCMC.run() under the recorder."""
    torch = impl.load()
    from torchtree.core.utils import process_object
    target = make_target(spec)
    operators = make_operators(spec)
    os.makedirs(workdir, exist_ok=True)
    log_file = os.path.join(workdir, f"log_{tag}.tsv")
    mj = {"id": "mcmc", "type": "MCMC", "joint": target["joint"], "iterations": spec["iterations"],
          "operators": copy.deepcopy(operators), "checkpoint": False, "every": 1,
          "loggers": [{"id": "logger", "type": "Logger", "parameters": [target["joint"]] + target["leaves"],
                       "file_name": log_file, "every": spec["log_every"], "delimiter": "\t"}]}
    dic = build(target["objs"])
    mcmc = process_object(copy.deepcopy(mj), dic)
    rec = Recorder(target, dic, mcmc)
    init_state, init_watch = rec.snap()
    ops = []
    for op in mcmc._operators:
        info = dict(id=op.id, kind=type(op).__name__, weight=float(op.weight),
                    target=float(op.target_acceptance_probability), adapt=not op._disable_adaptation,
                    state=Recorder.op_state(op), params=[p.id for p in op.parameters],
                    param_classes=[type(p).__name__ for p in op.parameters])
        if hasattr(op, "_integrator"):
            info["same_joint"] = op._hamiltonian.joint is mcmc.joint
        if hasattr(op, "_stop_value"):
            info["stop_value"], info["max_iterations"] = float(op._stop_value), int(op._max_iterations)
        ops.append(info)
    torch.manual_seed(spec["torch_seed"])
    out = io.StringIO()
    err = None
    rec.install()
    try:
        with contextlib.redirect_stdout(out):
            mcmc.run()
    except ZeroDivisionError as e:
        # the final summary of MCMC.run divides by the number of moves of each operator (0 when an
        # operator was never drawn): after the last iteration, outside the property
        err = None if len(rec.records) == spec["iterations"] else f"ZeroDivisionError: {e}"
    except Exception as e:  # noqa
        err = f"{type(e).__name__}: {e}"
    finally:
        rec.uninstall()
    printed = {}
    for line in out.getvalue().split("\n"):
        m = re.match(r"^\s+(\d+)\s+(-?\d+\.\d+)(\s|$)", line)
        if m:
            printed.setdefault(int(m.group(1)), float(m.group(2)))
    rows, header = [], None
    try:
        with open(log_file) as f:
            lines = [ln.rstrip("\n").split("\t") for ln in f if ln.strip()]
        header = lines[0]
        for r in lines[1:]:
            rows.append(dict(sample=int(r[0]), values=[float(v) for v in r[1:]]))
    except Exception as e:  # noqa
        rec.anomalies.append(f"log file unreadable: {e}")
    return dict(spec=spec, target=target, records=rec.records, init_joint=rec.init_joint,
                init_state=init_state, init_watch=init_watch, log_header=header, log_rows=rows,
                printed=printed, anomalies=rec.anomalies, error=err, ops=ops, open_record=rec.cur)


# =============================================================================== layout of the flat state

def layout(target, init_state):
    """leaf id -> (offset, length) in the flat state of the Coq model"""
    off, out = 0, {}
    for pid in target["leaves"]:
        out[pid] = (off, len(init_state[pid]))
        off += len(init_state[pid])
    return out


TOY_VIEWS = {"c.view": ("c", [1, 2]), "c.rev": ("c", [3, 2]), "t": ("z", [0, 1]),
             "t2": [("z1", [0, 1]), ("z2", [0])], "t3": [("z3", [0]), ("z4", [0, 1])],
             "kp.freqs": ("kp", [1, 2, 3]), "kp.kappa": ("kp", [0])}


def view_parts(views, pid):
    v = views[pid]
    return [v] if isinstance(v, tuple) else list(v)
PHYLO_VIEWS = {"gmrf.precision": ("gmrf.precision.unres", [0])}


def op_slots(run, opinfo):
    """positions (in the flat state) of the entries of each operator parameter"""
    lay = layout(run["target"], run["init_state"])
    slots = []
    params = opinfo["params"]
    if opinfo["kind"] == "GMRFPiecewiseCoalescentBlockUpdatingOperator":
        params = ["coalescent.theta.log", "gmrf.precision"]
    for pid in params:
        if pid in lay:
            o, n = lay[pid]
            slots.append(list(range(o, o + n)))
        else:
            views = TOY_VIEWS if run["target"]["name"] == "toy" else PHYLO_VIEWS
            slots.append([lay[base][0] + i for base, idx in view_parts(views, pid) for i in idx])
    return slots


def flatten(target, values):
    return [v for pid in target["leaves"] for v in values[pid]]


# =============================================================================== the property on the records

ATOL = 1e-9


def close(a, b, rtol=1e-9, atol=1e-9):
    if math.isnan(a) or math.isnan(b):
        return math.isnan(a) and math.isnan(b)
    if math.isinf(a) or math.isinf(b):
        return a == b
    return abs(a - b) <= atol + rtol * max(abs(a), abs(b))


def spread(kind, s):
    if kind == "ScalerOperator":
        return 1.0 / s - s
    if kind == "DirichletOperator":
        return 1.0 / s
    if kind == "GMRFPiecewiseCoalescentBlockUpdatingOperator":
        return s - 1.0 / s
    return s


class Finding:
    def __init__(self, key, what, aspect, ri, rec_index, replay):
        self.key, self.what, self.aspect, self.ri, self.rec_index, self.replay = key, what, aspect, ri, rec_index, replay


def dirichlet_terms(old, new, scaler):
    torch = impl.load()
    o, n = torch.tensor(old), torch.tensor(new)
    try:
        f = float(torch.distributions.Dirichlet(o * scaler).log_prob(n))
        b = float(torch.distributions.Dirichlet(n * scaler).log_prob(o))
    except Exception:
        return float("nan"), float("nan")
    return b, f


def block_reference(run, opinfo, c):
    """Independent recomputation of what the block-updating move must be: the multiplier of the
    precision from the recorded uniforms, and the Gaussian log densities of the forward / backward
    proposals (dense linear algebra, modes by Newton's method from the stated gradient / Hessian)
    on freshly built models.  Returns dict or None when the move gave up (infinite ratio)."""
    torch = impl.load()
    tg = run["target"]
    prec_leaf = tg["leaves"][-1]
    is_log = prec_leaf.endswith(".unres")

    def at(values):
        dic = build(tg["objs"])
        set_leaves(dic, tg["leaves"], values)
        with torch.no_grad():
            ss, counts = dic["coalescent"].distribution().sufficient_statistics(dic["tree"].node_heights)
            Q = dic["gmrf"].precision_matrix().clone()
            tau = dic["gmrf"].precision.tensor.clone()
        return ss.clone(), counts.clone(), Q, float(tau)

    ss, counts, Q0, tau0 = at(c["before"])
    mixed = copy.deepcopy(c["before"])
    mixed[prec_leaf] = c["proposed"][prec_leaf]
    _, _, Q1, tau1 = at(mixed)
    g0 = torch.tensor(c["before"]["coalescent.theta.log"])
    g1 = torch.tensor(c["proposed"]["coalescent.theta.log"])

    def mode(g, Q):
        grad = torch.tensor(float("inf"))
        g = g.clone()
        it = 0
        while torch.linalg.vector_norm(grad) > opinfo["stop_value"] and it < opinfo["max_iterations"]:
            H = Q + torch.diag(torch.exp(-g) * ss)
            grad = -(Q @ g) - counts + torch.exp(-g) * ss
            g = g + torch.linalg.solve(H, grad)
            it += 1
        return g

    def gauss(g_from, Q, x):
        m = mode(g_from, Q)
        w = ss * torch.exp(-m)
        QW = Q + torch.diag(w)
        mu = torch.linalg.solve(QW, w * (m + 1) - counts)
        d = x - mu
        quad = float(d @ (QW @ d))
        return 0.5 * float(torch.logdet(QW)) - 0.5 * quad, quad

    s = c["state_before"]["field"]
    rands = [d[1] for d in c["draws"] if d[0] == "rand"]
    randn = [d[1] for d in c["draws"] if d[0] == "randn"]
    out = dict(tau0=tau0, tau1=tau1)
    if s == 1:
        out["mult"] = 1.0
    elif len(rands) >= 2:
        L = s - 1.0 / s
        if rands[0][0] < L / (L + 2 * math.log(s)):
            out["mult"] = 1.0 / s + L * rands[1][0]
        else:
            out["mult"] = math.pow(s, 2.0 * rands[1][0] - 1)
    if not math.isfinite(c["hastings"]):
        return out
    try:
        lqf, quad_f = gauss(g0, Q1, g1)
        lqb, _ = gauss(g1, Q0, g0)
    except Exception:
        return out
    out.update(lqf=lqf, lqb=lqb, quad_f=quad_f, zz=sum(z * z for z in randn[0]) if randn else None)
    return out


def check_run(ri, run, fresh):
    """The property evaluated directly on the reconstructed records of one run -> list of Finding,
    plus per-record derived data used by the model replay."""
    tg, spec = run["target"], run["spec"]
    F = []

    def add(key, what, aspect, k=None, extra=None):
        rp = dict(spec=spec, record_index=k)
        if k is not None and k < len(run["records"]):
            c = run["records"][k]
            rp["record"] = {x: c.get(x) for x in ("op_id", "kind", "before", "proposed", "after", "hastings",
                                                  "joint_calls", "uacc", "draws", "decision", "ap",
                                                  "state_before", "state_after", "kin")}
        if extra:
            rp.update(extra)
        F.append(Finding(key, what, aspect, ri, k, rp))

    if run["error"]:
        add(f"C15:run-raises:{run['error'].split(':')[0]}", f"MCMC.run raised {run['error']} "
            f"after {len(run['records'])} iterations (mixture {spec['mix']}, target {tg['name']})", "run")
    for a in run["anomalies"]:
        add("C15:protocol:" + a.split(":")[0], f"MCMC.run does not follow step / evaluate / accept|reject / "
            f"log / tune: {a}", "protocol")
    recs = run["records"]
    if not run["error"] and len(recs) != spec["iterations"]:
        add("C15:protocol:iteration-count", f"{len(recs)} transitions recorded for {spec['iterations']} iterations",
            "protocol")
    # initial density
    pi0 = fresh(run["init_state"])
    if len(run["init_joint"]) != 1 or not close(run["init_joint"][0], pi0, 1e-9, 1e-9):
        add("C15:initial-density", f"initial log_joint {run['init_joint']} vs target from scratch {pi0!r}", "carried")
    prev, prev_w = run["init_state"], run["init_watch"]
    lay = layout(tg, run["init_state"])
    derived = []
    rows = {}
    for r in run["log_rows"]:
        rows.setdefault(r["sample"], []).append(r["values"])
    _check_row(add, tg, rows.get(0), run["init_state"], pi0, 0, None)
    for k, c in enumerate(recs):
        info = run["ops"][c["op"]]
        kind = c["kind"]
        d = dict(skip=False)
        derived.append(d)
        # nothing moves between iterations
        if state_key(tg, c["before"]) != state_key(tg, prev):
            add("C15:state-changes-between-iterations", f"iteration {k + 1}: parameters at step() differ from the "
                f"state left by the previous iteration", "restore", k)
        pi_b = fresh(c["before"])
        pi_p = fresh(c["proposed"])
        d["pi_before"], d["pi_prop"] = pi_b, pi_p
        h = c["hastings"]
        # 1. density used for the proposed state
        if math.isinf(h) or math.isnan(h):
            if c["joint_calls"]:
                pass  # evaluating anyway is harmless
        else:
            if len(c["joint_calls"]) != 1:
                add(f"C15:protocol:joint-evaluations:{kind}", f"iteration {k + 1}: {len(c['joint_calls'])} "
                    f"evaluations of the target for one proposal", "density", k)
            elif not close(c["joint_calls"][0], pi_p, 1e-9, 1e-9):
                add(f"C15:density-used-is-not-target:{kind}",
                    f"iteration {k + 1} ({c['op_id']}): density used for the proposed state "
                    f"{c['joint_calls'][0]!r} but the target evaluated from scratch there is {pi_p!r}", "density", k)
        # 2. accept rule
        finite = math.isfinite(h) and math.isfinite(pi_p)
        if math.isnan(h):
            finite = False
        if finite and math.isfinite(pi_b):
            la = (pi_p - pi_b) + h
            ap = math.exp(min(0.0, la))
            d["la_ref"] = la
        elif finite and pi_b == -math.inf:
            # the current state has density zero, the proposal does not: the ratio is +inf, the move is accepted
            la, ap = math.inf, 1.0
            d["la_ref"] = la
        else:
            ap = 0.0
        d["ap_ref"] = ap
        acc = c["decision"] == "accept"
        if c["tune_accepted"] != acc:
            add("C15:protocol:accepted-flag", f"iteration {k + 1}: accept()/reject() called = {c['decision']} but "
                f"tune(accepted={c['tune_accepted']})", "accept", k)
        if not finite:
            if acc:
                add(f"C15:accepts-non-finite-proposal:{kind}", f"iteration {k + 1} ({c['op_id']}): Hastings term "
                    f"{h!r}, proposed density {pi_p!r}, but the move was accepted", "accept", k)
        else:
            if not close(c["ap"], ap, 1e-7, 1e-9):
                add(f"C15:acceptance-probability:{kind}",
                    f"iteration {k + 1} ({c['op_id']}): acceptance probability used {c['ap']!r} but "
                    f"min(1, exp(dlogp + H)) = {ap!r} with dlogp = {pi_p - pi_b!r} from scratch and H = {h!r}",
                    "accept", k)
            us = [x[1][0] for x in c["uacc"] if x[0] == "rand"]
            if len(us) != 1:
                add(f"C15:protocol:accept-draws:{kind}", f"iteration {k + 1}: {len(us)} uniform draws for the "
                    f"accept test", "accept", k)
            else:
                u = us[0]
                d["u"] = u
                if abs(u - ap) > 1e-9 + 1e-7 * ap:
                    if acc != (u < ap):
                        add(f"C15:accept-rule:{kind}",
                            f"iteration {k + 1} ({c['op_id']}): uniform draw {u!r}, min(1, exp(dlogp + H)) = {ap!r} "
                            f"(dlogp {pi_p - pi_b!r}, H {h!r}) but the move was {c['decision']}ed", "accept", k)
                else:
                    d["near_tie"] = True
        # 3. restore / install
        if acc:
            if state_key(tg, c["after"]) != state_key(tg, c["proposed"]):
                add(f"C15:accepted-state-is-not-proposal:{kind}", f"iteration {k + 1}: state after accept() differs "
                    f"from the proposed state", "restore", k)
        else:
            bad = [pid for pid in tg["leaves"] if bits(c["after"][pid]) != bits(c["before"][pid])]
            badw = [pid for pid in tg["watch"] if bits(c["wafter"][pid]) != bits(c["wbefore"][pid])]
            if bad or badw:
                views = TOY_VIEWS if tg["name"] == "toy" else PHYLO_VIEWS
                through = [p for p, cl_ in zip(info["params"], info["param_classes"]) if cl_ == "TransformedParameter"]
                if kind.startswith("GMRF") and tg["name"] == "phylo-cli":
                    through = ["gmrf.precision"]
                # the known round-trip defect: only the leaves under the operator's transformed
                # parameters moved, and in constrained space they are back within a few ulp
                tiny = all(abs(a - b) <= 1e-13 * max(1.0, abs(b))
                           for pid in bad for a, b in zip(c["after"][pid], c["before"][pid]))
                roundtrip = bool(through) and tiny and set(bad) <= {b for p in through for b, _ in view_parts(views, p)} and \
                    set(badw) <= set(through) and \
                    all(_ulps(c["wafter"][p], c["wbefore"][p]) is not None and
                        _ulps(c["wafter"][p], c["wbefore"][p]) <= 4 for p in through)
                if roundtrip:
                    add("C15:reject-not-bit-identical:operator-parameter-is-TransformedParameter",
                        f"iteration {k + 1} ({c['op_id']}, {kind} acting on the TransformedParameter "
                        f"{through}): after reject() {bad + badw} are not bit-identical to their values before the "
                        f"proposal (e.g. {_first_diff(c, bad, badw)}): restored through transform.inv of the saved "
                        f"constrained value", "restore", k)
                else:
                    add(f"C15:reject-not-restored:{kind}",
                        f"iteration {k + 1} ({c['op_id']}): after reject() {bad + badw} differ from their values "
                        f"before the proposal (e.g. {_first_diff(c, bad, badw)})", "restore", k)
        if state_key(tg, c["after_tune"]) != state_key(tg, c["after"]):
            add("C15:tune-moves-parameters", f"iteration {k + 1}: tune() changed parameter values", "restore", k)
        prev = c["after_tune"]
        # 4. proposal + Hastings term
        _check_proposal(add, run, info, c, k, d, lay)
        # 5. logger row + carried density
        pi_a = pi_p if acc else pi_b
        d["pi_after"] = pi_a
        if (k + 1) % spec["log_every"] == 0:
            _check_row(add, tg, rows.get(k + 1), c["after"], pi_a, k + 1, k)
        elif (k + 1) in rows:
            add("C15:logger-extra-row", f"row for sample {k + 1} although every = {spec['log_every']}", "logger", k)
        pr = run["printed"].get(k + 1)
        if pr is not None and math.isfinite(pi_a):
            d["printed"] = pr
            if abs(pr - pi_a) > 0.00051 + 1e-9 * abs(pi_a):
                add("C15:carried-log-joint-is-not-target", f"iteration {k + 1}: MCMC.run carries log_joint "
                    f"{pr:.3f} but the target at the current state, from scratch, is {pi_a!r}", "carried", k)
        # 6. tuning
        sb, sa = c["state_before"], c["state_after"]
        if (sa["acc"], sa["rej"]) != (sb["acc"] + (1 if acc else 0), sb["rej"] + (0 if acc else 1)):
            add(f"C15:counters:{kind}", f"iteration {k + 1}: accept/reject counters {sb['acc']},{sb['rej']} -> "
                f"{sa['acc']},{sa['rej']} after a move that was {c['decision']}ed", "tuning", k)
        tuned = info["adapt"] or bool(sb["adaptors"])
        if not tuned:
            if sa["field"] != sb["field"]:
                add(f"C15:tuned-although-disabled:{kind}", f"iteration {k + 1}: adaptation disabled but "
                    f"{c['op_id']} field {sb['field']!r} -> {sa['field']!r}", "tuning", k)
        else:
            dual = any(a["type"] == "DualAveragingStepSize" for a in sb["adaptors"])
            tgt = sb["adaptors"][0].get("target", info["target"]) if sb["adaptors"] else info["target"]
            s0, s1 = spread(kind, sb["field"]), spread(kind, sa["field"])
            d["spread"] = (s0, s1)
            rate = bool(sb["adaptors"]) and sb["adaptors"][0].get("use_rate")
            if rate:
                # the adaptor is driven by the operator's own acceptance rate: accepted moves of THIS operator over
                # the number of times THIS operator was used (both counted by the adaptor, after this move)
                a1 = sa["adaptors"][0]
                r1 = a1["accepted"] / a1["call_counter"] if a1["call_counter"] else float("nan")
                d["rate"] = r1
                if (a1["accepted"], a1["call_counter"]) != (sb["adaptors"][0]["accepted"] + (1 if acc else 0),
                                                            sb["adaptors"][0]["call_counter"] + 1):
                    add(f"C15:adaptor-counters:{kind}", f"iteration {k + 1}: the adaptor's counters went "
                        f"{sb['adaptors'][0]['accepted']}/{sb['adaptors'][0]['call_counter']} -> {a1['accepted']}/"
                        f"{a1['call_counter']} after a move that was {c['decision']}ed", "tuning", k)
                if r1 > tgt and s1 < s0 * (1 - 1e-12):
                    add(f"C15:tuning-direction:{kind}:acceptance-rate",
                        f"iteration {k + 1} ({c['op_id']}): the operator's acceptance rate {a1['accepted']}/"
                        f"{a1['call_counter']} = {r1:.4g} is above the target {tgt} but the step size went "
                        f"{sb['field']!r} -> {sa['field']!r} (more timid)", "tuning", k)
                if r1 < tgt and s1 > s0 * (1 + 1e-12):
                    add(f"C15:tuning-direction:{kind}:acceptance-rate",
                        f"iteration {k + 1} ({c['op_id']}): the operator's acceptance rate {a1['accepted']}/"
                        f"{a1['call_counter']} = {r1:.4g} is below the target {tgt} but the step size went "
                        f"{sb['field']!r} -> {sa['field']!r} (bolder)", "tuning", k)
            elif not dual and math.isfinite(c["ap"]):
                if c["ap"] > tgt and s1 < s0 * (1 - 1e-12):
                    add(f"C15:tuning-direction:{kind}",
                        f"iteration {k + 1} ({c['op_id']}): acceptance probability {c['ap']:.4g} above target {tgt} "
                        f"but tune() changed {('the concentration scaler' if kind == 'DirichletOperator' else 'the tuned field')} "
                        f"{sb['field']!r} -> {sa['field']!r}: proposal spread {s0:.6g} -> {s1:.6g} (more timid)",
                        "tuning", k)
                # (the block operator tunes v with scaler = 1 + v^2: the re-parameterisation is monotone only for
                #  v >= 0, the hypothesis of tuning_direction_below; a step that takes v below 0 — possible only right
                #  at the documented special value scaler = 1 — is outside the clause)
                crosses = kind.startswith("GMRF") and \
                    math.sqrt(max(sb["field"] - 1.0, 0.0)) + (c["ap"] - tgt) / (2 + sb["count"]) < 0.0
                if c["ap"] < tgt and s1 > s0 * (1 + 1e-12) and not crosses:
                    add(f"C15:tuning-direction:{kind}",
                        f"iteration {k + 1} ({c['op_id']}): acceptance probability {c['ap']:.4g} below target {tgt} "
                        f"but tune() changed the tuned field {sb['field']!r} -> {sa['field']!r}: proposal spread "
                        f"{s0:.6g} -> {s1:.6g} (bolder)", "tuning", k)
    return F, derived


def _ulps(xs, ys):
    """largest distance in units in the last place between two float lists (None: not comparable)"""
    m = 0
    for a, b in zip(xs, ys):
        if a != b:
            if not (math.isfinite(a) and math.isfinite(b)) or b == 0:
                return None
            m = max(m, round(abs(a - b) / math.ulp(b)))
    return m


def _first_diff(c, bad, badw):
    for pid in bad:
        for i, (a, b) in enumerate(zip(c["after"][pid], c["before"][pid])):
            if a.hex() != b.hex():
                return f"{pid}[{i}] {b!r} -> {a!r}"
    for pid in badw:
        for i, (a, b) in enumerate(zip(c["wafter"][pid], c["wbefore"][pid])):
            if a.hex() != b.hex():
                return f"{pid}[{i}] {b!r} -> {a!r}"
    return "?"


def _check_row(add, tg, rows, state, pi, sample, k):
    """every row written for this sample must be the current state with the target at it"""
    if not rows:
        add("C15:logger-row-missing", f"no logger row for sample {sample}", "logger", k)
        return
    vals = flatten(tg, state)
    for row in rows:
        if len(row) != 1 + len(vals) or bits(row[1:]) != bits(vals):
            add("C15:logger-row-parameters", f"logger row {sample}: logged parameter values differ from the "
                f"state of the chain after iteration {sample}", "logger", k)
        elif not close(row[0], pi, 1e-9, 1e-9):
            add("C15:logger-row-density", f"logger row {sample}: logged density {row[0]!r} but the target at the "
                f"logged parameter values, from scratch, is {pi!r}", "logger", k)


def _check_proposal(add, run, info, c, k, d, lay):
    """operator-specific: the proposal is what the draws say, the Hastings term is the log ratio of
    reverse to forward proposal density"""
    tg = run["target"]
    kind = c["kind"]
    fb, fp = flatten(tg, c["before"]), flatten(tg, c["proposed"])
    slots = op_slots(run, info)
    d["slots"] = slots
    mine = {p for s in slots for p in s}
    outside = [i for i in range(len(fb)) if i not in mine and fb[i].hex() != fp[i].hex()]
    if outside:
        add(f"C15:proposal-touches-foreign-parameters:{kind}", f"iteration {k + 1}: {c['op_id']} changed flat "
            f"entries {outside} that are not among its parameters", "proposal", k)
    h = c["hastings"]
    field = c["state_before"]["field"]
    if kind in ("ScalerOperator", "SlidingWindowOperator"):
        rands = [x[1] for x in c["draws"] if x[0] == "rand"]
        ints = [x[1] for x in c["draws"] if x[0] == "randint"]
        through_transform = "TransformedParameter" in info["param_classes"]
        if len(rands) != 1 or len(ints) != 2:
            add(f"C15:protocol:proposal-draws:{kind}", f"iteration {k + 1}: draws {c['draws']}", "proposal", k)
            d["skip"] = True
            return
        u, i, j = rands[0][0], ints[0][0], ints[1][0]
        d.update(u_prop=u, i=i, j=j)
        if through_transform:
            d["skip"] = True     # the entry moved is a transformed value; covered on the records only
        pos = slots[i][j]
        exp = list(fb)
        if kind == "ScalerOperator":
            s = field + u * (1.0 / field - field)
            want_h = -math.log(s)
            if not through_transform:
                exp[pos] = fb[pos] * s
        else:
            want_h = 0.0
            if not through_transform:
                exp[pos] = fb[pos] + field * (u - 0.5)
        if not through_transform and any(not close(a, b, 1e-12, 1e-15) for a, b in zip(exp, fp)):
            add(f"C15:proposal:{kind}", f"iteration {k + 1} ({c['op_id']}): proposed state is not the stated "
                f"move of entry {pos} (draw {u!r}, field {field!r})", "proposal", k)
        if not close(h, want_h, 1e-10, 1e-12):
            add(f"C15:hastings:{kind}",
                f"iteration {k + 1} ({c['op_id']}): Hastings term {h!r} but ln(q(x|x')/q(x'|x)) = {want_h!r}"
                + (f" (= -ln s, s = {field + u * (1.0 / field - field)!r})" if kind == "ScalerOperator" else ""),
                "hastings", k)
    elif kind == "DirichletOperator":
        pid = info["params"][0]
        if pid in c["before"]:
            xb, xp = c["before"][pid], c["proposed"][pid]
        else:       # the operator's parameter is a view: read its entries from the watched values / slots
            xb, xp = [fb[i] for i in slots[0]], [fp[i] for i in slots[0]]
        b, f = dirichlet_terms(xb, xp, field)
        d.update(h1=b, h2=f)
        if math.isfinite(b) and math.isfinite(f):
            if not close(h, b - f, 1e-9, 1e-9):
                add(f"C15:hastings:{kind}", f"iteration {k + 1} ({c['op_id']}): Hastings term {h!r} but "
                    f"ln Dir(x | c x') - ln Dir(x' | c x) = {b - f!r}", "hastings", k)
            if abs(sum(xp) - 1.0) > 1e-9 or min(xp) < 0:
                add(f"C15:proposal:{kind}", f"iteration {k + 1}: Dirichlet proposal not on the simplex", "proposal", k)
        else:
            d["skip"] = True
    elif kind == "HMCOperator":
        if math.isfinite(h):
            if len(c["kin"]) < 2:
                add("C15:protocol:hmc-kinetic", f"iteration {k + 1}: kinetic energy evaluated {len(c['kin'])} times",
                    "hastings", k)
                d["skip"] = True
            else:
                k0, k1 = c["kin"][-2], c["kin"][-1]
                d.update(h1=k0, h2=k1)
                if not close(h, k0 - k1, 1e-12, 1e-12):
                    add("C15:hastings:HMCOperator", f"iteration {k + 1} ({c['op_id']}): Hastings term {h!r} but "
                        f"K0 - K1 = {k0 - k1!r}", "hastings", k)
                kd, kr = c.get("k_drawn", []), c.get("k_returned", [])
                d["hmc_trials"] = len(kd)
                if kd and kr and math.isfinite(kd[-1]) and math.isfinite(kr[-1]) and \
                        not close(h, kd[-1] - kr[-1], 1e-8, 1e-9):
                    add("C15:hastings:HMCOperator:momentum-of-the-trajectory",
                        f"iteration {k + 1} ({c['op_id']}): Hastings term {h!r} but the trajectory that was kept started "
                        f"with the momentum drawn last ({len(kd)} drawn, {len(kd) - 1} trajectories discarded) and "
                        f"K(drawn) - K(returned) = {kd[-1] - kr[-1]!r}", "hastings", k)
                kt = c.get("kin_true", [])
                if len(kt) >= 2 and math.isfinite(kt[-2]) and math.isfinite(kt[-1]) and \
                        not close(h, kt[-2] - kt[-1], 1e-8, 1e-9):
                    add("C15:hastings:HMCOperator:mass-matrix",
                        f"iteration {k + 1} ({c['op_id']}): Hastings term {h!r} but with the mass matrix the momentum "
                        f"was drawn from, p0^T M^-1 p0 / 2 - p1^T M^-1 p1 / 2 = {kt[-2] - kt[-1]!r}", "hastings", k)
        else:
            d.update(h1=0.0, h2=0.0)
    elif kind.startswith("GMRF"):
        ref = block_reference(run, info, c)
        d["block"] = ref
        if "mult" in ref and not close(ref["tau1"], ref["mult"] * ref["tau0"], 1e-9, 1e-12):
            add("C15:proposal:block-precision", f"iteration {k + 1}: proposed precision {ref['tau1']!r} is not "
                f"multiplier {ref['mult']!r} (from the recorded uniforms) x {ref['tau0']!r}", "proposal", k)
        if math.isfinite(h):
            if "lqf" not in ref:
                d["skip"] = True
            else:
                d.update(h1=ref["lqb"], h2=ref["lqf"])
                if ref["zz"] is not None and not close(ref["quad_f"], ref["zz"], 1e-6, 1e-8):
                    add("C15:proposal:block-field", f"iteration {k + 1}: proposed field is not mu + U^-1 z: "
                        f"(x-mu)^T Q (x-mu) = {ref['quad_f']!r} vs z.z = {ref['zz']!r}", "proposal", k)
                if not close(h, ref["lqb"] - ref["lqf"], 1e-6, 1e-7):
                    add("C15:hastings:block", f"iteration {k + 1} ({c['op_id']}): Hastings term {h!r} but the log "
                        f"ratio of backward to forward Gaussian proposal density is {ref['lqb'] - ref['lqf']!r}",
                        "hastings", k)
        else:
            d.update(h1=0.0, h2=0.0)


# =============================================================================== Coq side

HEADER = ("From Coq Require Import QArith ZArith List. Import ListNotations.\n"
          "From Bignums Require Import BigZ.\n"
          "From TT Require Import Num NumI Tree G_tuning M_mcmc.\n"
          "Definition sx (e : ext I.type) : list bigZ := match e with Fin x => show_i x | NonFin => "
          "[2;0;0;2;0;0]%bigZ end.\n"
          "Definition nz (n : nat) : list bigZ := [3; BigZ.of_Z (Z.of_nat n); 0; 3; 0; 0]%bigZ.\n"
          "Definition c0 (_ : list I.type) : ext I.type := NonFin.\n"
          "Definition replay1 (b : bool) (cfg : opcfg I.type) (x : list I.type) (lj : I.type) (os : opstate I.type) "
          "(d : draws I.type) : list bigZ :=\n"
          "  match step NumI (fun _ _ => b) (cfg :: nil) (mkChain x lj (os :: nil)) d with\n"
          "  | (st, r) => concat (map show_i (r_prop r)) ++ sx (r_hast r) ++ show_i (r_ap r) ++ "
          "concat (map show_i (c_x st)) ++ show_i (c_lj st) ++ show_i (o_field (r_op_after r)) ++ "
          "show_i (o_aux (r_op_after r)) ++ nz (o_count (r_op_after r)) ++ nz (o_acc (r_op_after r)) ++ "
          "nz (o_rej (r_op_after r)) ++ sx (r_logp r)\n  end.\n"
          "Definition replayN (bs : list bool) (cfgs : list (opcfg I.type)) (st : chain I.type) "
          "(ds : list (draws I.type)) : list bigZ :=\n"
          "  (fix go (bs : list bool) (st : chain I.type) (ds : list (draws I.type)) : list bigZ :=\n"
          "     match bs, ds with\n"
          "     | b :: bs', d :: ds' => match step NumI (fun _ _ => b) cfgs st d with (st', r) => "
          "show_i (c_lj st') ++ show_i (r_ap r) ++ go bs' st' ds' end\n"
          "     | _, _ => concat (map show_i (c_x st)) ++ concat (map (fun o => show_i (o_field o)) (c_ops st))\n"
          "     end) bs st ds.\n")

KIND = {"ScalerOperator": "KScaler", "SlidingWindowOperator": "KSliding", "DirichletOperator": "KDirichlet",
        "GMRFPiecewiseCoalescentBlockUpdatingOperator": "KBlock", "HMCOperator": "KHmc"}


def iq(x):
    return f"(ofQ NumI {C.qlit(x)})"


def cl(items, elem=str):
    """Coq list in cons form: in bigZ_scope `[x]` is the notation for BigZ.to_Z x"""
    return "(" + " :: ".join([elem(i) for i in items] + ["nil"]) + ")"


def ilist(xs):
    return cl(xs, iq)


def coq_tuner(info, st):
    if st["adaptors"]:
        a = st["adaptors"][0]
        if a["type"] == "AdaptiveStepSize":
            if a.get("use_rate") or a.get("start", 1) > 1 or math.isfinite(a.get("end", math.inf)):
                return None
            return f"(TAdaptive {iq(a['target'])})"
        if a["type"] == "DualAveragingStepSize":
            if a.get("start", 0) > 1 or math.isfinite(a.get("end", math.inf)):
                return None
            return f"(TDual {iq(a['delta'])} {iq(a['t0'])} {iq(a['mu'])} {iq(a['gamma'])})"
        return None
    return "TBase" if info["adapt"] else "TOff"


def coq_cfg(info, st, slots):
    t = coq_tuner(info, st)
    if t is None:
        return None
    sl = cl(slots, lambda s: cl(s, C.natlit))
    return f"(mkCfg {KIND[info['kind']]} {iq(info['target'])} {t} {sl})"


def coq_opstate(st):
    if st["adaptors"]:
        a = st["adaptors"][0]
        return (f"(mkOp {iq(st['field'])} {iq(a.get('s_bar', 0.0))} {C.natlit(a['call_counter'])} "
                f"{C.natlit(st['acc'])} {C.natlit(st['rej'])})")
    return f"(mkOp {iq(st['field'])} {iq(0.0)} {C.natlit(st['count'])} {C.natlit(st['acc'])} {C.natlit(st['rej'])})"


def coq_draws(opi, c, d, slots, tg, evs):
    """evs = (density at the proposed state, density logged after the move): finite float or None"""
    oracle = c["kind"] in ("DirichletOperator", "HMCOperator", "GMRFPiecewiseCoalescentBlockUpdatingOperator")
    fp = flatten(tg, c["proposed"])
    prop = [fp[p] for s in slots for p in s] if oracle else []
    ev = lambda v: "c0" if v is None else f"(fun _ => Fin {iq(v)})"
    u = d.get("u", 0.5)
    return (f"(mkDraws {C.natlit(opi)} {iq(d.get('u_prop', 0.0))} {C.natlit(d.get('i', 0))} {C.natlit(d.get('j', 0))} "
            f"{ilist(prop)} {iq(d.get('h1', 0.0))} {iq(d.get('h2', 0.0))} "
            f"{'true' if math.isfinite(c['hastings']) else 'false'} {ev(evs[0])} {iq(u)} {ev(evs[1])})")


def fin(v):
    return v if (v is not None and math.isfinite(v)) else None


def extreme(c, d):
    """The model's log acceptance ratio is below -700 (exp underflows in double precision; the exact
    model value 2^(-huge) would make every later interval operation align mantissas over that
    exponent range and exhaust memory), or absurdly large values.  Computed from what the MODEL will
    see (oracle Hastings terms h1 - h2, densities from scratch), not from the implementation's
    outputs.  Such records are checked on the implementation side only."""
    if c["kind"] in ("ScalerOperator", "SlidingWindowOperator"):
        h = c["hastings"] if math.isfinite(c["hastings"]) else 0.0
        h = max(min(h, 50.0), -50.0)      # the model recomputes -ln s, s within (scaler, 1/scaler)
    else:
        h = d.get("h1", 0.0) - d.get("h2", 0.0)
    vals = [h, d.get("h1", 0.0), d.get("h2", 0.0)] + [v for vs in c["proposed"].values() for v in vs]
    if any((not math.isfinite(v)) or abs(v) > 1e100 for v in vals):
        return True
    if math.isfinite(d["pi_prop"]) and math.isfinite(d["pi_before"]):
        if (d["pi_prop"] - d["pi_before"]) + h < -700.0:
            return True
    return False


def record_case(run, k, c, d):
    """Coq expression replaying record k through `step` (single-operator configuration)."""
    tg = run["target"]
    info = run["ops"][c["op"]]
    cfg = coq_cfg(info, c["state_before"], d["slots"])
    if cfg is None or d["skip"] or not math.isfinite(d["pi_before"]) or extreme(c, d):
        return None
    b = "true" if c["decision"] == "accept" else "false"
    return (f"replay1 {b} {cfg} {ilist(flatten(tg, c['before']))} {iq(d['pi_before'])} "
            f"{coq_opstate(c['state_before'])} {coq_draws(0, c, d, d['slots'], tg, (fin(d['pi_prop']), fin(d['pi_after'])))}")


def chain_case(run, derived, n):
    """Coq expression replaying the first n iterations of a run through the model, state threaded
    by the model itself (full operator mixture, recorded schedule)."""
    tg = run["target"]
    recs = run["records"][:n]
    cfgs, ops = [], []
    for info in run["ops"]:
        cf = coq_cfg(info, info["state"], op_slots(run, info))
        if cf is None:
            return None
        cfgs.append(cf)
        ops.append(coq_opstate(info["state"]))
    ds, bs = [], []
    for c, d in zip(recs, derived):
        if d["skip"] or not math.isfinite(d["pi_before"]) or extreme(c, d):
            return None
        ds.append(coq_draws(c["op"], c, d, d["slots"], tg, (fin(d["pi_prop"]), fin(d["pi_after"]))))
        bs.append("true" if c["decision"] == "accept" else "false")
    pi0 = derived[0]["pi_before"]
    return (f"replayN {cl(bs)} {cl(cfgs)} (mkChain {ilist(flatten(tg, run['init_state']))} {iq(pi0)} "
            f"{cl(ops)}) {cl(ds)}")


def ivs(flat6):
    return [flat6[i:i + 6] for i in range(0, len(flat6), 6)]


def inside(x, iv6, rtol, atol):
    """float x against the model enclosure [lo,hi] -> True / False / None (model undefined)"""
    fr = C.ival_to_fracs(iv6)
    if fr is None:
        return None
    lo, hi = fr
    fx = Fraction(x)
    tol = Fraction(atol) + Fraction(rtol) * max(abs(lo), abs(hi))
    return lo - tol <= fx <= hi + tol


OBL_SRC = """From Coq Require Import QArith Reals Lra.
From TT Require Import Num NumR G_tuning M_mcmc P_mcmc.
Open Scope R_scope.
(* the two facts about the REGENERATED Dirichlet getter / setter that make
   tuning_direction_dirichlet_code (prop/C15.v) unconditional *)
Lemma dirichlet_code_mono : forall v1 v2, v1 <= v2 ->
  / DirichletOperator_set NumR v1 <= / DirichletOperator_set NumR v2.
Proof. dirichlet_mono_tac. Qed.
Lemma dirichlet_code_id : forall s, 0 < s -> DirichletOperator_set NumR (DirichletOperator_get NumR s) = s.
Proof. dirichlet_id_tac. Qed.
Definition tuning_direction_dirichlet_code_closed :=
  tuning_direction_dirichlet_code_l dirichlet_code_mono dirichlet_code_id.
Print Assumptions tuning_direction_dirichlet_code_closed.
"""
REF_SRC = """From Coq Require Import QArith Reals Lra.
From Interval Require Import Tactic.
From TT Require Import Num NumR G_tuning M_mcmc P_mcmc.
Open Scope R_scope.
(* refutation over the regenerated expressions: a state with acceptance above target after which
   the inverse concentration is strictly smaller *)
Lemma dirichlet_code_refuted : exists s ap tgt n, 0 < s /\\ tgt < ap /\\
  / DirichletOperator_set NumR (MCMCOperator_tune NumR (DirichletOperator_get NumR s) ap tgt n) < / s.
Proof.
  exists 1, 1, 0, 0%nat. split; [lra|]. split; [lra|].
  unfold DirichletOperator_set, DirichletOperator_get, MCMCOperator_tune, ofNat;
  cbn [nexp nln opp div mul sub add ofQ NumR]. unfold Q2R; cbn [Qnum Qden inject_Z Z.of_nat].
  interval.
Qed.
"""


def dirichlet_obligation():
    """-> (discharged, refuted, log)"""
    work = os.path.join(C.WORKROOT, PID, "obl")
    os.makedirs(work, exist_ok=True)
    res = {}
    for name, src in (("Dirichlet_direction", OBL_SRC), ("Dirichlet_refuted", REF_SRC)):
        fn = os.path.join(work, name + ".v")
        with open(fn, "w") as f:
            f.write(src)
        rc, out, _ = C.sh(["coqc"] + C.COQFLAGS + [fn], cwd=C.COQ, timeout=300)
        res[name] = (rc == 0, out[-1500:])
    return res["Dirichlet_direction"][0], res["Dirichlet_refuted"][0], res["Dirichlet_direction"][1]


# =============================================================================== driver

def sync():
    try:
        txt, units = t3_tuning.translate(C.REPO)
    except t3_tuning.TranslateError as e:
        return False, f"T3 translator: {e}"
    with C.CoqLock():
        C.write_if_changed(os.path.join(C.COQ, "gen", "G_tuning.v"), txt)
    return True, units


def momentum_distribution_findings(seed, tier):
    """The Hastings term of the HMC operator (difference of kinetic energies p^T M^-1 p / 2) is the log ratio of the
    densities of the momenta only if the momentum is drawn from N(0, M).  N draws through the public
    Hamiltonian.sample_momentum for diagonal and DENSE mass matrices (strongly correlated ones): mean and every entry
    of the sample covariance within 6 standard errors of 0 and M (Var S_ij = (M_ii M_jj + M_ij^2) / N; a false alarm
    has probability below 1e-7 per run).  -> ([finding], number of draws)"""
    torch = impl.load()
    from torchtree.core.utils import process_object
    torch.manual_seed(seed + 101)
    N = 4000 if tier == "quick" else 40000
    found = []
    dic = {}
    for o in ({"id": "y", "type": "Parameter", "tensor": [0.0, 0.0]},
              {"id": "d", "type": "Distribution", "distribution": "torch.distributions.Normal", "x": "y",
               "parameters": {"loc": [0.0, 0.0], "scale": [1.0, 1.0]}},
              {"id": "joint", "type": "JointDistributionModel", "distributions": ["d"]},
              {"id": "ham", "type": "Hamiltonian", "joint": "joint"}):
        process_object(o, dic)
    ham = dic["ham"]
    for tag, M in (("diagonal", torch.tensor([4.0, 0.25])),
                   ("dense", torch.tensor([[4.0, 1.9], [1.9, 1.0]])),
                   ("dense", torch.tensor([[0.5, -0.6], [-0.6, 2.0]]))):
        try:
            ps = torch.stack([ham.sample_momentum(M).detach().reshape(-1) for _ in range(N)])
        except Exception as e:      # noqa
            found.append((f"C15:momentum:{tag}:raises:{type(e).__name__}", f"{type(e).__name__}: {str(e)[:160]}", dict(M=M.tolist())))
            continue
        Mf = torch.diag(M) if M.dim() == 1 else M
        mean = ps.mean(0)
        S = (ps.t() @ ps) / N
        bad = None
        for i in range(2):
            if abs(float(mean[i])) > 6 * math.sqrt(float(Mf[i, i]) / N):
                bad = f"mean of coordinate {i} = {float(mean[i]):.4g} over {N} draws"
            for j in range(2):
                se = math.sqrt((float(Mf[i, i]) * float(Mf[j, j]) + float(Mf[i, j]) ** 2) / N)
                if abs(float(S[i, j]) - float(Mf[i, j])) > 6 * se:
                    bad = (f"second moment ({i},{j}) = {float(S[i, j]):.4g} over {N} draws, the mass matrix has "
                           f"{float(Mf[i, j]):.4g} (standard error {se:.2g})")
        if bad:
            found.append((f"C15:momentum-is-not-drawn-from-the-mass-matrix:{tag}",
                          f"Hamiltonian.sample_momentum with the {tag} mass matrix {M.tolist()}: {bad}",
                          dict(mass_matrix=M.tolist(), draws=N, torch_seed=seed + 101)))
    return found, 3 * N


def run(tier, seed, replay=None):
    rep = C.Report(PID, tier, seed)
    rep.trusted = C.COMMON_TRUSTED + [
        "translator T3 (harness/translate/t3_tuning.py, python ast, fail-closed) for the tuning arithmetic",
        "hand-written model model/M_mcmc.v of MCMC.run / operator.step / accept / reject (tied by replaying "
        "reconstructed transition records through `step` at the interval instance)",
        "recorder in harness/props/c15.py (wraps operator.step/accept/reject/tune, the joint handed to MCMC, "
        "torch.rand/randint/randn, Hamiltonian.kinetic_energy); densities 'from scratch' = process_object on a "
        "deep copy of the JSON specification + one evaluation",
        "oracles, not verified: torch RNG and Dirichlet / normal samplers, torch.distributions log_prob, "
        "Cholesky / solve kernels, the leapfrog trajectory (C16), Newton iteration of the block operator "
        "(re-run independently by the harness from the stated gradient / Hessian)",
        "Paramcoq free theorem + Interval library (kernel-checked)"]
    rep.assumptions = ["each evaluation of the joint model returns the target at the current parameter values "
                       "(hypothesis `faithful` of the theorems; checked on every recorded transition by "
                       "re-evaluation from scratch)"]
    specs = plan(tier, seed)
    if replay:
        rp = json.load(open(replay)).get("replay", {})
        if isinstance(rp, dict) and "spec" in rp:
            specs = [rp["spec"]]
    workdir = os.path.join(C.WORKROOT, PID, "runs")

    # ---- implementation runs + property on the records (always on) ----------------------------
    state = dict(runs=[], findings=[], derived=[])
    done = threading.Event()

    def impl_phase():
        t0 = time.time()
        try:
            impl.load().set_num_threads(1)
            for ri, spec in enumerate(specs):
                run_ = run_recorded(spec, workdir, str(ri))
                state["runs"].append(run_)
            rep.timings["impl_runs"] = round(time.time() - t0, 2)
            t1 = time.time()
            for ri, run_ in enumerate(state["runs"]):
                fresh = Fresh(run_["target"])
                F, derived = check_run(ri, run_, fresh)
                state["findings"] += F
                state["derived"].append(derived)
                run_["fresh_evals"] = fresh.evals
            rep.timings["property_on_records"] = round(time.time() - t1, 2)
        except Exception as e:  # noqa
            import traceback
            state["crash"] = traceback.format_exc()
        finally:
            done.set()

    def search():
        done.wait()
        seen, out = set(), []
        for f in state["findings"]:
            if f.key not in seen:
                seen.add(f.key)
                out.append((f.key, f.what, f.replay))
        return out

    ok_sync, info = sync()
    units = []
    pstate = {}

    def proof_phase():
        # runs beside the implementation phase (MCMC.run installs signal handlers, so the
        # implementation must stay in the main thread); search() waits for the records
        try:
            if not ok_sync:
                rep.proof = dict(obligations=1, discharged=0, axioms={}, theorems=["T3 translation"], ok=False)
                C.log(f"[{PID}] sync: {info}")
                fs = search()
                for f in fs:
                    rep.violation(*f)
                if not fs:
                    rep.violation("C15:translator-failed", info, dict(error=info), False)
                pstate["proved"] = False
            else:
                pstate["proved"] = C.handle_proof(rep, PID, search)
        except Exception:  # noqa
            import traceback
            pstate["crash"] = traceback.format_exc()

    th = threading.Thread(target=proof_phase)
    th.start()
    impl_phase()
    th.join()
    if ok_sync:
        units = info
    if "crash" in state:
        raise RuntimeError("harness error in the implementation phase:\n" + state["crash"])
    if "crash" in pstate:
        raise RuntimeError("harness error in the proof phase:\n" + pstate["crash"])
    proved = pstate["proved"]
    for f in search():
        rep.violation(*f)
    mom_fs, n_mom = momentum_distribution_findings(seed, tier)
    for f in mom_fs:
        rep.violation(*f)

    # ---- obligation about the regenerated Dirichlet re-parameterisation -------------------------
    if proved:
        t0 = time.time()
        ok_obl, refuted, obl_log = dirichlet_obligation()
        rep.timings["dirichlet_obligation"] = round(time.time() - t0, 2)
        rep.proof["obligations"] += 1
        rep.proof["theorems"] = list(rep.proof["theorems"]) + ["tuning_direction_dirichlet_code_closed (per-run obligation)"]
        rep.extra["dirichlet_code_obligation"] = dict(discharged=ok_obl, refuted_in_coq=refuted)
        if ok_obl:
            rep.proof["discharged"] += 1
        else:
            obs = [f for f in state["findings"] if f.key == "C15:tuning-direction:DirichletOperator"]
            if obs:
                f = obs[0]
                rep.violation(f.key, f.what + ("; the regenerated get/set expressions are refuted in Coq "
                                               "(Dirichlet_refuted.v)" if refuted else ""), f.replay)
            else:
                rep.violation("C15:proof-broken:dirichlet-code-obligation",
                              "the tuning-direction obligation over the regenerated DirichletOperator getter/setter "
                              "no longer checks" + (" and its refutation does" if refuted else ""),
                              dict(broken="_work/C15/obl/Dirichlet_direction.v", log=obl_log), False)

    # ---- correspondence: every record replayed through the model -------------------------------
    t0 = time.time()
    exprs, index = [], []
    skipped = {}
    for ri, (run_, derived) in enumerate(zip(state["runs"], state["derived"])):
        for k, (c, d) in enumerate(zip(run_["records"], derived)):
            e = record_case(run_, k, c, d)
            if e is None:
                key = c["kind"] + (":through-transform-or-degenerate" if d.get("skip") else
                                   ":acceptance-underflows" if extreme(c, d) else ":tuner-not-modelled")
                skipped[key] = skipped.get(key, 0) + 1
                continue
            exprs.append(e)
            index.append(("rec", ri, k))
        n = min(len(run_["records"]), 40 if tier == "quick" else 150)
        if n and len(derived) >= n:
            e = chain_case(run_, derived, n)
            if e is not None:
                exprs.append(e)
                index.append(("chain", ri, n))
    res = []
    if proved and exprs:
        # backstop: no case file may take the machine down (limit inherited by the coqc children)
        import resource
        soft0, hard0 = resource.getrlimit(resource.RLIMIT_AS)
        try:
            resource.setrlimit(resource.RLIMIT_AS, (10 * 2 ** 30, hard0))
        except (ValueError, OSError):
            pass
        try:
            try:
                res = C.run_cases(PID, HEADER, exprs, shard=max(8, len(exprs) // 32 + 1), timeout=1200)
            except RuntimeError as e:
                if "Error" in str(e):
                    raise
                # coqc died without a Coq error (killed: machine shared with other checks): once more, gently
                C.log(f"[{PID}] model evaluation interrupted ({str(e)[:80]}...), retrying with 4 workers")
                res = C.run_cases(PID, HEADER, exprs, shard=max(8, len(exprs) // 32 + 1), timeout=2400, workers=4)
        except RuntimeError as e:
            rep.violation("C15:model-eval-failed", str(e)[:300], dict(error=str(e)[-2000:]), False)
            res = []
        finally:
            try:
                resource.setrlimit(resource.RLIMIT_AS, (soft0, hard0))
            except (ValueError, OSError):
                pass
    rep.timings["model_eval"] = round(time.time() - t0, 2)
    stats = dict(records=0, chain_replays=0, undecided_near_ties=0, model_undefined=0)
    by_rec = {}
    for f in state["findings"]:
        by_rec.setdefault((f.ri, f.rec_index), []).append(f)
    dist_ = {}
    for (what, ri, k), out in zip(index, res):
        run_ = state["runs"][ri]
        if what == "chain":
            stats["chain_replays"] += 1
            _compare_chain(rep, run_, state["derived"][ri], k, out, by_rec, ri, stats)
            continue
        c, d = run_["records"][k], state["derived"][ri][k]
        stats["records"] += 1
        tag = f"{run_['target']['name']}/{c['kind']}/{'adapt' if run_['ops'][c['op']]['adapt'] or c['state_before']['adaptors'] else 'fixed'}/{c['decision']}"
        dist_[tag] = dist_.get(tag, 0) + 1
        rep.case(dict(ri=ri, k=k, spec=run_["spec"]), nontrivial=True,
                 sample=dict(target=run_["target"]["name"], mixture=run_["spec"]["mix"], iteration=k + 1,
                             operator=c["op_id"], hastings=c["hastings"], density_proposed=d["pi_prop"],
                             density_before=d["pi_before"], u=d.get("u"), acceptance_prob=c["ap"],
                             decision=c["decision"], field=[c["state_before"]["field"], c["state_after"]["field"]]))
        _compare_record(rep, run_, ri, k, c, d, out, by_rec, stats)
    nrec = sum(len(r["records"]) for r in state["runs"])
    rep.rule = ("seeded MCMC.run histories on a gamma/normal/Dirichlet/log-normal toy posterior (views, a transformed "
                "parameter, a coupling) and on the HKY + strict clock + skygrid/GMRF posterior of data/tiny.*; operator "
                "mixtures over {scaler, scaler on an index view, sliding window, Dirichlet, HMC (base tune / "
                "AdaptiveStepSize / DualAveragingStepSize), GMRF block update, CLI sliding windows}, adaptation on and "
                "off; one case = one reconstructed transition record replayed through the Coq model `step` (plus one "
                "threaded replay of the first iterations of each run); non-trivial = every record (an operator moved "
                "a parameter and the accept test ran); distinct = distinct (run, iteration)")
    rep.extra.update(dict(
        input_distribution=dist_, runs=[dict(spec=r["spec"], transitions=len(r["records"]),
                                             accepted=sum(1 for c in r["records"] if c["decision"] == "accept"),
                                             fresh_target_evaluations=r.get("fresh_evals"),
                                             logger_rows=len(r["log_rows"]),
                                             carried_log_joint_observed=len(r["printed"])) for r in state["runs"]],
        traces_validated_against_impl=stats["records"], transitions_recorded=nrec,
        hmc_moves_kept_after_discarded_trajectories=sum(1 for ds in state["derived"] for d in ds
                                                        if d.get("hmc_trials", 0) > 1),
        chain_replays=stats["chain_replays"], undecided_near_ties=stats["undecided_near_ties"],
        model_undefined=stats["model_undefined"], records_not_replayed=skipped,
        translator_units=units))
    return rep.finish()


def _explained(by_rec, ri, k, aspects):
    return [f for f in by_rec.get((ri, k), []) if f.aspect in aspects]


def _compare_record(rep, run_, ri, k, c, d, out, by_rec, stats):
    tg = run_["target"]
    n = len(flatten(tg, c["before"]))
    v = ivs(out)
    if len(v) != 2 * n + 9:
        rep.violation("C15:model-output-shape", f"model returned {len(v)} values for a state of {n} entries",
                      dict(spec=run_["spec"], record_index=k), False)
        return
    prop, hast, ap = v[:n], v[n], v[n + 1]
    after, lj, field, aux = v[n + 2:2 * n + 2], v[2 * n + 2], v[2 * n + 3], v[2 * n + 4]
    cnt, acc, rej, logp = v[2 * n + 5], v[2 * n + 6], v[2 * n + 7], v[2 * n + 8]
    kind = c["kind"]
    diffs = []   # (field name, aspects that may explain it, text)

    def cmp(name, xs, ivl, rtol, atol, aspects):
        for i, (x, iv) in enumerate(zip(xs, ivl)):
            if not math.isfinite(x):
                continue
            r = inside(x, iv, rtol, atol)
            if r is None:
                stats["model_undefined"] += 1
            elif not r:
                fr = C.ival_to_fracs(iv)
                diffs.append((name, aspects, f"{name}[{i}]: impl {x!r} vs model {float(fr[0])!r}"))
                return

    cmp("proposed state", flatten(tg, c["proposed"]), prop, 1e-11, 1e-13, ("proposal",))
    if math.isfinite(c["hastings"]):
        if hast[0] == 2:
            diffs.append(("hastings", ("hastings",), f"impl Hastings {c['hastings']!r}, model: not finite"))
        else:
            tol = (1e-6, 1e-7) if kind.startswith("GMRF") else (1e-9, 1e-10)
            cmp("hastings", [c["hastings"]], [hast], tol[0], tol[1], ("hastings",))
    elif hast[0] != 2 and math.isinf(c["hastings"]):
        diffs.append(("hastings", ("hastings",), f"impl Hastings {c['hastings']!r}, model finite"))
    cmp("acceptance_prob", [c["ap"]], [ap], 1e-7, 1e-9, ("accept", "density", "carried", "hastings"))
    # decision against the model's acceptance probability (three-valued)
    fr = C.ival_to_fracs(ap)
    if fr is not None and "u" in d and math.isfinite(c["hastings"]) and math.isfinite(d["pi_prop"]):
        u = Fraction(d["u"])
        margin = Fraction(1, 10 ** 9) + Fraction(1, 10 ** 7) * fr[1]
        if u < fr[0] - margin:
            want = "accept"
        elif u >= fr[1] + margin:
            want = "reject"
        else:
            want = None
            stats["undecided_near_ties"] += 1
        if want and want != c["decision"]:
            diffs.append(("decision", ("accept", "density", "carried", "hastings"),
                          f"u = {d['u']!r}, model acceptance probability {float(fr[0])!r}: model {want}s, impl "
                          f"{c['decision']}ed"))
    cmp("state after", flatten(tg, c["after"]), after, 1e-11, 1e-13, ("restore", "proposal"))
    if math.isfinite(d["pi_after"]):
        cmp("carried log_joint", [d["pi_after"]], [lj], 1e-12, 1e-12, ("carried",))
        if "printed" in d:
            r = inside(d["printed"], lj, 0.0, 0.00051)
            if r is False:
                diffs.append(("carried log_joint (printed)", ("carried",),
                              f"MCMC.run prints {d['printed']!r}, model carries {float(C.ival_to_fracs(lj)[0])!r}"))
    sa = c["state_after"]
    cmp("tuned field", [sa["field"]], [field], 1e-9, 1e-12, ("tuning",))
    if sa["adaptors"] and "s_bar" in sa["adaptors"][0]:
        cmp("dual averaging s_bar", [sa["adaptors"][0]["s_bar"]], [aux], 1e-9, 1e-12, ("tuning",))
    want_cnt = sa["adaptors"][0]["call_counter"] if sa["adaptors"] else sa["count"]
    if (cnt[1], acc[1], rej[1]) != (want_cnt, sa["acc"], sa["rej"]):
        diffs.append(("counters", ("tuning",), f"impl (count, accept, reject) = {(want_cnt, sa['acc'], sa['rej'])} "
                                               f"vs model {(cnt[1], acc[1], rej[1])}"))
    names = {n_ for n_, _, _ in diffs}
    if "acceptance_prob" in names or "hastings" in names:
        # the tuned field is a function of the acceptance probability: a consequence, not a second defect
        diffs = [x for x in diffs if x[0] not in ("tuned field", "dual averaging s_bar", "decision")
                 or x[0] == "decision" and "acceptance_prob" not in names]
    if "proposed state" in names:
        diffs = [x for x in diffs if x[0] != "state after"]
    for name, aspects, text in diffs:
        ex = _explained(by_rec, ri, k, aspects)
        if ex:
            for f in ex:
                rep.violation(f.key, f.what, f.replay)
        else:
            rep.violation(f"C15:model-impl-differ:{name}:{kind}",
                          f"iteration {k + 1} of run {run_['spec']['mix']} on {tg['name']} ({c['op_id']}): {text}",
                          dict(spec=run_["spec"], record_index=k,
                               broken="correspondence M_mcmc.step vs MCMC.run transition record"), False)


def _compare_chain(rep, run_, derived, n, out, by_rec, ri, stats):
    tg = run_["target"]
    v = ivs(out)
    nx = len(flatten(tg, run_["init_state"]))
    nops = len(run_["ops"])
    if len(v) != 2 * n + nx + nops:
        rep.violation("C15:model-output-shape", f"chain replay returned {len(v)} values", dict(spec=run_["spec"]), False)
        return
    bad = None
    for k in range(n):
        c, d = run_["records"][k], derived[k]
        if math.isfinite(d["pi_after"]) and inside(d["pi_after"], v[2 * k], 1e-9, 1e-9) is False:
            bad = (k, f"carried log_joint after iteration {k + 1}: from scratch {d['pi_after']!r} vs threaded model "
                      f"{float(C.ival_to_fracs(v[2 * k])[0])!r}")
            break
        if inside(c["ap"], v[2 * k + 1], 1e-6, 1e-8) is False:
            bad = (k, f"acceptance probability at iteration {k + 1}: impl {c['ap']!r} vs threaded model "
                      f"{float(C.ival_to_fracs(v[2 * k + 1])[0])!r}")
            break
    if bad is None:
        last = run_["records"][n - 1]
        for i, (x, iv) in enumerate(zip(flatten(tg, last["after_tune"]), v[2 * n:2 * n + nx])):
            if inside(x, iv, 1e-8, 1e-10) is False:
                bad = (n - 1, f"state entry {i} after {n} iterations: impl {x!r} vs threaded model "
                              f"{float(C.ival_to_fracs(iv)[0])!r}")
                break
    if bad is None:
        fields = {}
        for c in run_["records"][:n]:
            fields[c["op"]] = c["state_after"]["field"]
        for j, info in enumerate(run_["ops"]):
            x = fields.get(j, info["state"]["field"])
            if inside(x, v[2 * n + nx + j], 1e-7, 1e-10) is False:
                bad = (None, f"tuned field of {info['id']} after {n} iterations: impl {x!r} vs threaded model "
                             f"{float(C.ival_to_fracs(v[2 * n + nx + j])[0])!r}")
                break
    if bad is not None:
        k, text = bad
        ex = [f for kk in range(n) for f in by_rec.get((ri, kk), [])]
        if ex:
            for f in ex:
                rep.violation(f.key, f.what, f.replay)
        else:
            rep.violation("C15:model-impl-differ:threaded-run",
                          f"run {run_['spec']['mix']} on {tg['name']}: {text}",
                          dict(spec=run_["spec"], record_index=k,
                               broken="correspondence M_mcmc.run vs MCMC.run"), False)
