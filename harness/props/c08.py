"""C08 — coalescent priors equal the Kingman density of their demographic function.

Hand model coq/model/M_coalescent.v (one polymorphic term per model), theorems over R in
coq/proof/P_coalescent.v, Paramcoq enclosure theorems in coq/proof/P_coalescent_param.v.  The NumI
run of the model is compared with `Distribution.log_prob(node_heights)` and with the model object
built from JSON and called; the property's consequences (order invariance, all pieces equal =
constant model, same N(t) = same density, scaling law) are evaluated directly on the implementation.
"""
import json
import math
import random
import time
from fractions import Fraction

from harness import common as C
from harness import history as H
from harness import impl

PID = "C08"
HEADER = ("From Coq Require Import QArith ZArith List. Import ListNotations.\n"
          "From TT Require Import Num NumI M_coalescent.\n")
MODELS = ["constant", "exponential", "skyride", "skygrid", "linear", "pwexp"]
CLASS = {"constant": "ConstantCoalescent", "exponential": "ExponentialCoalescent",
         "skyride": "PiecewiseConstantCoalescent", "skygrid": "PiecewiseConstantCoalescentGrid",
         "linear": "PiecewiseLinearCoalescentGrid", "pwexp": "PiecewiseExponentialCoalescentGrid"}
# batch layouts exercised per model.  single: theta [k], heights [2n-1]; thB: theta [B,k], heights
# [2n-1]; both: theta [B,k], heights [B,2n-1].  (Other mixed layouts are shape-dispatch questions,
# property C10.)
MODES = {"constant": ["single", "thB", "both"], "exponential": ["single", "thB", "both"],
         "skyride": ["single", "thB", "both"], "skygrid": ["single", "thB", "both"],
         "linear": ["single", "both"], "pwexp": ["single", "both"]}
RTOL = 1e-9


# ----------------------------------------------------------------------------- generators

def canon(x, d):
    return float(x) if d is None else round(float(x), d)


def gen_tips(rng, n, scheme):
    if scheme == "iso":
        tips = [0.0] * n
    elif scheme == "serial":
        tips = [0.0] + [round(rng.uniform(0, 4), rng.choice([1, 2, 6])) for _ in range(n - 1)]
    else:  # serial with ties
        pool = [0.0] + [round(rng.uniform(0, 4), 1) for _ in range(rng.randint(1, 3))]
        tips = [rng.choice(pool) for _ in range(n)]
        tips[rng.randrange(n)] = 0.0
    rng.shuffle(tips)
    return tips


def valid_times(tips, coals):
    """every coalescence joins two lineages that exist (tips sampled at or before it)"""
    ev = sorted([(t, 0) for t in tips] + [(c, 1) for c in coals])
    k = 0
    for _, kind in ev:
        if kind == 0:
            k += 1
        else:
            if k < 2:
                return False
            k -= 1
    return k == 1


def gen_coals(rng, tips, digits, scale):
    """valid coalescent times for the sampling times `tips`; with digits != None the times live on a
    decimal lattice, so that they tie with sampling times and with each other"""
    n = len(tips)
    st = sorted(tips)
    for _ in range(200):
        coals, cur, active, idx = [], st[0], 0, 0
        while len(coals) < n - 1:
            while idx < n and st[idx] <= cur:
                active += 1
                idx += 1
            if active < 2:
                cur = st[idx]
                continue
            nxt = cur + rng.expovariate(active * (active - 1) / 2.0 / scale)
            if idx < n and st[idx] < nxt:
                cur = st[idx]
                continue
            if digits is not None:
                nxt = round(math.ceil(nxt * 10 ** digits) / 10 ** digits, digits)
                if nxt < cur:
                    nxt = cur
            cur = nxt
            coals.append(cur)
            active -= 1
        if valid_times(tips, coals) and max(coals) > 0:
            rng.shuffle(coals)          # internal heights are supplied in arbitrary order
            return coals
    raise RuntimeError("could not generate valid coalescent times")


def gen_grid(rng, tips, coal_rows, m, style):
    allc = {c for row in coal_rows for c in row}
    root = max(allc)
    first = min(allc)
    for _ in range(200):
        if style == "inside":
            g = [rng.uniform(0, root) for _ in range(m)]
        elif style == "beyond":      # last points beyond the root
            g = [rng.uniform(0, root) for _ in range(m)]
            for j in range(rng.randint(1, m)):
                g[j] = root * rng.uniform(1.05, 2.5)
        elif style == "before":      # points before the first coalescence (and maybe one beyond the root)
            g = [first * rng.uniform(0.05, 0.95) for _ in range(m)]
            if m > 1 and rng.random() < 0.5:
                g[0] = root * rng.uniform(1.1, 2.0)
        elif style == "cutoff":      # the 'cutoff' layout: equally spaced up to a cutoff
            cutoff = root * rng.choice([0.5, 1.0, 1.5, 3.0])
            g = [cutoff * (j + 1) / m for j in range(m)]
        else:                        # "attips": grid points exactly on sampling times
            pos = sorted({t for t in tips if t > 0})
            g = [rng.uniform(0, root * 1.3) for _ in range(m)]
            for j in range(min(len(pos), m)):
                if rng.random() < 0.7:
                    g[j] = pos[j]
        g = sorted(float(x) for x in g)
        if g[0] <= 0 or any(a >= b for a, b in zip(g[:-1], g[1:])) or any(x in allc for x in g):
            continue
        return g
    return sorted(root * (j + 1.37) / (m + 0.5) for j in range(m))


def gen_theta(rng, k, variant):
    if variant == "all_equal":
        return [math.exp(rng.uniform(-2, 3))] * k
    th = [math.exp(rng.uniform(-2, 3)) for _ in range(k)]
    if variant == "flat_some" and k >= 2:
        for j in range(k - 1):
            if rng.random() < 0.5:
                th[j + 1] = th[j]
    for j in range(k - 1):   # distinct neighbours differ visibly (the closed form divides by the difference)
        if th[j] != th[j + 1] and abs(th[j] - th[j + 1]) < 0.02 * th[j]:
            th[j + 1] = th[j] * 1.1
    return th


def gen_growth(rng, k, root, zero_p):
    out = []
    for _ in range(k):
        if rng.random() < zero_p:
            out.append(0.0)
        else:
            out.append(rng.choice([-1, 1]) * rng.uniform(0.5, 3.0) / root)
    return out


def gen_case(rng, i, tier):
    model = MODELS[i % 6]
    if tier == "quick":
        n = rng.choice([2, 3, 3, 4, 4, 5, 6, 7, 8, 10, 12] + ([20, 35, 50] if i % 5 == 0 else []))
    else:
        n = rng.choice([2, 3, 4, 5, 6, 7, 8, 10, 12, 16, 20, 25, 30, 40, 50])
    scheme = rng.choice(["iso", "serial", "serial", "ties", "ties"])
    mode = rng.choice(MODES[model])
    B = 1 if mode == "single" else rng.choice([2, 3])
    tips = gen_tips(rng, n, scheme)
    digits = rng.choice([None, None, 1, 1, 2])
    scale = math.exp(rng.uniform(-1, 2))
    nrow_h = B if mode == "both" else 1
    coals = [gen_coals(rng, tips, digits, scale) for _ in range(nrow_h)]
    root = max(max(r) for r in coals)
    grid, gstyle = [], None
    if model in ("skygrid", "linear"):
        m = rng.randint(1, 6 if tier == "quick" else 10)
    elif model == "pwexp":
        m = rng.choice([0, 0, 0, 1, 2, 3])
    else:
        m = 0
    if m:
        gstyle = rng.choice(["inside", "inside", "beyond", "before", "cutoff", "attips"])
        grid = gen_grid(rng, tips, coals, m, gstyle)
    variant = rng.choice(["random", "random", "random", "all_equal", "flat_some"])
    k = {"constant": 1, "exponential": 1, "pwexp": 1, "skyride": n - 1}.get(model, m + 1)
    theta = [gen_theta(rng, k, variant) for _ in range(B)]
    growth = None
    if model == "exponential":
        growth = [gen_growth(rng, 1, root, 0.06) for _ in range(B)]
    elif model == "pwexp":
        growth = [gen_growth(rng, m + 1, root, 0.06) for _ in range(B)]
    return dict(model=model, n=n, scheme=scheme, mode=mode, B=B, tips=tips, coals=coals, grid=grid,
                grid_style=gstyle, theta=theta, growth=growth, variant=variant, digits=digits)


def corpus():
    """minimal reproductions of the defects seen on the unchanged tree + the test-suite examples"""
    z4 = [0.0] * 4
    base = dict(n=4, scheme="iso", mode="single", B=1, tips=z4, coals=[[4.0, 1.0, 2.0]], grid=[],
                grid_style=None, growth=None, variant="corpus", digits=None)
    out = [
        dict(base, model="linear", theta=[[2.0, 2.0, 5.0]], grid=[1.5, 3.0]),
        dict(base, model="pwexp", theta=[[2.0]], growth=[[0.1, 0.2, 0.3]], grid=[1.5, 3.0]),
        dict(base, model="exponential", theta=[[2.0]], growth=[[0.0]]),
        dict(base, model="pwexp", theta=[[2.0]], growth=[[0.0]]),
        dict(base, model="linear", n=8, scheme="serial", tips=[1.7, 1.74, 3.7, 3.22499, 0.0, 1.5, 2.8, 1.61],
             coals=[[4.0, 4.7, 4.8, 5.7, 7.2, 8.1, 8.6]], grid=[1.5, 1.61],
             theta=[[11.891376285194873, 18.933207559933997, 1.846555865904572]]),
        dict(base, model="constant", theta=[[3.0]], coals=[[2.0, 6.0, 12.0]]),
        dict(base, model="skyride", theta=[[3.0, 10.0, 4.0]], tips=[0.0, 1.0, 1.0, 0.0], coals=[[3.0, 2.0, 4.0]],
             scheme="ties"),
        dict(base, model="skygrid", n=5, theta=[[math.exp(v) for v in (1.0, 3.0, 6.0, 8.0, 9.0)]],
             tips=[0.0, 1.0, 2.0, 3.0, 12.0], coals=[[1.5, 4.0, 6.0, 16.0]], grid=[2.5, 5.0, 7.5, 10.0],
             scheme="serial"),
        dict(base, model="linear", theta=[[3.0, 10.0, 4.0, 2.0, 3.0]], coals=[[2.0, 6.0, 12.0]],
             grid=[2.5, 5.0, 7.5, 10.0]),
    ]
    return out


# ----------------------------------------------------------------------------- rows of a case

def row_inputs(case, r):
    coals = case["coals"][r if case["mode"] == "both" else 0]
    theta = case["theta"][r if case["mode"] != "single" else 0]
    growth = None
    if case["growth"] is not None:
        growth = case["growth"][r if case["mode"] != "single" else 0]
    return coals, theta, growth


def condition(case, r):
    """input classes on which the unchanged tree is known to violate the property"""
    coals, theta, growth = row_inputs(case, r)
    m = case["model"]
    if m == "exponential" and growth[0] == 0:
        return "growth=0"
    if m == "pwexp":
        if len(case["grid"]) >= 1:
            return "pieces>1"
        if growth[0] == 0:
            return "growth=0"
    if m == "linear":
        k = len(theta) - 1
        if any(theta[j] == theta[j + 1] and theta[j] != theta[k] for j in range(k)):
            return "flat-segment-inside-grid"
        # a sampling time exactly on grid point j+1, sloped piece before it, constant N after it: the
        # interpolated N at the tie can differ from theta_{j+1} by one ulp and the code then applies the
        # difference quotient (ln Nb - ln Na)/(Nb - Na) to two sizes one ulp apart
        g = case["grid"]
        if any(g[j] in case["tips"] and theta[j] != theta[j + 1] and (j + 1 == k or theta[j + 1] == theta[j + 2])
               for j in range(k)):
            return "sampling-time-on-grid-point-before-flat-piece"
    return None


def case_condition(case):
    for r in range(case["B"]):
        c = condition(case, r)
        if c:
            return c
    return None


def key_for(case, what):
    cond = case_condition(case)
    cls = CLASS[case["model"]]
    return f"C08:{cls}:{cond}" if cond else f"C08:{cls}:{what}"


# ----------------------------------------------------------------------------- implementation side

def _dist(torch, model, theta, growth, grid):
    from torchtree.evolution import coalescent as K
    if model == "constant":
        return K.ConstantCoalescent(theta)
    if model == "exponential":
        return K.ExponentialCoalescent(theta, growth)
    if model == "skyride":
        return K.PiecewiseConstantCoalescent(theta)
    if model == "skygrid":
        return K.PiecewiseConstantCoalescentGrid(theta, torch.tensor(grid))
    if model == "softgrid-exact":
        # the relaxed skygrid class WITHOUT a temperature is an exact skygrid with its own bookkeeping
        return K.SoftPiecewiseConstantCoalescentGrid(theta, torch.tensor(grid), None)
    if model == "linear":
        return K.PiecewiseLinearCoalescentGrid(theta, torch.tensor(grid))
    return K.PiecewiseExponentialCoalescentGrid(theta, growth, torch.tensor(grid))


def impl_dist(case, tips=None, coals=None, theta=None, growth=None, grid=None, model=None):
    """Distribution(...).log_prob(node_heights) -> list of B floats"""
    torch = impl.load()
    tips = case["tips"] if tips is None else tips
    coals = case["coals"] if coals is None else coals
    theta = case["theta"] if theta is None else theta
    growth = case["growth"] if growth is None else growth
    grid = case["grid"] if grid is None else grid
    model = model or case["model"]
    mode = case["mode"]
    nh = torch.tensor([tips + c for c in coals] if mode == "both" else tips + coals[0])
    th = torch.tensor(theta if mode != "single" else theta[0])
    gr = None if growth is None else torch.tensor(growth if mode != "single" else growth[0])
    lp = _dist(torch, model, th, gr, grid).log_prob(nh).detach()
    if lp.numel() != case["B"]:
        raise ValueError(f"log_prob returned shape {tuple(lp.shape)} for {case['B']} rows")
    return [float(v) for v in lp.reshape(-1)]


def impl_json(case):
    """the registered model built from JSON ('times'/'events' data form) and called"""
    torch = impl.load()
    from torchtree.evolution import coalescent as K
    if case["mode"] == "both":
        return None      # the JSON data form carries one vector of times
    cls = getattr(K, CLASS[case["model"]] + "Model")
    th = case["theta"] if case["mode"] != "single" else case["theta"][0]
    d = {"id": "coalescent", "type": cls.__name__, "theta": impl.param_json("theta", th),
         "times": case["tips"] + case["coals"][0], "events": [1] * case["n"] + [0] * (case["n"] - 1)}
    if case["growth"] is not None:
        d["growth"] = impl.param_json("growth", case["growth"] if case["mode"] != "single" else case["growth"][0])
    if case["model"] in ("skygrid", "linear", "pwexp"):
        d["grid"] = list(case["grid"])
    lp = cls.from_json(d, {})().detach()
    if lp.numel() != case["B"]:
        raise ValueError(f"model call returned shape {tuple(lp.shape)} for {case['B']} rows")
    return [float(v) for v in lp.reshape(-1)]


# ----------------------------------------------------------------------------- float reference (search only)

def ref_logp(model, tips, coals, theta, growth, grid):
    """Kingman density with k(t) by COUNTING, in floats; used only to locate failing inputs."""
    ts = sorted(set(tips) | set(coals) | set(grid))
    g0 = [0.0] + list(grid)
    m = len(grid)
    gle = lambda t: sum(1 for g in grid if g <= t)
    glt = lambda t: sum(1 for g in grid if g < t)
    if model == "pwexp":
        lng = [math.log(theta[0])]
        for i in range(m):
            lng.append(lng[-1] - growth[i] * (g0[i + 1] - g0[i]))

    def lin_n(t, j):
        if j >= m:
            return theta[m]
        return theta[j] + (theta[j + 1] - theta[j]) * (t - g0[j]) / (g0[j + 1] - g0[j])

    def integral(a, b):
        if model == "constant" or (model == "exponential" and growth[0] == 0):
            return (b - a) / theta[0]
        if model == "exponential":
            g = growth[0]
            return (math.exp(g * b) - math.exp(g * a)) / (theta[0] * g)
        if model == "skyride":
            return (b - a) / theta[min(sum(1 for c in coals if c <= a), len(theta) - 1)]
        if model == "skygrid":
            return (b - a) / theta[gle(a)]
        if model == "linear":
            j = gle(a)
            if j >= m or theta[j] == theta[j + 1]:
                return (b - a) / theta[j]
            na, nb = lin_n(a, j), lin_n(b, j)
            return (b - a) * (math.log(nb) - math.log(na)) / (nb - na)
        j = gle(a)
        if growth[j] == 0:
            return (b - a) / math.exp(lng[j])
        return (math.exp(growth[j] * (b - g0[j])) - math.exp(growth[j] * (a - g0[j]))) / (math.exp(lng[j]) * growth[j])

    def lnn(t):
        if model == "constant" or (model == "exponential" and growth[0] == 0):
            return math.log(theta[0])
        if model == "exponential":
            return math.log(theta[0]) - growth[0] * t
        if model == "skygrid":
            return math.log(theta[glt(t)])
        if model == "linear":
            return math.log(lin_n(t, glt(t)))
        j = glt(t)
        return lng[j] - growth[j] * (t - g0[j])

    s = 0.0
    for a, b in zip(ts[:-1], ts[1:]):
        k = sum(1 for x in tips if x <= a) - sum(1 for x in coals if x <= a)
        s -= k * (k - 1) / 2.0 * integral(a, b)
    if model == "skyride":
        return s - sum(math.log(x) for x in theta)
    return s - sum(lnn(c) for c in coals)


def ref_rows(case):
    out = []
    for r in range(case["B"]):
        coals, theta, growth = row_inputs(case, r)
        try:
            out.append(ref_logp(case["model"], case["tips"], coals, theta, growth, case["grid"]))
        except (OverflowError, ValueError, ZeroDivisionError):
            out.append(None)
    return out


# ----------------------------------------------------------------------------- model side

def coq_expr(case, r):
    coals, theta, growth = row_inputs(case, r)
    tips, cl, grid = C.qlist(case["tips"]), C.qlist(coals), C.qlist(case["grid"])
    m = case["model"]
    if m == "constant":
        e = f"constant_q NumI {C.qlit(theta[0])} {tips} {cl}"
    elif m == "exponential":
        e = f"exponential_q NumI {C.qlit(theta[0])} {C.qlit(growth[0])} {tips} {cl}"
    elif m == "skyride":
        e = f"skyride_q NumI {C.qlist(theta)} {tips} {cl}"
    elif m == "skygrid":
        e = f"skygrid_q NumI {C.qlist(theta)} {grid} {tips} {cl}"
    elif m == "linear":
        e = f"linear_q NumI {C.qlist(theta)} {grid} {tips} {cl}"
    else:
        e = f"pwexp_q NumI {C.qlit(theta[0])} {C.qlist(growth)} {grid} {tips} {cl}"
    return f"show_i ({e})"


def close(x, iv, rtol=RTOL):
    """impl value x against the enclosure iv: True / False / None (model undefined)"""
    if iv is None:
        return None
    if x is None or math.isnan(x) or math.isinf(x):
        return False
    lo, hi = iv
    tol = Fraction(rtol) * max(1, abs(lo), abs(hi))
    if not math.isfinite(x):
        return False
    return lo - tol <= Fraction(x) <= hi + tol


def fclose(a, b, rtol=RTOL):
    if a is None or b is None or math.isnan(a) or math.isnan(b) or math.isinf(a) or math.isinf(b):
        return False
    return abs(a - b) <= rtol * max(1.0, abs(a), abs(b))


# ----------------------------------------------------------------------------- property on the implementation

def short(case):
    txt = (f"{CLASS[case['model']]} n={case['n']} mode={case['mode']} tips={case['tips']} coals={case['coals']} "
           f"theta={case['theta']} growth={case['growth']} grid={case['grid']}")
    return txt if len(txt) <= 420 else txt[:420] + " ... (full case in the replay file)"


def property_on_impl(case, base, rng):
    """Consequences of the property evaluated on implementation outputs only.
    Returns a list of (what-kind, text)."""
    bad = []
    model, n = case["model"], case["n"]
    # (a) order invariance: any permutation of the supplied heights (tips among tips, internals among internals)
    for _ in range(2):
        perm_t = list(range(n))
        rng.shuffle(perm_t)
        tips2 = [case["tips"][i] for i in perm_t]
        coals2 = []
        for row in case["coals"]:
            row = list(row)
            rng.shuffle(row)
            coals2.append(row)
        try:
            v = impl_dist(case, tips=tips2, coals=coals2)
        except Exception as e:
            bad.append(("raises", f"permuted heights: {type(e).__name__}: {str(e)[:120]}"))
            break
        if not all(fclose(a, b) for a, b in zip(base, v)):
            bad.append(("order-dependent", f"log_prob {base} becomes {v} when the same heights are supplied as "
                        f"tips={tips2} internals={coals2}"))
            break
    # (b) scaling law: times and population sizes times c (growth rates / c) => log p - (n-1) ln c
    # (a change of the unit of time by many orders of magnitude — years to seconds, generations to millions of
    #  years — is the scaling law at work: sums of logarithms must not be computed as logarithms of products)
    big = min(12, max(6, -(-340 // max(1, n - 1))))      # enough for a product of n-1 sizes to leave the double range
    # an event within a few ulps of a grid point (a grid ending at the root height computed as cutoff * m / m) may land
    # on the other side of it, or on it, once both are multiplied by c: the value of a step function AT its jump is a
    # convention, not part of the scaling law — such cases are left to the other checks
    evs = [t for row in case["coals"] for t in row] + list(case["tips"])
    hairline = any(abs(g - t) <= 1e-13 * max(1.0, abs(g)) and g != t for g in (case.get("grid") or []) for t in evs)
    for c in (() if hairline else
              (rng.choice([0.5, 2.0, 4.0]), rng.choice([3.7, 0.3]), 10.0 ** (rng.choice([-1, 1]) * big))):
        try:
            v = impl_dist(case, tips=[c * t for t in case["tips"]],
                          coals=[[c * t for t in row] for row in case["coals"]],
                          theta=[[c * t for t in row] for row in case["theta"]],
                          growth=None if case["growth"] is None else [[g / c for g in row] for row in case["growth"]],
                          grid=[c * g for g in case["grid"]])
        except Exception as e:
            bad.append(("raises", f"scaled by {c}: {type(e).__name__}: {str(e)[:120]}"))
            break
        want = [b - (n - 1) * math.log(c) for b in base]
        if not all(fclose(a, b) for a, b in zip(want, v)):
            bad.append(("scaling-law", f"times and sizes x{c}: log_prob {v}, expected log p - (n-1) ln c = {want}"))
            break
    # (c) same N(t) => same density
    try:
        if model in ("skyride", "skygrid", "linear") and all(len(set(row)) == 1 for row in case["theta"]):
            v = impl_dist(case, theta=[[row[0]] for row in case["theta"]], model="constant", grid=[])
            if not all(fclose(a, b) for a, b in zip(base, v)):
                bad.append(("all-equal-not-constant", f"all thetas equal: log_prob {base} but ConstantCoalescent gives {v}"))
        if model == "exponential" and case["mode"] in MODES["pwexp"]:
            v = impl_dist(case, model="pwexp", grid=[])
            # rows with growth exactly 0 are each class's own (known) defect, reported on its own cases
            if not all(fclose(a, b) for r, (a, b) in enumerate(zip(base, v)) if row_inputs(case, r)[2][0] != 0):
                bad.append(("same-N-differs", f"ExponentialCoalescent {base} vs one-piece PiecewiseExponentialCoalescentGrid {v}"))
        if model == "skygrid" and case["grid"]:
            # the same skygrid evaluated by the relaxed class without a temperature (an exact evaluation with its
            # own handling of the sampling times): same N(t), same density
            tied = {x for row in case["coals"] for x in row} & set(case["grid"])
            if not tied:
                v = impl_dist(case, model="softgrid-exact")
                if not all(fclose(a, b) for a, b in zip(base, v)):
                    bad.append(("same-N-differs", f"PiecewiseConstantCoalescentGrid {base} vs "
                                f"SoftPiecewiseConstantCoalescentGrid without temperature {v}"))
        if model == "skygrid":
            # a grid refined by extra points carrying the same theta on both sides describes the same N(t)
            g, extra = list(case["grid"]), []
            allc = {x for row in case["coals"] for x in row}
            for j in range(len(g)):
                lo = g[j - 1] if j else 0.0
                mid = (lo + g[j]) / 2
                if mid not in allc and lo < mid < g[j]:
                    extra.append((j, mid))
            if extra:
                j, mid = extra[len(extra) // 2]
                g2 = g[:j] + [mid] + g[j:]
                th2 = [row[:j] + [row[j]] + row[j:] for row in case["theta"]]
                v = impl_dist(case, theta=th2, grid=g2)
                if not all(fclose(a, b) for a, b in zip(base, v)):
                    bad.append(("same-N-differs", f"grid refined at {mid} with the same theta: {base} vs {v}"))
    except Exception as e:
        bad.append(("raises", f"equivalent model: {type(e).__name__}: {str(e)[:120]}"))
    return bad


# ----------------------------------------------------------------------------- run

def run(tier, seed, replay=None):
    rep = C.Report(PID, tier, seed)
    rep.trusted = C.COMMON_TRUSTED + [
        "hand-written model model/M_coalescent.v (events, sort on exact keys, running counts, theta lookup, "
        "closed-form piece integrals) tied by interval-run correspondence on log_prob / the model call",
        "Paramcoq-generated free theorems + Interval library correctness lemmas (kernel-checked)",
        "modelled not verified: torch.argsort/gather/cumsum/bucketize/unique/scatter and float64 rounding of "
        "exp/log/sum (compared under relative 1e-9); batched evaluation = map over rows (checked by "
        "correspondence, not proved)"]
    rng = random.Random(seed)
    ncases = 330 if tier == "quick" else 4200
    cases = corpus() + [gen_case(rng, i, tier) for i in range(ncases)]
    if replay:
        cases = [json.load(open(replay))["replay"]["case"]]
    known = {k["key"] for k in C.load_known() if k["property"] == PID and k.get("status") == "known"}

    # ---- implementation runs
    t0 = time.time()
    outs = []
    prng = random.Random(seed + 1)
    for c in cases:
        o = dict(dist=None, json=None, prop=[], err=None, jerr=None)
        try:
            o["dist"] = impl_dist(c)
        except Exception as e:
            o["err"] = f"{type(e).__name__}: {str(e)[:160]}"
        try:
            o["json"] = impl_json(c)
        except Exception as e:
            o["jerr"] = f"{type(e).__name__}: {str(e)[:160]}"
        if o["dist"] is not None:
            o["prop"] = property_on_impl(c, o["dist"], prng)
        outs.append(o)
    rep.timings["impl"] = round(time.time() - t0, 2)

    def impl_findings():
        """property-level failing inputs found on the implementation alone"""
        found = {}
        for c, o in zip(cases, outs):
            fs = []
            if o["err"]:
                fs.append((key_for(c, f"raises:{c['mode']}"), f"log_prob raises {o['err']} on {short(c)}"))
            if o["jerr"]:
                cond = case_condition(c)
                k = f"C08:{CLASS[c['model']]}Model:{cond + ':' if cond else ''}raises"
                fs.append((k, f"model built from JSON raises {o['jerr']} on {short(c)}"))
            if o["dist"] is not None:
                for r, (v, w) in enumerate(zip(o["dist"], ref_rows(c))):
                    if w is not None and not fclose(v, w, 1e-7):
                        fs.append((key_for(c, "not-kingman"),
                                   f"log_prob = {v!r} but the Kingman density (lineages by counting) is {w!r} "
                                   f"(row {r}); {short(c)}"))
                        break
            for kind, text in o["prop"]:
                fs.append((key_for(c, kind), f"{text}; {short(c)}"))
            for k, what in fs:
                found.setdefault(k, (k, what, dict(case=c)))
        return list(found.values())

    C.handle_proof(rep, PID, lambda: [f for f in impl_findings() if f[0] not in known])
    for f in impl_findings():
        rep.violation(*f)

    # ---- correspondence: NumI run of the model vs implementation
    t0 = time.time()
    exprs, index = [], []
    for ci, c in enumerate(cases):
        for r in range(c["B"]):
            exprs.append(coq_expr(c, r))
            index.append((ci, r))
    res = C.run_cases(PID, HEADER, exprs, shard=max(8, len(exprs) // 16 + 1))
    rep.timings["model_eval"] = round(time.time() - t0, 2)
    undefined, dist, compared = 0, {}, 0
    for (ci, r), flat in zip(index, res):
        c, o = cases[ci], outs[ci]
        iv = C.ival_to_fracs(flat)
        for tag in (f"model={c['model']}/{c['mode']}", f"sampling={c['scheme']}", f"grid={c['grid_style']}",
                    f"n={'2-5' if c['n'] <= 5 else '6-12' if c['n'] <= 12 else '13-50'}",
                    f"thetas={c['variant']}", f"times={'full precision' if c['digits'] is None else 'decimal lattice'}"):
            dist[tag] = dist.get(tag, 0) + 1
        rep.case(dict(c=c, r=r), nontrivial=c["n"] >= 3,
                 sample=dict(case=c, impl_log_prob=o["dist"], impl_model_call=o["json"],
                             model_enclosure=None if iv is None else [float(iv[0]), float(iv[1])]))
        if iv is None:
            undefined += 1
        for api, vals in (("log_prob", o["dist"]), ("model call", o["json"])):
            if vals is None:
                continue
            compared += 1
            ok = close(vals[r], iv)
            if ok is None and not (math.isnan(vals[r]) or math.isinf(vals[r])):
                ok = False       # implementation finite where the model is undefined
            if ok is False:
                w = ref_rows(c)[r]
                mtxt = "undefined" if iv is None else repr(float(iv[0]))
                what = (f"{api} = {vals[r]!r} but the Kingman density (model, interval run) is {mtxt} "
                        f"(row {r}); {short(c)}")
                agrees_with_ref = iv is not None and w is not None and close(w, iv, 1e-7)
                if agrees_with_ref or iv is None:
                    rep.violation(key_for(c, "log_prob-differs" if api == "log_prob" else "model-call-differs"),
                                  what, dict(case=c, row=r, api=api))
                else:
                    rep.violation(f"C08:model-impl-differ:{c['model']}", what,
                                  dict(case=c, row=r, api=api, float_reference=w,
                                       broken="correspondence M_coalescent vs coalescent.py"), False)
    # ---- same-object histories of the JSON-built models: theta / growth / GRID assigned, model called again,
    #      compared with a freshly built model holding the new values
    t0 = time.time()
    torch = impl.load()
    from torchtree.evolution import coalescent as K
    hrng = random.Random(seed + 23)
    nhist, hist_found = 0, {}
    pool = [c for c, o in zip(cases, outs) if not isinstance(o, Exception) and c["mode"] != "both"]
    hrng.shuffle(pool)
    for c in pool[:(120 if tier == "quick" else 900)]:
        cls = getattr(K, CLASS[c["model"]] + "Model")
        th = c["theta"] if c["mode"] != "single" else c["theta"][0]
        d = {"id": "coalescent", "type": cls.__name__, "theta": impl.param_json("theta", th),
             "times": c["tips"] + c["coals"][0], "events": [1] * c["n"] + [0] * (c["n"] - 1)}
        if c["growth"] is not None:
            d["growth"] = impl.param_json("growth", c["growth"] if c["mode"] != "single" else c["growth"][0])
        if c["model"] in ("skygrid", "linear", "pwexp"):
            if not c["grid"]:
                continue
            d["grid"] = impl.param_json("grid", list(c["grid"]))
        try:
            obj = H.tracked(cls, d)
            fs = H.run(obj, lambda o: o().detach().reshape(-1).tolist(), hrng, steps=2)
        except Exception:
            continue
        nhist += 1
        for f in fs:
            k = f"C08:history:{CLASS[c['model']]}Model"
            hist_found.setdefault(k, (k, f"after the history {f['history']} (assigned: {f['assigned']}) the same model object "
                                         f"returns {f['on_same_object']} but a freshly built one {f['fresh_object']}",
                                      dict(case=c, history=f)))
    for f in hist_found.values():
        rep.violation(*f)
    rep.timings["histories"] = round(time.time() - t0, 2)
    rep.rule = ("random cases over the six models: n = 2..12 (every fifth case up to 50) quick / 2..50 thorough; "
                "sampling isochronous / serial / serial with ties; valid coalescent times, full precision or on a "
                "decimal lattice (ties with sampling times and with each other), internal heights and tips in random "
                "order; grids inside / beyond the root / before the first coalescence / cutoff layout / on sampling "
                "times (never exactly on a coalescent time: the value of a step function at its jump is a "
                "convention); thetas log-uniform e^-2..e^3, all equal, or with flat neighbours; growth of either "
                "sign and 0; layouts single / batched thetas / batched thetas and heights; log_prob and the "
                "JSON-built model call; plus minimal reproductions of known defects.  non-trivial = at least 3 taxa; "
                "distinct = distinct (case,row)")
    rep.extra = dict(input_distribution=dist, model_undefined=undefined, traces_validated_against_impl=compared,
                     same_object_histories=nhist,
                     direct_property_checks="order invariance (2 permutations), scaling law (2 factors), all-equal = "
                                            "constant, exponential = one-piece piecewise-exponential, refined "
                                            "skygrid, on every case", tolerance=RTOL)
    return rep.finish()
