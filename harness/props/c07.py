"""C07 — every change of variables reports its true log-Jacobian and inverse."""
import json
import math
import random
import time
from fractions import Fraction

from harness import common as C
from harness import history as H
from harness import impl, trees
from harness.props import c06
from harness.translate import t10_transforms

PID = "C07"


def sync():
    """gen/G_transforms.v: the bodies of the five list transforms regenerated from the source (T10)"""
    import os
    try:
        txt = t10_transforms.translate()
    except t10_transforms.TranslateError as e:
        return False, f"T10 translator (distributions/transforms.py): {e}"
    with C.CoqLock():
        C.write_if_changed(os.path.join(C.COQ, "gen", "G_transforms.v"), txt)
    return True, txt

HEADER = ("From Coq Require Import QArith ZArith List. Import ListNotations.\n"
          "From TT Require Import Num NumI Tree M_transform M_height.\n")
LIST_TRANSFORMS = ["cumsum", "cumsumexp", "softplus", "cumsumsoftplus", "log", "exp", "sigmoid", "affine"]
ELEMENTWISE = {"softplus", "log", "exp", "sigmoid", "affine"}


def gen_case(rng, i, tier):
    kinds = LIST_TRANSFORMS + ["logdiff", "ratio", "ratio", "shift", "trilexp"]
    kind = kinds[i % len(kinds)]
    c = dict(kind=kind)
    if kind in LIST_TRANSFORMS:
        d = rng.randint(1, 7)
        if kind == "log":
            c["x"] = [math.exp(rng.uniform(-3, 3)) for _ in range(d)]
        else:
            c["x"] = [round(rng.uniform(-2.5, 2.5), rng.choice([1, 3, 12])) for _ in range(d)]
        if kind == "affine":
            c["loc"], c["scale"] = rng.uniform(-2, 2), rng.choice([-1, 1]) * math.exp(rng.uniform(-2, 2))
        c["via_parameter"] = rng.random() < 0.5
    elif kind == "trilexp":
        dim = rng.randint(1, 4)
        c["x"] = [rng.uniform(-1.5, 1.5) for _ in range(dim * (dim + 1) // 2)]
    else:
        n = rng.choice([3, 4, 5, 6, 8] if tier == "quick" else [3, 4, 5, 6, 8, 12, 20])
        t = trees.random_tree(rng, n, rng.choice(["random", "caterpillar", "balanced"]))
        mode, dates = c06.gen_dates(rng, n)
        if rng.random() < 0.3:       # whole-number ages, several tips at the present (they will be written as integers)
            mode, dates = "whole_ages", [float(rng.choice([0, 0, 1, 2, 3])) for _ in range(n)]
            dates[rng.randrange(n)] = 0.0
        c.update(tree=t, n=n, dates=dates, date_mode=mode, B=None, ops=[])
        # whole-number dates written as integers in the specification
        c["int_dates"] = all(float(d).is_integer() for d in dates) and rng.random() < 0.75
        oldest = max(c06.leaf_heights(dates))
        if kind == "ratio":
            c["x"] = [[rng.uniform(0.05, 0.95) for _ in range(n - 2)] + [oldest + math.exp(rng.uniform(-2, 2))]]
            if n > 2 and rng.random() < 0.3:
                # a node collapsing onto the bound below it: a ratio at the edge of (0, 1] (the log-Jacobian term of
                # such a node is ln(parent height - bound), finite and positive).  Only nodes whose two children are
                # tips: below a collapsed node with internal children every quantity is a difference of nearly equal
                # heights, ill-conditioned in floating point whatever the code does (measured on the unchanged code:
                # relative 1e-7 on the reported value, 1e-5 on the round trip)
                def cherries(u, acc):
                    if isinstance(u, int):
                        return
                    if isinstance(u[1], int) and isinstance(u[2], int):
                        acc.append(u[0])
                    cherries(u[1], acc)
                    cherries(u[2], acc)
                acc = []
                cherries(trees.index_tree(t), acc)
                acc = [i for i in acc if i - n < n - 2]          # not the root
                for i in rng.sample(acc, min(len(acc), rng.randint(1, 2))):
                    c["x"][0][i - n] = rng.choice([1e-13, 1e-10, 1e-7])
        elif kind == "shift":
            c["x"] = [[math.exp(rng.uniform(-3, 1)) for _ in range(n - 1)]]
            if rng.random() < 0.35:
                c["smooth_k"] = rng.choice([0.5, 1.0, 3.0, 10.0])
        else:  # logdiff: rates of the 2n-2 non-root nodes, on a ratio-parameterised time tree
            c["kind_tree"] = "ratio"
            c["xtree"] = [[rng.uniform(0.05, 0.95) for _ in range(n - 2)] + [oldest + 1.0]]
            c["x"] = [math.exp(rng.uniform(-2, 2)) for _ in range(2 * n - 2)]
    return c


def make_transform(c):
    torch = impl.load()
    import torch.distributions as D
    import torchtree.distributions.transforms as TT
    k = c["kind"]
    if k == "cumsum":
        return TT.CumSumTransform()
    if k == "cumsumexp":
        return TT.CumSumExpTransform()
    if k == "softplus":
        return TT.SoftPlusTransform()
    if k == "cumsumsoftplus":
        return TT.CumSumSoftPlusTransform()
    if k == "log":
        return TT.LogTransform()
    if k == "exp":
        return D.ExpTransform()
    if k == "sigmoid":
        return D.SigmoidTransform()
    if k == "affine":
        return D.AffineTransform(c["loc"], c["scale"])
    if k == "trilexp":
        return TT.TrilExpDiagonalTransform()
    raise KeyError(k)


def interleaved(torch, tr, x, y, report):
    """One transform object asked about (x, y) AFTER its forward map went over other points (other values, another
    batch shape): the report and the inverse must be those of (x, y), not of the last point seen."""
    try:
        others = [x * 0.6 + 0.07, torch.stack([x * 0.9 + 0.01, x * 1.1 + 0.02])]
        for o in others:
            tr(o)
        again = tr.log_abs_det_jacobian(x, y)
        if again.shape != report.shape or not torch.allclose(again, report, rtol=1e-12, atol=1e-12, equal_nan=True):
            return (f"log_abs_det_jacobian(x, y) = {report.reshape(-1).tolist()[:4]} right after y = t(x), but "
                    f"{again.reshape(-1).tolist()[:4]} once t has been applied to two other points in between")
        try:
            y2 = tr(x)
            i1 = tr.inv(y2)
            tr.inv(tr(others[0]))
            i2 = tr.inv(y2)
            if i1.shape != i2.shape or not torch.allclose(i1, i2, rtol=1e-12, atol=1e-12, equal_nan=True):
                return "inv(y) changes once the inverse has been applied to another point in between"
        except NotImplementedError:
            pass
    except Exception as e:  # noqa
        return f"{type(e).__name__}: {str(e)[:140]}"
    return None


def run_impl(c):
    out = run_impl_(c)
    return out


def run_impl_(c):
    torch = impl.load()
    from torch.autograd.functional import jacobian
    k = c["kind"]
    out = {}
    if k in ("ratio", "shift"):
        cc = dict(c, kind=k)
        tm = c06.build(cc)
        tr = tm.transform
        if k == "shift" and c.get("smooth_k"):
            # the documented option k > 0 (smooth maximum): the model describes the hard maximum only, so this
            # variant is judged by the property itself (inverse after forward, report = autograd log-det)
            from torchtree.evolution.tree_height_transform import DifferenceNodeHeightTransform
            tr = DifferenceNodeHeightTransform(tm, k=c["smooth_k"])
            x = torch.tensor(c["x"][0])
            y = tr(x)
            out["y"] = y.tolist()
            out["inv"] = tr.inv(y).tolist()
            out["logdet"] = float(tr.log_abs_det_jacobian(x, y))
            J = jacobian(lambda v: tr(v), x)
            out["autograd"] = float(torch.linalg.slogdet(J)[1])
            out["smooth"] = True
            return out
        x = torch.tensor(c["x"][0])
        y = tr(x)
        out["y"] = y.tolist()
        out["inv"] = tr.inv(y).tolist()
        out["logdet"] = float(tr.log_abs_det_jacobian(x, y))
        out["interleaved_bad"] = interleaved(torch, tr, x, y, tr.log_abs_det_jacobian(x, y))
        out["model_call"] = float(tm())                    # ReparameterizedTimeTreeModel() reports it too
        J = jacobian(lambda v: tr(v), x)
        out["autograd"] = float(torch.linalg.slogdet(J)[1])
        return out
    if k == "logdiff":
        from torchtree.evolution.rate_transform import LogDifferenceRateTransform
        cc = dict(c, kind="ratio", x=c["xtree"])
        tm = c06.build(cc)
        tr = LogDifferenceRateTransform(tm)
        x = torch.tensor(c["x"])
        y = tr(x)
        out["y"] = y.tolist()
        out["logdet"] = float(tr.log_abs_det_jacobian(x, y))
        out["interleaved_bad"] = interleaved(torch, tr, x, y, tr.log_abs_det_jacobian(x, y))
        J = jacobian(lambda v: tr(v), x)
        out["autograd"] = float(torch.linalg.slogdet(J)[1])
        out["preorder"] = tm.preorder.tolist()
        try:
            out["inv"] = tr.inv(y).tolist()
        except NotImplementedError:
            out["inv"] = None
        return out
    tr = make_transform(c)
    x = torch.tensor(c["x"])
    y = tr(x)
    out["y"] = y.tolist()
    out["inv"] = tr.inv(y).tolist()
    if k == "trilexp":
        try:
            tr.log_abs_det_jacobian(x, y)
            out["logdet"] = "reported"
        except NotImplementedError:
            out["logdet"] = None
        return out
    ld = tr.log_abs_det_jacobian(x, y)
    out["logdet_raw"] = ld.tolist() if ld.dim() else float(ld)
    out["logdet"] = float(ld.sum())
    out["interleaved_bad"] = interleaved(torch, tr, x if k != "log" else x.abs() + 0.05, y if k != "log" else tr(x.abs() + 0.05),
                                         tr.log_abs_det_jacobian(x if k != "log" else x.abs() + 0.05, y if k != "log" else tr(x.abs() + 0.05)))
    # the same transform on a batch [S, n] and [S, K, n]: every row must be what the row gives alone
    rows = [x, x * 0.5 + (0.25 if k == "log" else 0.1), torch.flip(x, [-1])]
    if k == "log":
        rows = [r.abs() + 0.05 for r in rows]
    bad = None
    for X in (torch.stack(rows), torch.stack([torch.stack(rows), torch.stack(rows[::-1])])):
        try:
            Y = tr(X)
            LD = tr.log_abs_det_jacobian(X, Y)
            LD = LD.sum(-1) if LD.dim() == X.dim() else LD
            INV = tr.inv(Y)
            flatX = X.reshape(-1, X.shape[-1])
            for r in range(flatX.shape[0]):
                yr = tr(flatX[r])
                ldr = tr.log_abs_det_jacobian(flatX[r], yr)
                ldr = float(ldr.sum())
                if not torch.allclose(Y.reshape(-1, X.shape[-1])[r], yr, rtol=1e-12, atol=1e-12):
                    bad = f"row {r} of a batch {list(X.shape)}: forward differs from the row alone"
                elif LD.numel() != flatX.shape[0] or abs(float(LD.reshape(-1)[r]) - ldr) > 1e-9 * max(1.0, abs(ldr)):
                    bad = (f"row {r} of a batch {list(X.shape)}: reported log|det J| "
                           f"{LD.reshape(-1).tolist()} but the row alone gives {ldr!r}")
                elif not torch.allclose(INV.reshape(-1, X.shape[-1])[r], flatX[r], rtol=1e-9, atol=1e-9):
                    bad = f"row {r} of a batch {list(X.shape)}: inverse(forward(x)) differs from x"
                if bad:
                    break
        except Exception as e:  # noqa
            bad = f"batch {list(X.shape)}: {type(e).__name__}: {str(e)[:120]}"
        if bad:
            break
    out["batched_bad"] = bad
    J = jacobian(lambda v: tr(v), x)
    out["autograd"] = float(torch.linalg.slogdet(J)[1])
    if c.get("via_parameter"):
        from torchtree.core.parameter import TransformedParameter
        path = type(tr).__module__ + "." + type(tr).__name__
        d = {"id": "tp", "type": "TransformedParameter", "transform": path, "x": impl.param_json("u", c["x"])}
        if k == "affine":
            d["parameters"] = {"loc": c["loc"], "scale": c["scale"]}
        tp = TransformedParameter.from_json(d, {})
        out["tp_tensor"] = tp.tensor.tolist()
        out["tp_call"] = float(tp().sum())
    return out


def coq_case(c, o):
    I = lambda v: f"ofQ NumI {C.qlit(v)}"
    L = lambda xs: C.coq_list(xs, I)
    k = c["kind"]
    flat = lambda e: f"concat (map show_i ({e}))"
    if k in ("cumsum", "cumsumexp", "cumsumsoftplus"):
        return flat(f"{k}_fwd NumI {L(c['x'])} ++ {k}_inv NumI {L(o['y'])} ++ [{k}_logdet NumI {L(c['x'])}]")
    if k == "softplus":
        return flat(f"softplus_fwd NumI {L(c['x'])} ++ softplus_inv_l NumI {L(o['y'])} ++ [nsum NumI (softplus_logdet NumI {L(c['x'])})]")
    if k in ("log", "exp", "sigmoid"):
        ld = f"exp_logdet {L(c['x'])}" if k == "exp" else f"{k}_logdet NumI {L(c['x'])}"
        return flat(f"{k}_fwd NumI {L(c['x'])} ++ {k}_inv NumI {L(o['y'])} ++ [nsum NumI ({ld})]")
    if k == "affine":
        a = f"({I(c['loc'])}) ({I(c['scale'])})"
        return flat(f"affine_fwd NumI {a} {L(c['x'])} ++ affine_inv NumI {a} {L(o['y'])} ++ "
                    f"[mul NumI (ofQ NumI ({len(c['x'])}#1)) (nln NumI (nmax NumI ({I(c['scale'])}) (opp NumI ({I(c['scale'])}))))]")
    n = c.get("n")
    if k in ("ratio", "shift", "logdiff"):
        head = (f"let t := index_tree {trees.coq_tree(c['tree'])} in "
                f"let times := map (ofQ NumI) (leaf_heights {C.qlist(c['dates'])}) in ")
        if k == "ratio":
            X = L(c["x"][0])
            return (head + f"let ht := ratio_fwd NumI {C.natlit(n)} times {X} None t in "
                    + flat(f"skipn {C.natlit(n)} (node_heights ht) ++ [ratio_logdet NumI times None t ht]"))
        if k == "shift":
            X = L(c["x"][0])
            return head + flat(f"skipn {C.natlit(n)} (node_heights (diff_fwd NumI {C.natlit(n)} times {X} t)) ++ [zero NumI]")
        return head + flat(f"logdiff_fwd NumI {L(c['x'])} t ++ [logdiff_logdet NumI {L(c['x'])}]")
    raise KeyError(k)


def near(a, iv, rtol=1e-9, atol=1e-10):
    if iv is None:
        return None
    lo, hi = iv
    tol = Fraction(rtol) * max(abs(lo), abs(hi)) + Fraction(atol)
    if not math.isfinite(a):
        return False
    return lo - tol <= Fraction(a) <= hi + tol


def property_on_impl(c, o):
    """reported log|det J| = slogdet of the autograd Jacobian of the forward map; inv(fwd(x)) = x."""
    k = c["kind"]
    x = c["x"][0] if k in ("ratio", "shift") else c["x"]
    if c.get("smooth_k"):
        k = "shift-smooth"
    if o.get("inv") is not None and k != "logdiff":
        tol = 1e-8
        if k == "ratio":
            # (see c06.ratio_roundtrip_tolerance: the accuracy of a recovered ratio follows the conditioning)
            nh = c06.leaf_heights(c["dates"]) + list(o["y"])
            tol = c06.ratio_roundtrip_tolerance(c, nh, 1e-8)
        for i, (a, b) in enumerate(zip(o["inv"], x)):
            if tol is not None and not (abs(a - b) <= tol * max(1.0, abs(b))):
                return "inverse", f"inv(forward(x))[{i}] = {a!r} but x[{i}] = {b!r}"
    if o.get("batched_bad"):
        return "batched", o["batched_bad"]
    if o.get("interleaved_bad"):
        return "interleaved", o["interleaved_bad"]
    if o.get("logdet") is None or k == "trilexp":
        return None
    if not (abs(o["logdet"] - o["autograd"]) <= 1e-8 * max(1.0, abs(o["autograd"]))):
        return "logdet", f"reported log|det J| = {o['logdet']!r} but autograd Jacobian gives {o['autograd']!r}"
    if "model_call" in o and not (abs(o["model_call"] - o["autograd"]) <= 1e-8 * max(1.0, abs(o["autograd"]))):
        return "model-call", f"ReparameterizedTimeTreeModel() = {o['model_call']!r} but autograd gives {o['autograd']!r}"
    if "tp_call" in o:
        if not (abs(o["tp_call"] - o["autograd"]) <= 1e-8 * max(1.0, abs(o["autograd"]))):
            return "transformed-parameter", f"TransformedParameter() = {o['tp_call']!r} but autograd gives {o['autograd']!r}"
        if any(abs(a - b) > 1e-12 * max(1.0, abs(b)) for a, b in zip(o["tp_tensor"], o["y"])):
            return "transformed-parameter", "TransformedParameter.tensor differs from transform(x)"
    return None


def run(tier, seed, replay=None):
    rep = C.Report(PID, tier, seed)
    rep.trusted = C.COMMON_TRUSTED + [
        "translator T10 (harness/translate/t10_transforms.py): bodies of _call/_inverse/log_abs_det_jacobian of the "
        "five list transforms -> gen/G_transforms.v, proved equal to the model (C07_transform_source_is_model)",
        "hand-written models M_transform.v, M_height.v (tied by interval-run correspondence on transform(x), "
        ".inv(y), .log_abs_det_jacobian(x,y), TransformedParameter(), ReparameterizedTimeTreeModel())",
        "classical fact not re-proved on lists: det of a triangular matrix = product of its diagonal (mathcomp det_trig)",
        "torch autograd Jacobian (used as the property's own reference on the implementation side)",
        "not covered: StickBreakingTransform (non-square Jacobian convention), ConvexCombinationTransform and "
        "RescaledRateTransform (no inverse / no log-det implemented: nothing is reported)"]
    rng = random.Random(seed)
    n = 130 if tier == "quick" else 1300
    cases = [gen_case(rng, i, tier) for i in range(n)]
    if replay:
        c = json.load(open(replay))["replay"]["case"]
        if "tree" in c:
            c["tree"] = c06._tuplify(c["tree"])
        cases = [c]
    t0 = time.time()
    outs = []
    for c in cases:
        try:
            outs.append(run_impl(c))
        except Exception as e:
            outs.append(e)
    rep.timings["impl"] = round(time.time() - t0, 2)

    def search():
        found = {}
        for c, o in zip(cases, outs):
            if isinstance(o, Exception):
                k = f"C07:raises:{c['kind']}:{type(o).__name__}"
                found.setdefault(k, (k, f"{type(o).__name__}: {str(o)[:200]}", dict(case=c)))
                continue
            bad = property_on_impl(c, o)
            if bad:
                k = f"C07:{c['kind']}:{bad[0]}"
                found.setdefault(k, (k, bad[1], dict(case=c, observed=o)))
        return list(found.values())

    ok_sync, info = sync()
    if not ok_sync:
        # the source no longer has the shape the regenerated bodies are read from: the theorem tying the model to it
        # is not re-checked; the implementation is searched for a failing input, reported either way
        rep.proof = dict(obligations=1, discharged=0, axioms={}, theorems=["T10 translation"], ok=False)
        if not search():
            rep.violation("C07:translator-failed", str(info)[:400],
                          dict(error=str(info), broken="T10 / prop/C07.v:C07_transform_source_is_model"), False)
    else:
        C.handle_proof(rep, PID, search)
    for f in search():
        rep.violation(*f)

    t0 = time.time()
    idx = [i for i, (c, o) in enumerate(zip(cases, outs)) if not isinstance(o, Exception) and c["kind"] != "trilexp"
           and not c.get("smooth_k")]
    exprs = [coq_case(cases[i], outs[i]) for i in idx]
    res = C.run_cases(PID, HEADER, exprs, shard=max(4, len(exprs) // 16 + 1))
    rep.timings["model_eval"] = round(time.time() - t0, 2)
    dist, undefined = {}, 0
    for c in cases:
        dist[c["kind"]] = dist.get(c["kind"], 0) + 1
    for i, flat in zip(idx, res):
        c, o = cases[i], outs[i]
        k = c["kind"]
        ivs = [C.ival_to_fracs(flat[j:j + 6]) for j in range(0, len(flat), 6)]
        if k in ("ratio", "shift"):
            vals = o["y"] + [o["logdet"]]
        elif k == "logdiff":
            vals = o["y"] + [None]       # the report is compared through autograd (a finding if wrong)
        else:
            vals = o["y"] + o["inv"] + [o["logdet"]]
        rep.case(dict(c=c), nontrivial=True, sample=dict(kind=k, x=c["x"], impl_y=o["y"], impl_logdet=o.get("logdet")))
        bad = None
        if len(ivs) != len(vals):
            bad = f"model has {len(ivs)} outputs, implementation {len(vals)}"
        else:
            for j, (v, iv) in enumerate(zip(vals, ivs)):
                if v is None:
                    continue
                ok = near(v, iv)
                if ok is None:
                    undefined += 1
                elif not ok:
                    bad = f"output {j} of {len(vals)}: impl {v!r} vs model [{float(iv[0])!r}, {float(iv[1])!r}]"
                    break
        if bad:
            fs = [f for f in search() if f[0].startswith(f"C07:{k}:")]
            for f in fs:
                rep.violation(*f)
            if not fs:
                rep.violation(f"C07:model-impl-differ:{k}", f"{bad}; case {c}",
                              dict(case=c, broken="correspondence M_transform/M_height vs implementation"), False)
    for c, o in zip(cases, outs):
        if c["kind"] == "trilexp" and not isinstance(o, Exception):
            rep.case(dict(c=c), nontrivial=True)
    # ---- same-object histories: the value reported for the CURRENT parameters == fresh object's
    t0 = time.time()
    hrng = random.Random(seed + 17)
    nh, hist_found = 0, {}
    okc = [c for c, o in zip(cases, outs) if not isinstance(o, Exception)
           and (c["kind"] in ("ratio", "shift") or c.get("via_parameter")) and not c.get("smooth_k")]
    hrng.shuffle(okc)
    for c in okc[:(60 if tier == "quick" else 400)]:
        try:
            if c["kind"] in ("ratio", "shift"):
                obj = c06.build(dict(c, kind=c["kind"]))
                reads = [("node_heights", lambda o: o.node_heights), ("branch_lengths", lambda o: o.branch_lengths())]
            else:
                from torchtree.core.parameter import TransformedParameter
                tr = make_transform(c)
                d = {"id": "tp", "type": "TransformedParameter",
                     "transform": type(tr).__module__ + "." + type(tr).__name__, "x": impl.param_json("u", c["x"])}
                if c["kind"] == "affine":
                    d["parameters"] = {"loc": c["loc"], "scale": c["scale"]}
                obj = H.tracked(TransformedParameter, d)
                reads = [("tensor", lambda o: o.tensor)]
        except Exception:
            continue
        fs = H.run(obj, lambda o: float(o().sum().detach()), hrng, steps=2, reads=reads)
        nh += 1
        for f in fs:
            k = f"C07:history:{c['kind']}"
            hist_found.setdefault(k, (k, f"after the history {f['history']} the log-Jacobian reported by the same object is "
                                         f"{f['on_same_object']} but a freshly built one reports {f['fresh_object']}",
                                      dict(case=c, history=f)))
    for f in hist_found.values():
        rep.violation(*f)
    rep.timings["histories"] = round(time.time() - t0, 2)
    rep.rule = ("random domain points for cumsum / cumsum-exp / softplus / cumsum-softplus / log / torch exp, sigmoid, "
                "affine (dimension 1..7, also through TransformedParameter.from_json), triangular-exp (inverse only: it "
                "reports no log-det), log-rate-difference and ratio / increment node-height transforms on random, "
                "caterpillar and balanced trees with iso/heterochronous dates incl. ties; distinct = distinct case")
    rep.extra = dict(input_distribution=dist, model_undefined=undefined, traces_validated_against_impl=len(idx))
    return rep.finish()
