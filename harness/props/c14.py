"""C14 — variational objectives are exact at the true posterior.

Pipeline: prove (coq/prop/C14.v) -> build conjugate models from JSON in the style torchtree-cli
emits, q := exact posterior, instrument p and q (subclass swap, object graph untouched) to record
what they return and at which draw -> property evaluated directly on the implementation (value vs
closed-form log marginal; fresh draw per request; p and q evaluated at the same draw; returned
densities are those of that draw) -> correspondence (Coq NumI run of M_vi on the recorded lp, lq
vs the returned value; Coq densities of the conjugate pairs vs recorded lp, lq).
"""
import json
import logging
import math
import random
import time
from fractions import Fraction

from harness import common as C
from harness import impl

PID = "C14"
HEADER = ("From Coq Require Import QArith ZArith List. Import ListNotations.\n"
          "From TT Require Import Num NumI M_vi.\n")
HL2PI = math.log(math.sqrt(2 * math.pi))
OBJECTIVES = ["ELBO", "ELBO-entropy", "VR", "CUBO", "KLpq"]
# pairs whose q can also be handed over as a bare Distribution (no JointDistributionModel)
REGULAR = ["ge", "gp", "nn", "bb", "ge_exp", "bb_sig", "nn_aff", "lnn_exp", "two"]
BARE_OK = {"ge", "gp", "nn", "bb", "nn_aff", "lnn_exp", "ge_vec", "ge_list", "mvn", "mvn_full", "cse"}
NO_ENTROPY = {"ge_exp", "bb_sig"}     # q = density(z(u)) + Jacobian: q.entropy() is not H(q_u)


# ----------------------------------------------------------------------------- closed forms

def _gamma_lpdf(a, b, x):
    return a * math.log(b) + (a - 1) * math.log(x) - b * x - math.lgamma(a)


def _normal_lpdf(m, s, x):
    return -((x - m) ** 2) / (2 * s * s) - math.log(s) - HL2PI


def _lbeta(a, b):
    return math.lgamma(a) + math.lgamma(b) - math.lgamma(a + b)


def _beta_lpdf(a, b, x):
    return (a - 1) * math.log(x) + (b - 1) * math.log1p(-x) - _lbeta(a, b)


def _lchoose(n, k):
    return math.lgamma(n + 1) - math.lgamma(k + 1) - math.lgamma(n - k + 1)


def _sigmoid(u):
    return 1 / (1 + math.exp(-u)) if u >= 0 else math.exp(u) / (1 + math.exp(u))


def _log_sigmoid(u):
    return -math.log1p(math.exp(-u)) if u >= 0 else u - math.log1p(math.exp(u))


def _digamma(x):
    torch = impl.load()
    return float(torch.digamma(torch.tensor(float(x), dtype=torch.float64)))


def _gamma_entropy(a, b):
    return a - math.log(b) + math.lgamma(a) + (1 - a) * _digamma(a)


def _normal_entropy(s):
    return 0.5 + HL2PI + math.log(s)


def _beta_entropy(a, b):
    return _lbeta(a, b) - (a - 1) * _digamma(a) - (b - 1) * _digamma(b) + (a + b - 2) * _digamma(a + b)


def nn_posterior(m0, s0, sigma, xs):
    n, sx = len(xs), math.fsum(xs)
    den = sigma * sigma + n * s0 * s0
    v1 = s0 * s0 * sigma * sigma / den
    return (m0 * sigma * sigma + s0 * s0 * sx) / den, math.sqrt(v1)


def nn_logml(m0, s0, sigma, xs, m1, s1):
    n = len(xs)
    return (-n * (math.log(sigma) + HL2PI) - math.log(s0) + math.log(s1)
            - (math.fsum(x * x for x in xs) / sigma ** 2 + m0 ** 2 / s0 ** 2 - m1 ** 2 / s1 ** 2) / 2)


# ----------------------------------------------------------------------------- JSON builders

def P(id_, values):
    return impl.param_json(id_, values)


def D(id_, dist, x, params):
    return {"id": id_, "type": "Distribution", "distribution": dist, "x": x, "parameters": params}


def JDM(id_, dists):
    return {"id": id_, "type": "JointDistributionModel", "distributions": dists}


def TP(id_, transform, x, params=None):
    d = {"id": id_, "type": "TransformedParameter", "transform": transform, "x": x}
    if params:
        d["parameters"] = params
    return d


def gen_hyper(rng, pair):
    """Random hyper-parameters and data of one conjugate model (moderate magnitudes)."""
    def logu(lo, hi):
        return math.exp(rng.uniform(math.log(lo), math.log(hi)))
    n = rng.randint(1, 5)
    h = dict(pair=pair)
    if pair in ("ge", "ge_exp", "ge_vec", "ge_list", "two", "two_vec"):
        d = 2 if pair in ("ge_vec", "ge_list", "two_vec") else 1
        n = 1 if pair in ("ge_vec", "ge_list", "two_vec") else n      # one observation per component (data shape [d])
        h.update(a=[logu(0.6, 5) for _ in range(d)], b=[logu(0.3, 3) for _ in range(d)],
                 xs=[[round(logu(0.05, 3), 3) for _ in range(d)] for _ in range(n)])
    if pair == "gp":
        h.update(a=[logu(0.6, 5)], b=[logu(0.3, 3)], ks=[rng.randint(0, 6) for _ in range(n)])
        if rng.random() < 0.25:
            # a data set large enough for the marginal likelihood itself to be far outside the range of a double
            # (log Z below -1500): importance weights must be averaged in the log domain
            h["ks"] = [rng.randint(0, 9) for _ in range(rng.randint(700, 1100))]
    if pair in ("nn", "nn_aff", "lnn_exp", "two", "two_vec"):
        h.update(m0=rng.uniform(-2, 2), s0=logu(0.3, 3), sigma=logu(0.3, 3),
                 ys=[round(rng.uniform(-3, 3), 3) for _ in range(rng.randint(1, 5))])
        if pair == "nn_aff":
            h.update(loc=round(rng.uniform(-2, 2), 2), scale=rng.choice([-1, 1]) * round(logu(0.3, 3), 2),
                     scale_first=rng.random() < 0.5)
    if pair in ("bb", "bb_sig"):
        N = rng.randint(1, 12)
        h.update(ba=logu(0.6, 5), bb=logu(0.6, 5), N=N, k=rng.randint(0, N))
    if pair == "cse":
        # theta = exp(cumsum(z)) (the shipped CumSumExpTransform), independent LogNormal priors on theta with the
        # transform's log-Jacobian in the joint, one Normal observation of each z_j: Gaussian in z, exactly
        h.update(m=[rng.uniform(-1, 1), rng.uniform(-1, 1)], sp=[logu(0.4, 2), logu(0.4, 2)],
                 sig=[logu(0.4, 2), logu(0.4, 2)], y=[round(rng.uniform(-2, 2), 3), round(rng.uniform(-2, 2), 3)],
                 qparam=rng.choice(["covariance_matrix", "precision_matrix", "scale_tril"]))
    if pair in ("mvn", "mvn_full"):
        def spd():
            s1, s2, r = logu(0.4, 2), logu(0.4, 2), rng.uniform(-0.7, 0.7)
            return [[s1 * s1, r * s1 * s2], [r * s1 * s2, s2 * s2]]
        # correlated bivariate normal prior on the mean, one observation per component with
        # independent noise: the posterior is a full-covariance bivariate normal
        sig = [logu(0.4, 2), logu(0.4, 2)]
        h.update(m0=[rng.uniform(-1, 1), rng.uniform(-1, 1)], S0=spd(), sig=sig,
                 S=[[sig[0] ** 2, 0.0], [0.0, sig[1] ** 2]],
                 x=[round(rng.uniform(-2, 2), 3), round(rng.uniform(-2, 2), 3)])
        if pair == "mvn_full":      # the textbook form: multivariate normal likelihood, loc = the latent mean
            h["S"] = spd()
        # the variational family: torchtree's MultivariateNormal model in its three parameterisations, or the generic
        # Distribution wrapper around torch.distributions.MultivariateNormal
        h["qparam"] = rng.choice(["covariance_matrix", "precision_matrix", "scale_tril", "generic"])
    return h


def _inv2(m):
    (a, b), (c, d) = m
    det = a * d - b * c
    return [[d / det, -b / det], [-c / det, a / det]], det


def _mv2(m, v):
    return [m[0][0] * v[0] + m[0][1] * v[1], m[1][0] * v[0] + m[1][1] * v[1]]


def _mvn_lpdf(m, S, x):
    Si, det = _inv2(S)
    dx = [x[0] - m[0], x[1] - m[1]]
    q = dx[0] * _mv2(Si, dx)[0] + dx[1] * _mv2(Si, dx)[1]
    return -0.5 * q - 0.5 * math.log(det) - 2 * HL2PI


class Spec:
    """One conjugate model: JSON objects, closed-form densities, log marginal."""
    pass


def build_spec(h, qclass, perturb):
    """perturb = None (q is the exact posterior) or a pair of factors applied to q's parameters."""
    pair = h["pair"]
    f1, f2 = perturb or (1.0, 1.0)
    s = Spec()
    s.pair, s.qclass = pair, qclass
    s.latents = []            # ids of the base Parameters that receive the draw
    s.fire = []               # variational parameters (ids) an optimiser would own
    s.entropy = None
    s.coq = None              # (lp_expr(z), lq_expr(z)) builders for the Coq density run
    objs, jd, qd = [], [], []
    lp_terms, lq_terms, logml, ent = [], [], 0.0, 0.0
    joint_id = "joint"
    q = C.qlit

    def vec(l):
        return l if len(l) > 1 else [l[0]]

    if pair in ("ge", "ge_exp", "ge_vec", "ge_list", "two", "two_vec"):
        a, b, xs = h["a"], h["b"], h["xs"]
        d, n = len(a), len(xs)
        sx = [math.fsum(r[j] for r in xs) for j in range(d)]
        qa = [(a[j] + n) * f1 for j in range(d)]
        qb = [(b[j] + sx[j]) * f2 for j in range(d)]
        if pair == "ge_exp":
            objs.append(TP("z", "torch.distributions.ExpTransform", P("z.unres", [0.0])))
            s.latents.append("z.unres")
        else:
            objs.append(P("z", [1.0] * d))
            s.latents.append("z")
        data = [r[0] for r in xs] if d == 1 else xs[0]
        if pair == "ge_list":
            # the two rates are two separate parameters; ONE variational Distribution has the LIST
            # [z1, z2] as its random variable (x: list of parameters)
            objs.pop()
            s.latents.pop()
            objs += [P("z1", [1.0]), P("z2", [1.0])]
            s.latents += ["z1", "z2"]
            for j, zid in enumerate(("z1", "z2")):
                jd += [D(f"like{j}", "torch.distributions.Exponential", P(f"data{j}", [xs[0][j]]), {"rate": zid}),
                       D(f"prior{j}", "torch.distributions.Gamma", zid, {"concentration": [a[j]], "rate": [b[j]]})]
            qd.append(D("q.z", "torch.distributions.Gamma", ["z1", "z2"],
                        {"concentration": P("q.a", vec(qa)), "rate": P("q.b", vec(qb))}))
        else:
            jd += [D("like", "torch.distributions.Exponential", P("data", data), {"rate": "z"}),
                   D("prior", "torch.distributions.Gamma", "z", {"concentration": vec(a), "rate": vec(b)})]
            qd.append(D("q.z", "torch.distributions.Gamma", "z",
                        {"concentration": P("q.a", vec(qa)), "rate": P("q.b", vec(qb))}))
        s.fire += ["q.a", "q.b"]
        via_exp = pair == "ge_exp"

        def lp_ge(lat, a=a, b=b, xs=xs, d=d, via_exp=via_exp):
            zs = [math.exp(u) for u in lat[:d]] if via_exp else lat[:d]
            t = 0.0
            for j in range(d):
                t += math.fsum(math.log(zs[j]) - zs[j] * r[j] for r in xs) + _gamma_lpdf(a[j], b[j], zs[j])
                if via_exp:
                    t += lat[j]
            return t

        def lq_ge(lat, qa=qa, qb=qb, d=d, via_exp=via_exp):
            zs = [math.exp(u) for u in lat[:d]] if via_exp else lat[:d]
            return math.fsum(_gamma_lpdf(qa[j], qb[j], zs[j]) + (lat[j] if via_exp else 0.0) for j in range(d))
        lp_terms.append((lp_ge, d))
        lq_terms.append((lq_ge, d))
        for j in range(d):
            logml += (a[j] * math.log(b[j]) - math.lgamma(a[j]) + math.lgamma(a[j] + n)
                      - (a[j] + n) * math.log(b[j] + sx[j]))
            ent += _gamma_entropy(qa[j], qb[j])
        if d == 1 and pair not in ("two", "two_vec") and perturb is None:
            args = f"(ofQ NumI {q(a[0])}) (ofQ NumI {q(b[0])})"
            xl = _il([r[0] for r in xs])
            fn = ("ge_exp_lp", "ge_exp_lq") if via_exp else ("ge_lp", "ge_lq")
            s.coq = (lambda z: f"{fn[0]} NumI {args} (ofQ NumI {q(math.lgamma(a[0]))}) {xl} (ofQ NumI {q(z[0])})",
                     lambda z: f"{fn[1]} NumI {args} (ofQ NumI {q(math.lgamma(a[0] + n))}) {xl} (ofQ NumI {q(z[0])})",
                     f"ge_logml NumI {args} (ofQ NumI {q(math.lgamma(a[0]))}) (ofQ NumI {q(math.lgamma(a[0] + n))}) {xl}")
    if pair == "gp":
        a, b, ks = h["a"][0], h["b"][0], h["ks"]
        n, sk = len(ks), sum(ks)
        qa, qb = (a + sk) * f1, (b + n) * f2
        objs.append(P("z", [1.0]))
        s.latents.append("z")
        jd += [D("like", "torch.distributions.Poisson", P("data", [float(k) for k in ks]), {"rate": "z"}),
               D("prior", "torch.distributions.Gamma", "z", {"concentration": [a], "rate": [b]})]
        qd.append(D("q.z", "torch.distributions.Gamma", "z",
                    {"concentration": P("q.a", [qa]), "rate": P("q.b", [qb])}))
        s.fire += ["q.a", "q.b"]
        lp_terms.append((lambda lat: math.fsum(k * math.log(lat[0]) - lat[0] - math.lgamma(k + 1) for k in ks)
                         + _gamma_lpdf(a, b, lat[0]), 1))
        lq_terms.append((lambda lat: _gamma_lpdf(qa, qb, lat[0]), 1))
        logml += (a * math.log(b) - math.lgamma(a) + math.lgamma(a + sk) - (a + sk) * math.log(b + n)
                  - math.fsum(math.lgamma(k + 1) for k in ks))
        ent += _gamma_entropy(qa, qb)
        if perturb is None:
            args = f"(ofQ NumI {q(a)}) (ofQ NumI {q(b)})"
            kl = _il(ks)
            gl = _il([math.lgamma(v + 1) for v in ks])
            s.coq = (lambda z: f"gp_lp NumI {args} (ofQ NumI {q(math.lgamma(a))}) {kl} {gl} (ofQ NumI {q(z[0])})",
                     lambda z: f"gp_lq NumI {args} (ofQ NumI {q(math.lgamma(a + sk))}) {kl} (ofQ NumI {q(z[0])})",
                     f"gp_logml NumI {args} (ofQ NumI {q(math.lgamma(a))}) (ofQ NumI {q(math.lgamma(a + sk))}) {kl} {gl}")
    if pair in ("nn", "nn_aff", "lnn_exp", "two", "two_vec"):
        m0, s0, sg, ys = h["m0"], h["s0"], h["sigma"], h["ys"]
        m1, s1 = nn_posterior(m0, s0, sg, ys)
        lat_id = "mu"
        if pair == "nn_aff":
            loc, scale = h["loc"], h["scale"]
            # (the keys of a JSON object have no order: the transform's arguments are written in either order)
            objs.append(TP("mu", "torch.distributions.AffineTransform", P("mu.unres", [0.1]),
                           {"scale": scale, "loc": loc} if h.get("scale_first") else {"loc": loc, "scale": scale}))
            lat_id = "mu.unres"
            qm, qs = (m1 - loc) / scale * f1, s1 / abs(scale) * f2
            jac = math.log(abs(scale))
            to_z = lambda u: loc + scale * u
        elif pair == "lnn_exp":
            objs.append(TP("mu", "torch.distributions.ExpTransform", P("mu.unres", [0.1])))
            objs.append(TP("mu.log", "torchtree.distributions.transforms.LogTransform", "mu"))
            lat_id = "mu.unres"
            qm, qs = m1 * f1, s1 * f2
        else:
            objs.append(P("mu", [0.1]))
            qm, qs = m1 * f1 + (f1 - 1.0), s1 * f2
        s.latents.append(lat_id)
        if pair == "lnn_exp":
            jd += [D("like.n", "torch.distributions.Normal", P("data.n", ys), {"loc": "mu.log", "scale": [sg]}),
                   D("prior.n", "torch.distributions.LogNormal", "mu", {"loc": [m0], "scale": [s0]})]
        else:
            jd += [D("like.n", "torch.distributions.Normal", P("data.n", ys), {"loc": "mu", "scale": [sg]}),
                   D("prior.n", "torch.distributions.Normal", "mu", {"loc": [m0], "scale": [s0]})]
        qd.append(D("q.mu", "torch.distributions.Normal", lat_id,
                    {"loc": P("q.loc", [qm]), "scale": P("q.scale", [qs])}))
        s.fire += ["q.loc", "q.scale"]
        if pair == "nn_aff":
            lp_terms.append((lambda lat: math.fsum(_normal_lpdf(to_z(lat[0]), sg, y) for y in ys)
                             + _normal_lpdf(m0, s0, to_z(lat[0])) + jac, 1))
        else:   # nn, two, and lnn_exp (which is the same function of u: see lnn_lp_eq)
            lp_terms.append((lambda lat: math.fsum(_normal_lpdf(lat[0], sg, y) for y in ys)
                             + _normal_lpdf(m0, s0, lat[0]), 1))
        lq_terms.append((lambda lat: _normal_lpdf(qm, qs, lat[0]), 1))
        logml += nn_logml(m0, s0, sg, ys, m1, s1)
        ent += _normal_entropy(qs)
        if pair not in ("two", "two_vec") and perturb is None:
            k = f"(ofQ NumI {q(HL2PI)})"
            yl = _il(ys)
            pr = f"(ofQ NumI {q(m0)}) (ofQ NumI {q(s0)}) (ofQ NumI {q(sg)})"
            post = f"(ofQ NumI {q(m1)}) (ofQ NumI {q(s1)})"
            lm = f"nn_logml NumI {k} {pr} {post} {yl}"
            if pair == "nn":
                s.coq = (lambda z: f"nn_lp NumI {k} {pr} {yl} (ofQ NumI {q(z[0])})",
                         lambda z: f"nn_lq NumI {k} {post} (ofQ NumI {q(z[0])})", lm)
            elif pair == "lnn_exp":
                s.coq = (lambda z: f"lnn_lp NumI {k} {pr} {yl} (ofQ NumI {q(z[0])})",
                         lambda z: f"nn_lq NumI {k} {post} (ofQ NumI {q(z[0])})", lm)
            else:
                aff = f"(ofQ NumI {q(loc)}) (ofQ NumI {q(scale)})"
                s.coq = (lambda z: f"nn_aff_lp NumI {k} {pr} {aff} (ofQ NumI {q(jac)}) {yl} (ofQ NumI {q(z[0])})",
                         lambda z: f"nn_aff_lq NumI {k} {post} {aff} (ofQ NumI {q(abs(scale))}) (ofQ NumI {q(z[0])})",
                         lm)
    if pair in ("bb", "bb_sig"):
        a, b, N, k = h["ba"], h["bb"], h["N"], h["k"]
        qa, qb = (a + k) * f1, (b + N - k) * f2
        via = pair == "bb_sig"
        if via:
            objs.append(TP("z", "torch.distributions.SigmoidTransform", P("z.unres", [0.2])))
            s.latents.append("z.unres")
        else:
            objs.append(P("z", [0.5]))
            s.latents.append("z")
        jd += [D("like", "torch.distributions.Binomial", P("data", [float(k)]), {"total_count": N, "probs": "z"}),
               D("prior", "torch.distributions.Beta", "z", {"concentration1": [a], "concentration0": [b]})]
        qd.append(D("q.z", "torch.distributions.Beta", "z",
                    {"concentration1": P("q.a", [qa]), "concentration0": P("q.b", [qb])}))
        s.fire += ["q.a", "q.b"]

        def lp_bb(lat):
            if via:
                lz, l1z = _log_sigmoid(lat[0]), _log_sigmoid(-lat[0])
            else:
                lz, l1z = math.log(lat[0]), math.log1p(-lat[0])
            t = _lchoose(N, k) + k * lz + (N - k) * l1z + (a - 1) * lz + (b - 1) * l1z - _lbeta(a, b)
            return t + (lz + l1z if via else 0.0)

        def lq_bb(lat):
            if via:
                lz, l1z = _log_sigmoid(lat[0]), _log_sigmoid(-lat[0])
            else:
                lz, l1z = math.log(lat[0]), math.log1p(-lat[0])
            return (qa - 1) * lz + (qb - 1) * l1z - _lbeta(qa, qb) + (lz + l1z if via else 0.0)
        lp_terms.append((lp_bb, 1))
        lq_terms.append((lq_bb, 1))
        logml += _lchoose(N, k) + _lbeta(a + k, b + N - k) - _lbeta(a, b)
        ent += _beta_entropy(qa, qb)
        if perturb is None:
            ab = f"(ofQ NumI {q(a)}) (ofQ NumI {q(b)})"
            nk = f"(ofQ NumI {q(N)}) (ofQ NumI {q(k)})"
            lB, lBp, lC = (f"(ofQ NumI {q(_lbeta(a, b))})", f"(ofQ NumI {q(_lbeta(a + k, b + N - k))})",
                           f"(ofQ NumI {q(_lchoose(N, k))})")
            fn = ("bb_sig_lp", "bb_sig_lq") if via else ("bb_lp", "bb_lq")
            s.coq = (lambda z: f"{fn[0]} NumI {ab} {lB} {nk} {lC} (ofQ NumI {q(z[0])})",
                     lambda z: f"{fn[1]} NumI {ab} {lBp} {nk} (ofQ NumI {q(z[0])})",
                     f"bb_logml NumI {lB} {lBp} {lC}")
    if pair == "cse":
        m, sp, sig, y = h["m"], h["sp"], h["sig"], h["y"]
        # c = L z with L = [[1,0],[1,1]];  prior: c_i ~ N(m_i, sp_i)  (LogNormal on theta_i = exp(c_i) times |d theta / d z|)
        # precision of z:  L^T diag(1/sp^2) L + diag(1/sig^2);   linear term: L^T diag(1/sp^2) m + y / sig^2
        w = [1.0 / (sp[0] ** 2), 1.0 / (sp[1] ** 2)]
        Pz = [[w[0] + w[1] + 1.0 / sig[0] ** 2, w[1]], [w[1], w[1] + 1.0 / sig[1] ** 2]]
        t = [w[0] * m[0] + w[1] * m[1] + y[0] / sig[0] ** 2, w[1] * m[1] + y[1] / sig[1] ** 2]
        S1, _ = _inv2(Pz)
        S1 = [[S1[0][0], (S1[0][1] + S1[1][0]) / 2], [(S1[0][1] + S1[1][0]) / 2, S1[1][1]]]
        m1 = _mv2(S1, t)
        qm = [m1[0] * f1 + (f1 - 1), m1[1] * f1]
        qS = [[S1[i][j] * f2 for j in range(2)] for i in range(2)]
        objs.append(TP("theta", "torchtree.distributions.transforms.CumSumExpTransform", P("z", [0.0, 0.0])))
        s.latents.append("z")
        jd += [D("like", "torch.distributions.Normal", P("data", y), {"loc": "z", "scale": sig}),
               D("prior", "torch.distributions.LogNormal", "theta", {"loc": m, "scale": sp})]
        qpar = h.get("qparam", "covariance_matrix")
        if qpar == "precision_matrix":
            qmat, _ = _inv2(qS)
            qmat = [[qmat[0][0], (qmat[0][1] + qmat[1][0]) / 2], [(qmat[0][1] + qmat[1][0]) / 2, qmat[1][1]]]
        elif qpar == "scale_tril":
            l11 = math.sqrt(qS[0][0])
            l21 = qS[1][0] / l11
            qmat = [[l11, 0.0], [l21, math.sqrt(qS[1][1] - l21 * l21)]]
        else:
            qmat = qS
        qd.append({"id": "q.z", "type": "MultivariateNormal", "x": "z",
                   "parameters": {"loc": P("q.loc", qm), qpar: P("q.cov", qmat)}})
        s.fire += ["q.loc"]

        def lp_cse(lat, m=m, sp=sp, sig=sig, y=y):
            c = [lat[0], lat[0] + lat[1]]
            return (math.fsum(_normal_lpdf(lat[j], sig[j], y[j]) for j in range(2))
                    + math.fsum(_normal_lpdf(m[j], sp[j], c[j]) for j in range(2)))
        lp_terms.append((lp_cse, 2))
        lq_terms.append((lambda lat: _mvn_lpdf(qm, qS, lat), 2))
        # log marginal = log p(z) - log posterior(z) at any z (here z = 0), the posterior being N(m1, S1)
        logml += lp_cse([0.0, 0.0]) - _mvn_lpdf(m1, S1, [0.0, 0.0])
        _, det = _inv2(qS)
        ent += 1 + 2 * HL2PI + 0.5 * math.log(det)
    if pair in ("mvn", "mvn_full"):
        m0, S0, S, x = h["m0"], h["S0"], h["S"], h["x"]
        S0i, _ = _inv2(S0)
        Si, _ = _inv2(S)
        S1, _ = _inv2([[S0i[i][j] + Si[i][j] for j in range(2)] for i in range(2)])
        S1 = [[S1[0][0], (S1[0][1] + S1[1][0]) / 2], [(S1[0][1] + S1[1][0]) / 2, S1[1][1]]]
        t = [_mv2(S0i, m0)[i] + _mv2(Si, x)[i] for i in range(2)]
        m1 = _mv2(S1, t)
        qm = [m1[0] * f1 + (f1 - 1), m1[1] * f1]
        qS = [[S1[i][j] * f2 for j in range(2)] for i in range(2)]
        objs.append(P("mu", [0.0, 0.0]))
        s.latents.append("mu")
        like = (D("like", "torch.distributions.Normal", P("data", x), {"loc": "mu", "scale": h["sig"]})
                if pair == "mvn" else
                D("like", "torch.distributions.MultivariateNormal", P("data", x), {"loc": "mu", "covariance_matrix": S}))
        jd += [like,
               D("prior", "torch.distributions.MultivariateNormal", "mu",
                 {"loc": m0, "covariance_matrix": S0})]
        # the three parameterisations of the variational multivariate normal
        qpar = h.get("qparam", "covariance_matrix")
        if qpar == "precision_matrix":
            qmat, _ = _inv2(qS)
            qmat = [[qmat[0][0], (qmat[0][1] + qmat[1][0]) / 2], [(qmat[0][1] + qmat[1][0]) / 2, qmat[1][1]]]
        elif qpar == "scale_tril":
            l11 = math.sqrt(qS[0][0])
            l21 = qS[1][0] / l11
            qmat = [[l11, 0.0], [l21, math.sqrt(qS[1][1] - l21 * l21)]]
        else:
            qmat = qS
        if qpar == "generic":
            qd.append(D("q.mu", "torch.distributions.MultivariateNormal", "mu",
                        {"loc": P("q.loc", qm), "covariance_matrix": P("q.cov", qS)}))
        else:
            qd.append({"id": "q.mu", "type": "MultivariateNormal", "x": "mu",
                       "parameters": {"loc": P("q.loc", qm), qpar: P("q.cov", qmat)}})
        s.fire += ["q.loc"]
        lp_terms.append((lambda lat: _mvn_lpdf(lat, S, x) + _mvn_lpdf(m0, S0, lat), 2))
        lq_terms.append((lambda lat: _mvn_lpdf(qm, qS, lat), 2))
        logml += _mvn_lpdf(m0, [[S0[i][j] + S[i][j] for j in range(2)] for i in range(2)], x)
        _, det = _inv2(qS)
        ent += 1 + 2 * HL2PI + 0.5 * math.log(det)

    objs.append(JDM("joint", jd))
    if pair in ("ge_exp", "bb_sig"):
        objs.append(JDM("joint.jacobian", ["joint", "z"]))
        joint_id = "joint.jacobian"
        objs.append(JDM("variational", qd + ["z"]))
        var_id = "variational"
    elif pair in ("nn_aff", "lnn_exp"):
        objs.append(JDM("joint.jacobian", ["joint", "mu"]))
        joint_id = "joint.jacobian"
    elif pair == "cse":
        objs.append(JDM("joint.jacobian", ["joint", "theta"]))
        joint_id = "joint.jacobian"
    if pair not in ("ge_exp", "bb_sig"):
        if qclass == "joint":
            objs.append(JDM("variational", qd))
            var_id = "variational"
        else:
            assert len(qd) == 1
            objs.append(qd[0])
            var_id = qd[0]["id"]
    s.objs, s.joint_id, s.var_id = objs, joint_id, var_id
    s.dims = [d for _, d in lp_terms]

    def split(lat):
        out, i = [], 0
        for d in s.dims:
            out.append(lat[i:i + d])
            i += d
        return out
    s.lp = lambda lat: math.fsum(f(part) for (f, _), part in zip(lp_terms, split(lat)))
    s.lq = lambda lat: math.fsum(f(part) for (f, _), part in zip(lq_terms, split(lat)))
    s.logml = logml
    s.entropy = ent
    return s


# ----------------------------------------------------------------------------- cases

def gen_cases(rng, tier):
    """(objective, shape, q class, tight/perturbed) grid with rotating scalar-latent pairs, plus a
    fixed grid for the vector-latent pairs (2-vector gamma-exponential, bivariate normal)."""
    shapes = [[S] for S in range(1, 9)] + [[1, 3], [2, 1], [2, 2], [3, 4], [4, 2], [2, 5]]
    if tier != "quick":
        shapes += [[S, K] for S in range(1, 9) for K in range(1, 6)] + [[16], [32]]
    variants = [("ELBO", None), ("ELBO-entropy", None), ("VR", 0.5), ("VR", 2.0), ("VR", 0.0), ("VR", -1.5),
                ("CUBO", 2.0), ("CUBO", 1.5), ("KLpq", None)]
    reps = 1 if tier == "quick" else 4
    cases, i = [], 0

    def mk(obj, par, shape, qclass, tight, pair):
        c = dict(obj=obj, par=par, shape=shape, qclass=qclass, tight=tight, hyper=gen_hyper(rng, pair),
                 perturb=None if tight else (round(rng.uniform(0.75, 1.35), 3), round(rng.uniform(0.75, 1.35), 3)),
                 torch_seed=rng.randrange(2 ** 31))
        # a third of the requests override the configured sample shape with the `samples=` keyword
        # (as the convergence monitor does): `shape` is always the shape REQUESTED
        if rng.random() < 0.34:
            alt = [x for x in ([1], [3], [5], [1, 2], [2, 3], [3, 1], [4, 5]) if x != shape]
            c["configured"] = rng.choice(alt)
        return c
    for rep in range(reps):
        for obj, par in variants:
            for shape in shapes:
                for qclass in ("joint", "bare"):
                    for tight in (True, False):
                        pool = [p for p in REGULAR if (qclass == "joint" or p in BARE_OK)
                                and not (obj == "ELBO-entropy" and p in NO_ENTROPY)]
                        pair = pool[(i + rng.randrange(len(pool))) % len(pool)]
                        i += 1
                        if qclass == "bare" and not tight and rng.random() < 0.5:
                            continue        # perturbed bare cases add little: thin them out
                        cases.append(mk(obj, par, shape, qclass, tight, pair))
        for pair in ("ge_vec", "ge_list", "mvn", "cse"):
            for obj, par in [("ELBO", None), ("ELBO-entropy", None), ("VR", 0.5), ("CUBO", 2.0), ("KLpq", None)]:
                for shape in ([1], [2], [3], [1, 3], [3, 2]):
                    for qclass in ("joint", "bare"):
                        cases.append(mk(obj, par, shape, qclass, True, pair))
        # a joint q whose components have DIFFERENT sizes ([2] gamma rates next to [1] normal mean)
        for obj, par in [("ELBO", None), ("ELBO-entropy", None), ("VR", 0.5), ("KLpq", None)]:
            for shape in ([1], [3], [2, 2]):
                cases.append(mk(obj, par, shape, "joint", True, "two_vec"))
        for obj, par in [("ELBO", None), ("VR", 0.5), ("CUBO", 2.0), ("KLpq", None)]:
            for shape in ([1], [3], [2, 2]):
                cases.append(mk(obj, par, shape, "bare", True, "mvn_full"))
        # every pair that has a Coq density gets its densities compared on a few draws
        for pair in ("ge", "gp", "nn", "bb", "ge_exp", "bb_sig", "nn_aff", "lnn_exp"):
            cases.append(dict(mk("ELBO", None, [3], "joint", True, pair), dens=True))
            cases.append(dict(mk("VR", 0.5, [2], "joint", True, pair), dens=True))
    return cases


def shape_class(shape):
    if len(shape) == 1:
        return "[1]" if shape[0] == 1 else "[S]"
    return "[1,K]" if shape[0] == 1 else "[S,K]"


def case_key(c):
    """Stable key of an input class: objective x sample-shape class x what q() returns.
    q = joint: one log density per draw (JointDistributionModel, MultivariateNormal model);
    q = bare-Distribution: a factorised torch distribution wrapped directly, q() returns one
    value per component ([..., d], d = 1 or 2) -- one root cause, so S = 1 / S > 1 are merged."""
    pair, joint, shape = c["hyper"]["pair"], c["qclass"] == "joint", c["shape"]
    if pair == "mvn_full":
        return "C14:p=joint[MultivariateNormal-likelihood]"
    if not joint and pair not in ("mvn", "mvn_full", "cse"):
        return f"C14:{c['obj']}:{'[S]' if len(shape) == 1 else '[S,K]'}:q=bare-Distribution"
    if pair == "mvn" and joint and c["obj"] == "ELBO-entropy" and len(shape) == 1:
        return "C14:ELBO-entropy:[S]:q=joint[MultivariateNormal]"
    return f"C14:{c['obj']}:{shape_class(shape)}:q=joint"


# ----------------------------------------------------------------------------- implementation

def _instrument(torch, model, tag, latents, log):
    cls = model.__class__

    def snap():
        return [p.tensor.detach().clone() for p in latents]

    def _call(self, *a, **k):
        out = cls._call(self, *a, **k)
        log.append((tag + ".eval", snap(), out.detach().clone()))
        return out
    d = {"_call": _call}
    if hasattr(cls, "rsample"):
        def rsample(self, sample_shape=torch.Size()):
            cls.rsample(self, sample_shape)
            log.append((tag + ".draw", snap(), tuple(sample_shape)))

        def sample(self, sample_shape=torch.Size()):
            cls.sample(self, sample_shape)
            log.append((tag + ".draw", snap(), tuple(sample_shape)))

        def entropy(self):
            out = cls.entropy(self)
            log.append((tag + ".entropy", None, out.detach().clone()))
            return out
        d.update(rsample=rsample, sample=sample, entropy=entropy)
    model.__class__ = type(cls.__name__, (cls,), d)


def run_impl(c):
    """Builds the model, performs three evaluation requests, returns the recorded trace."""
    torch = impl.load()
    from torchtree.core.utils import process_object
    logging.disable(logging.CRITICAL)
    spec = build_spec(c["hyper"], c["qclass"], c["perturb"])
    dic = {}
    for o in spec.objs:
        process_object(o, dic)
    conf = c.get("configured") or c["shape"]
    samples = conf[0] if len(conf) == 1 else list(conf)
    od = {"id": "objective", "type": {"ELBO-entropy": "ELBO"}.get(c["obj"], c["obj"]), "samples": samples,
          "joint": spec.joint_id, "variational": spec.var_id}
    if c["obj"] == "ELBO-entropy":
        od["entropy"] = True
    if c["obj"] == "VR":
        od["alpha"] = c["par"]
    if c["obj"] == "CUBO":
        od["n"] = c["par"]
    obj = process_object(od, dic)
    latents = [dic[i] for i in spec.latents]
    log = []
    _instrument(torch, obj.p, "p", latents, log)
    _instrument(torch, obj.q, "q", latents, log)
    torch.manual_seed(c["torch_seed"])
    requests = []
    for r in range(3):
        if r == 2:
            # what Optimizer._run does between iterations: the variational parameters fire
            for pid in spec.fire:
                dic[pid].fire_parameter_changed()
        del log[:]
        try:
            v = obj(samples=torch.Size(c["shape"])) if c.get("configured") else obj()
            err = None
        except Exception as e:                       # noqa: BLE001 - any failure is an outcome
            v, err = None, f"{type(e).__name__}: {str(e)[:160]}"
        requests.append(dict(value=None if v is None else v.detach().clone(), error=err, log=list(log)))
    return spec, requests


def _to_rows(torch, t, shape):
    """recorded density tensor -> python floats of the sample shape: trailing (event) dimensions a
    factorised q leaves un-summed are summed, which is the log density of the draw."""
    n = 1
    for s in shape:
        n *= s
    if t.numel() % n != 0 or tuple(t.shape[:len(shape)]) != tuple(shape):
        return None
    t = t.reshape(tuple(shape) + (-1,)).sum(-1)
    return t.tolist()


def analyse_request(torch, c, spec, req):
    """-> dict(lp, lq, lat, h, problems=[(kind, text)]) for one evaluation request."""
    shape = c["shape"]
    out = dict(lp=None, lq=None, lat=None, h=None, problems=[], drew=False)
    draws = [e for e in req["log"] if e[0] == "q.draw"]
    pe = [e for e in req["log"] if e[0] == "p.eval"]
    qe = [e for e in req["log"] if e[0] == "q.eval"]
    he = [e for e in req["log"] if e[0] == "q.entropy"]
    out["drew"] = bool(draws)
    if not draws:
        return out
    lat = torch.cat([t.reshape(tuple(shape) + (-1,)) for t in draws[-1][1]], -1) \
        if all(t.numel() % max(1, math.prod(shape)) == 0 and tuple(t.shape[:len(shape)]) == tuple(shape)
               for t in draws[-1][1]) else None
    if lat is None:
        out["problems"].append(("draw-shape", f"draw has shapes {[tuple(t.shape) for t in draws[-1][1]]} "
                                              f"for requested sample shape {shape}"))
        return out
    out["lat"] = lat.reshape(-1, lat.shape[-1]).tolist()
    for name, evs in (("p", pe), ("q", qe)):
        for e in evs:
            if not all(torch.equal(a, b) for a, b in zip(e[1], draws[-1][1])):
                out["problems"].append(("pairing", f"{name}() was evaluated at a different draw than the one "
                                                   f"made for this request"))
    if len(draws) != 1:
        out["problems"].append(("pairing", f"{len(draws)} draws were made for one request"))
    if pe:
        out["lp"] = _to_rows(torch, pe[-1][2], shape)
        if out["lp"] is None:
            out["problems"].append(("p-shape", f"p() returned shape {tuple(pe[-1][2].shape)} for sample shape {shape}"))
    if qe:
        out["lq"] = _to_rows(torch, qe[-1][2], shape)
        if out["lq"] is None:
            out["problems"].append(("q-shape", f"q() returned shape {tuple(qe[-1][2].shape)} for sample shape {shape}"))
    if he:
        out["h"] = float(he[-1][2].sum())
    # the densities returned are those of THIS draw (closed forms evaluated by the harness)
    flat = lambda rows: rows if len(shape) == 1 else [x for r in rows for x in r]
    for name, rows, fn in (("p", out["lp"], spec.lp), ("q", out["lq"], spec.lq)):
        if rows is None:
            continue
        for lat_s, got in zip(out["lat"], flat(rows)):
            try:
                want = fn(lat_s)
            except (ValueError, OverflowError):
                continue
            if not abs(got - want) <= 1e-8 * max(1.0, abs(want)):
                out["problems"].append(("stale-density", f"{name}() returned {got!r} at draw {lat_s}, the density "
                                                         f"there is {want!r}"))
                break
    return out


def tol_of(an):
    vals = [1.0]
    for rows in (an["lp"], an["lq"]):
        if rows:
            for r in rows:
                vals += [abs(x) for x in (r if isinstance(r, list) else [r])]
    return 1e-8 * max(vals)


def expected_value(c, spec, an):
    """closed-form value the property demands for a tight case (None: not determined)."""
    if c["obj"] == "ELBO-entropy" and len(c["shape"]) == 1:
        # restated identity: c + (mean_s lq_s + H), lq from the closed form at the recorded draw
        lqs = [spec.lq(l) for l in an["lat"]]
        return spec.logml + (math.fsum(lqs) / len(lqs) + spec.entropy)
    return spec.logml


# ----------------------------------------------------------------------------- Coq expressions

def _cl(items, elem=str):
    """cons-list syntax: in bigZ_scope the singleton `[x]` is the notation for BigZ.to_Z x."""
    return "(" + " :: ".join([elem(i) for i in items] + ["nil"]) + ")"


def _il(xs):
    return _cl(xs, lambda v: f"ofQ NumI {C.qlit(v)}")


def coq_objective(c, an):
    obj, shape = c["obj"], c["shape"]
    if len(shape) == 1:
        lp, lq = _il(an["lp"]), (_il(an["lq"]) if an["lq"] is not None else None)
        if obj == "ELBO":
            e = f"elbo NumI {lp} {lq}"
        elif obj == "ELBO-entropy":
            e = f"elbo_entropy NumI {lp} (ofQ NumI {C.qlit(an['h'])})"
        elif obj == "VR":
            e = f"vr NumI {C.qlit(c['par'])} {lp} {lq}"
        elif obj == "CUBO":
            e = f"cubo NumI {C.qlit(c['par'])} {lp} {lq}"
        else:
            e = f"klpq NumI {lp} {lq}"
    else:
        lp = _cl(an["lp"], _il)
        lq = _cl(an["lq"], _il)
        if obj in ("ELBO", "ELBO-entropy"):
            e = f"elbo_multi NumI {lp} {lq}"
        elif obj == "VR":
            e = f"vr_multi NumI {C.qlit(c['par'])} {lp} {lq}"
        elif obj == "CUBO":
            e = f"cubo_multi NumI {C.qlit(c['par'])} {lp} {lq}"
        else:
            e = f"klpq_multi NumI {lp} {lq}"
    return f"show_i ({e})"


def within(x, iv, tol):
    if iv is None:
        return None
    lo, hi = iv
    t = Fraction(tol)
    if not math.isfinite(x):
        return False
    return lo - t <= Fraction(x) <= hi + t


# ----------------------------------------------------------------------------- objects built with the public constructors

def constructor_built(rng):
    """The gamma-exponential model through exp (z = exp(u), Jacobian term u) built with the PUBLIC CONSTRUCTORS and
    anonymous objects (id None), as the repository's tests build theirs — not from JSON.  q = exact posterior:
    every objective must return the log marginal likelihood.  -> list of (key, text, replay)"""
    torch = impl.load()
    from collections import OrderedDict
    from torchtree import Parameter
    from torchtree.core.parameter import TransformedParameter
    from torchtree.distributions.distributions import Distribution
    from torchtree.distributions.joint_distribution import JointDistributionModel
    from torchtree.variational.kl import ELBO
    from torchtree.variational.renyi import VR
    out = []
    a, b = round(rng.uniform(1.0, 4.0), 2), round(rng.uniform(0.5, 3.0), 2)
    xs = [round(rng.uniform(0.1, 2.5), 3) for _ in range(rng.randint(1, 4))]
    n, sx = len(xs), math.fsum(xs)
    logml = a * math.log(b) - math.lgamma(a) + math.lgamma(a + n) - (a + n) * math.log(b + sx)
    T = lambda v: torch.tensor(v, dtype=torch.float64)
    for layout in ("flat", "nested"):
        u = Parameter(None, T([0.1]))
        z = TransformedParameter(None, u, torch.distributions.ExpTransform())
        like = Distribution(None, torch.distributions.Exponential, Parameter(None, T(xs)), OrderedDict(rate=z))
        prior = Distribution(None, torch.distributions.Gamma, z,
                             OrderedDict(concentration=Parameter(None, T([a])), rate=Parameter(None, T([b]))))
        if layout == "flat":
            joint = JointDistributionModel(None, [prior, like, z])
        else:
            joint = JointDistributionModel(None, [JointDistributionModel(None, [prior, like]), z])
        qz = Distribution(None, torch.distributions.Gamma, z,
                          OrderedDict(concentration=Parameter(None, T([a + n])), rate=Parameter(None, T([b + sx]))))
        q = JointDistributionModel(None, [qz, z])
        # the density itself at a fixed point
        want = (math.fsum(0.1 - math.exp(0.1) * x for x in xs) + a * math.log(b) - math.lgamma(a)
                + (a - 1) * 0.1 - b * math.exp(0.1) + 0.1)
        got = float(joint().sum())
        if not abs(got - want) <= 1e-9 * max(1.0, abs(want)):
            out.append((f"C14:constructor-built:{layout}:joint", f"joint of anonymous objects built with the constructors "
                        f"({layout} layout) returns {got!r}, closed form {want!r}",
                        dict(layout=layout, a=a, b=b, xs=xs)))
            continue
        for name, obj in (("ELBO", ELBO(None, q, joint, torch.Size([3]))),
                          ("ELBO[S,K]", ELBO(None, q, joint, torch.Size([2, 3]))),
                          ("VR", VR(None, q, joint, torch.Size([4]), alpha=0.5))):
            torch.manual_seed(rng.randrange(2 ** 31))
            try:
                v = float(obj())
            except Exception as e:  # noqa
                out.append((f"C14:constructor-built:{layout}:{name}:raises", f"{name} on objects built with the "
                            f"constructors ({layout}): {type(e).__name__}: {str(e)[:120]}", dict(layout=layout)))
                continue
            if not abs(v - logml) <= 1e-8 * max(1.0, abs(logml)):
                out.append((f"C14:constructor-built:{layout}:{name}", f"{name} at the exact posterior, objects built with "
                            f"the constructors ({layout} layout): {v!r}, log marginal likelihood {logml!r}",
                            dict(layout=layout, a=a, b=b, xs=xs, objective=name)))
    return out


# ----------------------------------------------------------------------------- run

def public(c):
    d = {k: c[k] for k in ("obj", "par", "shape", "qclass", "tight", "hyper", "perturb", "torch_seed")}
    if c.get("configured"):
        d["configured"] = c["configured"]
    return d


def run(tier, seed, replay=None):
    torch = impl.load()
    torch.set_num_threads(1)
    rep = C.Report(PID, tier, seed)
    rep.trusted = C.COMMON_TRUSTED + [
        "hand-written model model/M_vi.v (objectives tied by correspondence on recorded p()/q() tensors; "
        "densities of the conjugate pairs tied by correspondence on recorded p()/q() values)",
        "Paramcoq-generated free theorems + Interval library correctness lemmas (kernel-checked)",
        "oracle values handed to the Coq density runs: math.lgamma, ln sqrt(2 pi); torch.digamma in the "
        "closed-form entropies; torch.distributions samplers/log_prob rounding (compared under relative 1e-8)",
        "instrumentation: dynamic subclass of the p / q model classes overriding _call/rsample/sample/entropy "
        "to record and delegate (object graph and listeners untouched)"]
    rng = random.Random(seed)
    cases = gen_cases(rng, tier)
    if replay:
        cases = [json.load(open(replay))["replay"]["case"]]

    t0 = time.time()
    runs = []
    for c in cases:
        try:
            spec, reqs = run_impl(c)
            runs.append((spec, reqs, None))
        except Exception as e:                        # noqa: BLE001 - construction failure is an outcome
            runs.append((None, None, f"{type(e).__name__}: {str(e)[:200]}"))
    rep.timings["impl"] = round(time.time() - t0, 2)

    analysed = []          # per case: list of per-request analyses
    found = []             # (key, what, replay)

    def add(key, what, c, **kw):
        found.append((key, what, dict(case=public(c), **kw)))

    for c, (spec, reqs, berr) in zip(cases, runs):
        key = case_key(c)
        cls = "ELBO" if c["obj"] == "ELBO-entropy" else c["obj"]
        if berr:
            add(key, f"model construction fails: {berr}", c)
            analysed.append(None)
            continue
        ans = [analyse_request(torch, c, spec, r) if r["error"] is None else None for r in reqs]
        analysed.append(ans)
        # --- requests 1 and 3 are genuinely new requests (3 follows a parameter-changed event)
        for ri in (0, 2):
            r, an = reqs[ri], ans[ri]
            if r["error"]:
                add(key, f"request {ri + 1} with samples={c['shape']} raises {r['error']}", c, request=ri + 1)
                continue
            if not an["drew"]:
                add(f"C14:no-fresh-draw:{cls}", f"request {ri + 1} made no draw", c, request=ri + 1)
                continue
            for kind, text in an["problems"]:
                k2 = {"pairing": f"C14:pairing:{cls}", "stale-density": f"C14:stale-density:{cls}"}.get(kind, key)
                add(k2, f"request {ri + 1}: {text}", c, request=ri + 1)
            v = r["value"]
            if v.numel() != 1:
                add(key, f"objective returned a tensor of shape {tuple(v.shape)} (values {v.flatten().tolist()[:4]}) "
                         f"instead of one number", c, request=ri + 1)
                continue
            if c["tight"] and an["lat"] is not None:
                want = expected_value(c, spec, an)
                if not abs(float(v) - want) <= tol_of(an):
                    what = (f"q = exact posterior, samples={c['shape']}: objective returned {float(v)!r}, "
                            + ("restated identity c + (mean lq + H) = " if c["obj"] == "ELBO-entropy"
                               and len(c["shape"]) == 1 else "log marginal likelihood = ") + f"{want!r}")
                    add(key, what, c, request=ri + 1, value=float(v), expected=want)
            if c["obj"] == "ELBO-entropy" and an["h"] is not None and \
                    not abs(an["h"] - spec.entropy) <= 1e-8 * max(1.0, abs(spec.entropy)):
                add(f"C14:entropy-value:{spec.pair}", f"q.entropy().sum() = {an['h']!r}, closed form {spec.entropy!r}",
                    c, request=ri + 1)
        # --- request 2 follows request 1 with nothing in between: it must draw afresh
        r1, r2 = reqs[0], reqs[1]
        if r1["error"] is None and r2["error"] is None and ans[0]["drew"]:
            a2 = ans[1]
            if not a2["drew"]:
                same = bool(torch.equal(r1["value"], r2["value"]))
                add(f"C14:no-fresh-draw:{cls}",
                    f"second consecutive request obj() made no draw and evaluated neither p nor q"
                    f"{' (returned the cached ' + repr(float(r1['value'].flatten()[0])) + ')' if same else ''}",
                    c, request=2)
            else:
                if a2["lat"] is not None and ans[0]["lat"] is not None and a2["lat"] == ans[0]["lat"]:
                    add(f"C14:no-fresh-draw:{cls}", "second request re-used the draw of the first", c, request=2)
                for kind, text in a2["problems"]:
                    k2 = {"pairing": f"C14:pairing:{cls}", "stale-density": f"C14:stale-density:{cls}"}.get(kind, key)
                    add(k2, f"request 2: {text}", c, request=2)
                if c["tight"] and a2["lat"] is not None and r2["value"].numel() == 1:
                    want = expected_value(c, spec, a2)
                    if not abs(float(r2["value"]) - want) <= tol_of(a2):
                        add(key, f"q = exact posterior, samples={c['shape']}: second request returned "
                                 f"{float(r2['value'])!r}, expected {want!r}", c, request=2)

    def search():
        return found

    C.handle_proof(rep, PID, search)
    for f in found:
        rep.violation(*f)

    # ------------------------------------------------------------------ correspondence (Coq NumI)
    t0 = time.time()
    exprs, index = [], []
    dens_budget = 20 if tier == "quick" else 400
    for ci, (c, (spec, reqs, berr)) in enumerate(zip(cases, runs)):
        if berr or analysed[ci] is None:
            continue
        an, r = analysed[ci][0], reqs[0]
        if an is None or not an["drew"] or an["lp"] is None or an["lat"] is None:
            continue
        if c["obj"] != "ELBO-entropy" or len(c["shape"]) == 2:
            if an["lq"] is None:
                continue
        elif an["h"] is None:
            continue
        exprs.append(coq_objective(c, an))
        index.append((ci, "objective", None))
        if spec.coq and (c.get("dens") or dens_budget > 0) and len(c["shape"]) == 1 and c["shape"][0] <= 3 and c["qclass"] == "joint" \
                and an["lq"] is not None:
            dens_budget -= 1
            lat = an["lat"]
            exprs.append("concat (map show_i " + _cl([spec.coq[0](z) for z in lat]) + ")")
            index.append((ci, "lp", None))
            exprs.append("concat (map show_i " + _cl([spec.coq[1](z) for z in lat]) + ")")
            index.append((ci, "lq", None))
            exprs.append(f"show_i ({spec.coq[2]})")
            index.append((ci, "logml", None))
    res = C.run_cases(PID, HEADER, exprs, shard=max(8, len(exprs) // 32 + 1)) if exprs else []
    rep.timings["model_eval"] = round(time.time() - t0, 2)

    undefined, validated, dens_validated = 0, 0, 0
    dist = {}
    for (ci, what, _), flat in zip(index, res):
        c, (spec, reqs, _) = cases[ci], runs[ci]
        an, r = analysed[ci][0], reqs[0]
        key = case_key(c)
        ivs = [C.ival_to_fracs(flat[k:k + 6]) for k in range(0, len(flat), 6)]
        if what == "objective":
            dist[f"{c['obj']}/{spec.pair}"] = dist.get(f"{c['obj']}/{spec.pair}", 0) + 1
            v = r["value"]
            rep.case(public(c), nontrivial=math.prod(c["shape"]) > 1,
                     sample=dict(objective=c["obj"], par=c["par"], shape=c["shape"], q=c["qclass"], pair=spec.pair,
                                 tight=c["tight"], impl_value=v.flatten().tolist()[:3],
                                 log_marginal=spec.logml))
            if v.numel() != 1:
                continue                      # already reported above
            ok = within(float(v), ivs[0], tol_of(an))
            if ok is None:
                undefined += 1
            elif ok:
                validated += 1
            else:
                lo, hi = ivs[0]
                rep.violation(key, f"samples={c['shape']}, q {'= exact posterior' if c['tight'] else 'perturbed'}: "
                                   f"objective returned {float(v)!r}; the model M_vi on the tensors p() and q() "
                                   f"returned for that draw gives [{float(lo)!r}, {float(hi)!r}]",
                              dict(case=public(c), request=1, value=float(v), model=[float(lo), float(hi)],
                                   lp=an["lp"], lq=an["lq"]))
            # the model value itself must be the log marginal on tight cases (theorem instance)
            if c["tight"] and ok is not None and not (c["obj"] == "ELBO-entropy" and len(c["shape"]) == 1):
                if within(spec.logml, ivs[0], tol_of(an)) is False:
                    rep.violation(f"C14:model-not-tight:{c['obj']}",
                                  f"model value {float(ivs[0][0])!r} differs from the log marginal {spec.logml!r} "
                                  f"on the recorded densities: p() - q() is not constant over the draw",
                                  dict(case=public(c), lp=an["lp"], lq=an["lq"]), False)
        elif what in ("lp", "lq"):
            rows = an[what]
            bad = None
            if len(ivs) != len(rows):
                bad = f"{len(ivs)} model values for {len(rows)} samples"
            for got, iv in zip(rows, ivs):
                ok = within(got, iv, 1e-8 * max(1.0, abs(got)))
                if ok is None:
                    undefined += 1
                elif not ok:
                    bad = (f"{'p' if what == 'lp' else 'q'}() returned {got!r}; the Coq density of the "
                           f"{spec.pair} pair at that draw is [{float(iv[0])!r}, {float(iv[1])!r}]")
                    break
                else:
                    dens_validated += 1
            if bad:
                rep.violation(f"C14:density:{spec.pair}:{what}", bad, dict(case=public(c), lat=an["lat"], got=rows))
        else:
            ok = within(spec.logml, ivs[0], 1e-8 * max(1.0, abs(spec.logml)))
            if ok is False:
                rep.violation(f"C14:logml:{spec.pair}", f"harness closed form {spec.logml!r} vs Coq "
                                                        f"[{float(ivs[0][0])!r}, {float(ivs[0][1])!r}]",
                              dict(case=public(c)), False)

    crng = random.Random(seed + 31)
    for _ in range(3 if tier == "quick" else 20):
        try:
            fs = constructor_built(crng)
        except Exception as e:  # noqa
            fs = [(f"C14:constructor-built:raises:{type(e).__name__}", f"{type(e).__name__}: {str(e)[:160]}", {})]
        rep.case(dict(constructor_built=_), nontrivial=True)
        for f in fs:
            rep.violation(*f)
    rep.rule = ("grid objective in {ELBO, ELBO(entropy), VR(alpha in .5,2,0,-1.5), CUBO(n in 2,1.5), KLpq} x sample "
                "shape in {[1..8]} + {[1,3],[2,1],[2,2],[3,4],[4,2],[2,5]} (thorough: all [1..8,1..5], [16], [32]) x "
                "q in {JointDistributionModel, bare Distribution} x {q = exact posterior, q perturbed}; conjugate pair "
                "rotating over gamma-exponential, gamma-Poisson, normal-normal, beta-binomial, gamma-exponential via "
                "exp, beta-binomial via sigmoid, normal-normal via affine, lognormal-normal via exp (q normal on the "
                "unconstrained parameter), two-block mean field, 2-vector gamma-exponential, bivariate normal; "
                "hyper-parameters log-uniform, 1-5 observations; 3 evaluation requests per case (2nd immediately "
                "after the 1st, 3rd after a parameter-changed event); non-trivial = more than one sample")
    rep.assumptions = [
        "tight_* : the sample list (and every row of a [S,K] table) is non-empty; alpha <> 1; n <> 0",
        "bayes_constant_normal_* : sigma <> 0, s0 <> 0 and the closed-form posterior relation nn_post; affine variant: "
        "scale <> 0, ascale = |scale| > 0, s1 > 0",
        "lgamma, log-beta, ln C(n,k), ln sqrt(2 pi) enter the Bayes-constant theorems as arbitrary reals (no property of "
        "lgamma is used); their numerical values in the runs come from math.lgamma",
        "two-block, 2-vector gamma-exponential and bivariate-normal pairs: exactness checked on the implementation against "
        "harness closed forms only (their Bayes constants are sums / matrix identities not restated in Coq)"]
    rep.extra = dict(input_distribution=dist, model_undefined=undefined,
                     traces_validated_against_impl=validated, density_values_validated=dens_validated,
                     out_of_scope=["ELBO(score=True) and KLpqImportance return surrogate losses whose value is not "
                                   "the bound", "SELBO (mixture families have no conjugate posterior here)",
                                   "ELBO(entropy) with q = density(z(u)) + Jacobian (q.entropy() is not H(q_u))"])
    return rep.finish()
