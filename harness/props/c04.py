"""C04 — transition probabilities are exp(Qt) of a properly normalised rate matrix.

Pipeline: T2 translator (HKY.q / GTR.q entries, JC closed forms, LG/WAG and genetic-code tables ->
coq/gen/G_subst.v) -> theorems prop/C04.v -> the property evaluated directly on q(), frequencies,
p_t(t) of every model class -> correspondence: model Q / frequencies (interval run of M_subst.v)
vs implementation, and p_t(t) vs an independent scaling-and-squaring Taylor evaluation of
exp(Q_model t / norm) (inside Coq for <= 20 states, python fixed point from the Coq-evaluated Q for
codon models), plus the spectral formula of the theorems with a validated eigendecomposition oracle.
"""
import json
import math
import os
import random
import time
from fractions import Fraction

from harness import common as C
from harness import history as H
from harness import impl
from harness.translate import t2_subst

PID = "C04"
HEADER = ("From Coq Require Import QArith ZArith List. Import ListNotations.\n"
          "From TT Require Import Num NumI Tree M_subst G_subst M_subst_gen.\n")
EPS = 2.0 ** -52
KTAYLOR = 20
REVERSIBLE = {"JC69", "GeneralJC69", "HKY", "GTR", "GS", "LG", "WAG", "MG94"}
EIGH_ROUTE = {"HKY", "GTR", "GS", "LG", "WAG", "MG94"}     # sqrt(pi) symmetrisation + eigh
CODE_NAMES = []     # filled by sync()


def sync():
    try:
        txt, units, names = t2_subst.translate()
    except t2_subst.TranslateError as e:
        return False, f"T2 translator: {e}"
    except (OSError, SyntaxError) as e:
        return False, f"T2 translator: {type(e).__name__}: {e}"
    if CODE_NAMES and list(names) != list(CODE_NAMES):
        return False, "T2 translator: GENETIC_CODE_NAMES read from the source differ from the imported class"
    with C.CoqLock():
        C.write_if_changed(os.path.join(C.COQ, "gen", "G_subst.v"), txt)
    return True, units


# ----------------------------------------------------------------------------- cases

def logu(rng, lo, hi):
    return math.exp(rng.uniform(math.log(lo), math.log(hi)))


def gen_freqs(rng, n, skew):
    if rng.random() < 0.12:
        # almost, but not exactly, uniform (the first steps of an optimiser away from the usual starting point)
        x = [1.0 + rng.uniform(-1, 1) * rng.choice([1e-7, 1e-6, 4e-6]) for _ in range(n)]
        s = sum(x)
        return [v / s for v in x]
    x = [logu(rng, 1e-6, 1.0) for _ in range(n)] if skew else [rng.uniform(0.05, 1.0) for _ in range(n)]
    s = sum(x)
    return [v / s for v in x]


def gen_rate(rng, wide):
    if rng.random() < 0.1:
        return 1.0           # the boundary value at which a model degenerates to a simpler one (kappa = 1, equal rates)
    return logu(rng, 1e-4, 1e4) if wide else logu(rng, 0.1, 10.0)


def gen_ts(rng):
    ta = logu(rng, 1e-4, 50.0)
    tb = logu(rng, 1e-3, 50.0)
    tc = rng.choice([100.0, logu(rng, 1e-6, 1e-2), logu(rng, 0.01, 2.0)])
    td = logu(rng, 0.01, 100.0)
    return [[ta, tb], [ta + tb, 0.0], [tc, td]]


def gen_case(rng, kind, tier, ncodes, mg94_batched=None):
    c = dict(kind=kind, n=4, B=None, mode="none", mapping=None, code=None)
    if kind in ("GS", "GN", "GeneralJC69"):
        c["n"] = rng.choice([2, 3, 4, 5, 6, 8] if tier == "quick" else [2, 3, 4, 5, 6, 8, 12, 20])
    if kind in ("LG", "WAG"):
        c["n"] = 20
    if kind == "MG94":
        c["code"] = rng.randrange(ncodes)
    has_params = kind in ("HKY", "GTR", "GS", "GN", "MG94")
    if has_params:
        c["B"] = rng.choice([None, None, 1, 2, 3]) if kind != "MG94" else rng.choice([None, 2])
        if kind == "MG94" and mg94_batched is not None:
            c["B"] = 2 if mg94_batched else None      # (few codon cases: the layouts alternate instead of being drawn)
        if c["B"]:
            c["mode"] = rng.choice(["all", "all", "all", "rates-only", "freqs-only"])
    else:
        c["B"] = rng.choice([None, None, 2])      # only the branch lengths carry the batch
    rows = c["B"] or 1
    c["ts"] = [gen_ts(rng) for _ in range(rows)]
    c["skew"] = rng.random() < 0.5
    c["wide"] = rng.random() < 0.5
    c["rows"] = rows
    return c


def fill_params(rng, c, nstates):
    """parameter values per batch row (a non-batched parameter repeats row 0)"""
    kind, rows, n = c["kind"], c["rows"], nstates
    c["n"] = n
    pr = rows if c["mode"] in ("all", "freqs-only") else 1
    rr = rows if c["mode"] in ("all", "rates-only") else 1
    if kind in ("HKY", "GTR", "GS", "GN", "MG94"):
        c["pi"] = [gen_freqs(rng, n, c["skew"]) for _ in range(pr)]
    npairs = n * (n - 1) // 2
    # nearly reducible chains: two blocks of states {A,G} | {C,T} joined by a trickle, so that the rate matrix has a
    # SMALL non-zero eigenvalue (1e-9 .. 3e-7 after normalisation) next to the exact zero of the stationary
    # distribution — the part of the spectrum where "it is zero up to round-off" is wrong
    c["trickle"] = kind in ("HKY", "GTR") and rng.random() < 0.15
    if kind == "HKY" and c["trickle"]:
        c["kappa"] = [logu(rng, 3e6, 1e9) for _ in range(rr)]
    elif kind == "HKY":
        c["kappa"] = [gen_rate(rng, c["wide"]) for _ in range(rr)]
    elif kind == "GTR" and c["trickle"]:
        # order of the six exchangeabilities: AC AG AT CG CT GT
        c["rates"] = [[(logu(rng, 0.3, 3.0) if j in (1, 4) else logu(rng, 1e-9, 3e-7)) for j in range(6)]
                      for _ in range(rr)]
    elif kind == "GTR":
        c["rates"] = [[gen_rate(rng, c["wide"]) for _ in range(6)] for _ in range(rr)]
    elif kind in ("GS", "GN"):
        m = npairs if kind == "GS" else 2 * npairs
        if rng.random() < 0.4:
            c["mapping"], k = None, m
        else:
            k = rng.randint(1, m)
            c["mapping"] = [rng.randrange(k) for _ in range(m)]
        c["rates"] = [[gen_rate(rng, c["wide"]) for _ in range(k)] for _ in range(rr)]
    elif kind == "MG94":
        c["kappa"] = [gen_rate(rng, c["wide"]) for _ in range(rr)]
        c["alpha"] = [gen_rate(rng, c["wide"]) for _ in range(rr)]
        c["beta"] = [gen_rate(rng, c["wide"]) for _ in range(rr)]
    return c


def row_of(lst, r):
    return lst[r] if len(lst) > 1 else lst[0]


# ----------------------------------------------------------------------------- implementation

def _param(id_, rows_vals, batched):
    """rows_vals: list (per row) of lists"""
    return impl.param_json(id_, rows_vals if batched else rows_vals[0])


def build(c):
    impl.load()
    from torchtree.evolution import substitution_model as SM
    kind, n = c["kind"], c["n"]
    bf = c["B"] is not None and c["mode"] in ("all", "freqs-only")
    br = c["B"] is not None and c["mode"] in ("all", "rates-only")
    dt = {"id": "dt", "type": "GeneralDataType", "codes": [f"s{i}" for i in range(n)]}
    if kind == "JC69":
        return H.tracked(SM.JC69, {"id": "m", "type": "JC69"})
    if kind == "GeneralJC69":
        return H.tracked(SM.GeneralJC69, {"id": "m", "type": "GeneralJC69", "state_count": n})
    if kind == "LG":
        return H.tracked(SM.LG, {"id": "m", "type": "LG"})
    if kind == "WAG":
        return H.tracked(SM.WAG, {"id": "m", "type": "WAG"})
    pi = _param("pi", c["pi"], bf)
    if kind == "HKY":
        return H.tracked(SM.HKY, {"id": "m", "type": "HKY", "frequencies": pi,
                                 "kappa": _param("kappa", [[k] for k in c["kappa"]], br)})
    if kind == "GTR":
        return H.tracked(SM.GTR, {"id": "m", "type": "GTR", "frequencies": pi,
                                 "rates": _param("rates", c["rates"], br)})
    if kind in ("GS", "GN"):
        d = {"id": "m", "type": "x", "data_type": dt, "frequencies": pi, "rates": _param("rates", c["rates"], br)}
        if c["mapping"] is not None:
            d["mapping"] = list(c["mapping"])
        cls = SM.GeneralSymmetricSubstitutionModel if kind == "GS" else SM.GeneralNonSymmetricSubstitutionModel
        return H.tracked(cls, d)
    if kind == "MG94":
        return H.tracked(SM.MG94, {
            "id": "m", "type": "MG94",
            "data_type": {"id": "cd", "type": "CodonDataType", "genetic_code": CODE_NAMES[c["code"]]},
            "frequencies": pi,
            "kappa": _param("kappa", [[k] for k in c["kappa"]], br),
            "alpha": _param("alpha", [[k] for k in c["alpha"]], br),
            "beta": _param("beta", [[k] for k in c["beta"]], br)})
    raise ValueError(kind)


def codon_state_count(code):
    impl.load()
    from torchtree.evolution.datatype import CodonDataType
    return CodonDataType("cd", CODE_NAMES[code]).state_count


def run_impl(c):
    """-> dict with per-row python-float copies of q(), frequencies, p_t(ts), p_t(h)"""
    torch = impl.load()
    m = build(c)
    n, rows, B = c["n"], c["rows"], c["B"]
    ss = (B,) if B is not None else ()
    Q = m.q().detach()
    f = m.frequencies.detach()
    bl = torch.tensor(c["ts"] if B is not None else c["ts"][0], dtype=torch.float64)
    P = m.p_t(bl).detach()
    shapes = dict(Q=list(Q.shape), f=list(f.shape), P=list(P.shape))
    if list(P.shape) != list(ss) + [3, 2, n, n]:
        return dict(shape_error=f"p_t returned shape {list(P.shape)} for branch lengths {list(bl.shape)}; "
                                f"expected {list(ss) + [3, 2, n, n]}", shapes=shapes)
    try:
        Qb = torch.broadcast_to(Q, ss + (n, n))
        fb = torch.broadcast_to(f, ss + (n,))
    except RuntimeError:
        return dict(shape_error=f"q() has shape {list(Q.shape)}, frequencies {list(f.shape)}, state count {n}, "
                                f"sample shape {list(ss)}", shapes=shapes)
    Qr = Qb.reshape((rows, n, n))
    fr = fb.reshape((rows, n))
    Pr = P.reshape((rows, 3, 2, n, n))
    nrm = -(torch.diagonal(Qr, dim1=-2, dim2=-1) * fr).sum(-1)
    qinf = (Qr.abs().sum(-1).max(-1).values / nrm.abs()).tolist()
    hs = [1e-4 / max(1.0, q) if math.isfinite(q) else 1e-4 for q in qinf]
    hb = torch.tensor([[[h]] for h in hs] if B is not None else [[hs[0]]], dtype=torch.float64)
    Ph = m.p_t(hb).detach().reshape((rows, n, n))
    return dict(Q=Qr.tolist(), pi=fr.tolist(), P=Pr.tolist(), Ph=Ph.tolist(), h=hs, qinf=qinf,
                norm=nrm.tolist(), shapes=shapes)


# ----------------------------------------------------------------------------- tolerances

def kappa_of(c, pi):
    if c["kind"] in EIGH_ROUTE and min(pi) > 0:
        return math.sqrt(max(pi) / min(pi))
    return 1.0


def tol_p(qinf, t, kap):
    """1e-9 plus the forward error of a backward-stable evaluation: a relative perturbation u of
    Q changes exp(Qt) by at most u |Q|t (stochastic semigroup), times the conditioning of the
    sqrt(pi) similarity for the eigh route."""
    return 1e-9 + 32 * EPS * max(1.0, qinf * t) * kap


# ----------------------------------------------------------------------------- property on impl

def property_on_impl(c, o):
    """The property evaluated on the implementation's outputs only.  -> list of (check, text)"""
    torch = impl.load()
    bad = []
    kind, n = c["kind"], c["n"]
    if "shape_error" in o:
        return [("shape", o["shape_error"])]
    for r in range(c["rows"]):
        Q = torch.tensor(o["Q"][r], dtype=torch.float64)
        pi = torch.tensor(o["pi"][r], dtype=torch.float64)
        P = torch.tensor(o["P"][r], dtype=torch.float64)          # [3,2,n,n]
        ts = c["ts"][r]
        eye = torch.eye(n, dtype=torch.float64)
        scale = float(Q.abs().max())
        if not torch.isfinite(Q).all() or not torch.isfinite(P).all():
            bad.append(("finite", f"row {r}: non-finite entries in q() or p_t()"))
            continue
        rs = float(Q.sum(-1).abs().max())
        if rs > 1e-9 * scale:
            bad.append(("q-row-sum", f"row {r}: a row of q() sums to {rs!r} (scale {scale!r})"))
        off = Q - torch.diag(torch.diagonal(Q))
        if float(off.min()) < 0.0:
            bad.append(("q-offdiag-negative", f"row {r}: off-diagonal entry {float(off.min())!r} of q()"))
        nrm = o["norm"][r]
        if not nrm > 0.0:
            bad.append(("norm", f"row {r}: -sum pi_i Q_ii = {nrm!r} is not positive"))
            continue
        Qn = Q / nrm
        qinf = float(Qn.abs().sum(-1).max())
        kap = kappa_of(c, o["pi"][r])
        if kind in REVERSIBLE:
            F = pi.unsqueeze(-1) * Q
            db = float((F - F.T).abs().max())
            if db > 1e-9 * float(F.abs().max()):
                bad.append(("q-detailed-balance", f"row {r}: max |pi_i q_ij - pi_j q_ji| = {db!r}"))
        Pt = {}
        for b in range(3):
            for k in range(2):
                t = ts[b][k]
                M = P[b, k]
                tl = tol_p(qinf, t, kap)
                Pt[(b, k)] = (t, M, tl)
                e = float((M.sum(-1) - 1.0).abs().max())
                if e > tl * n:
                    bad.append(("p-row-sum", f"row {r}: a row of p_t({t!r}) sums to 1{e:+.3e} (tol {tl * n:.2e})"))
                if float(M.min()) < -tl or float(M.max()) > 1.0 + tl:
                    bad.append(("p-range", f"row {r}: p_t({t!r}) has an entry outside [0,1]: "
                                           f"min {float(M.min())!r} max {float(M.max())!r}"))
                if kind in REVERSIBLE:
                    e = float((pi @ M - pi).abs().max())
                    if e > tl * n:
                        bad.append(("p-stationary", f"row {r}: |pi p_t({t!r}) - pi| = {e!r}"))
                    F = pi.unsqueeze(-1) * M
                    e = float((F - F.T).abs().max())
                    if e > 2 * tl:
                        bad.append(("p-detailed-balance", f"row {r}: max |pi_i P_ij - pi_j P_ji| = {e!r} at t={t!r}"))
        t0, M0, tl0 = Pt[(1, 1)]
        e = float((M0 - eye).abs().max())
        if e > tl0:
            bad.append(("p0-identity", f"row {r}: |p_t(0) - I| = {e!r}"))
        (ta, Ma, tla), (tb, Mb, tlb), (tab, Mab, tlab) = Pt[(0, 0)], Pt[(0, 1)], Pt[(1, 0)]
        e = float((Ma @ Mb - Mab).abs().max())
        if e > n * (tla + tlb) + tlab:
            bad.append(("semigroup", f"row {r}: |p_t({ta!r}) p_t({tb!r}) - p_t({tab!r})| = {e!r} "
                                     f"(tol {n * (tla + tlb) + tlab:.2e})"))
        h = o["h"][r]
        D = (torch.tensor(o["Ph"][r], dtype=torch.float64) - eye) / h
        e = float((D - Qn).abs().max())
        if e > 1e-3 * max(1.0, qinf):
            bad.append(("generator", f"row {r}: |(p_t(h) - I)/h - Q/norm| = {e!r} at h={h!r} "
                                     f"(|Q/norm| = {qinf!r}; norm = -sum pi_i Q_ii = {nrm!r})"))
    return bad


def batch_tag(c):
    return "none" if c["B"] is None else c["mode"]


def vkey(c, check):
    if check.startswith("raises:"):
        return f"C04:raises:{c['kind']}:batched={batch_tag(c)}:{check[7:]}"
    return f"C04:{check}:{c['kind']}:batched={batch_tag(c)}"


# ----------------------------------------------------------------------------- model side

def ilit(x):
    return f"ofQ NumI {C.qlit(x)}"


def ilist(xs):
    return C.coq_list(xs, ilit)


def imat(M):
    return "[" + "; ".join(ilist(r) for r in M) + "]"


def q_expr(c, r):
    """Coq terms (Q, pi) of batch row r at the interval instance"""
    kind, n = c["kind"], c["n"]
    if kind == "JC69":
        return "jc69_q NumI", "jc69_freq NumI"
    if kind == "GeneralJC69":
        return f"gjc_Q NumI {C.natlit(n)}", f"gjc_freq NumI {C.natlit(n)}"
    if kind == "LG":
        return "lg_Q NumI", "lg_pi NumI"
    if kind == "WAG":
        return "wag_Q NumI", "wag_pi NumI"
    pi = ilist(row_of(c["pi"], r))
    if kind == "HKY":
        return f"hky_Q NumI ({ilit(row_of(c['kappa'], r))}) pi", pi
    if kind == "GTR":
        return f"gtr_Q NumI {ilist(row_of(c['rates'], r))} pi", pi
    if kind in ("GS", "GN"):
        npairs = n * (n - 1) // 2
        m = c["mapping"] if c["mapping"] is not None else list(range(npairs if kind == "GS" else 2 * npairs))
        f = "q_sym" if kind == "GS" else "q_nonsym"
        return f"{f} NumI {C.natlit(n)} {ilist(row_of(c['rates'], r))} {C.coq_list(m, C.natlit)} pi", pi
    if kind == "MG94":
        return (f"mg94_Q NumI {C.natlit(c['code'])} ({ilit(row_of(c['kappa'], r))}) "
                f"({ilit(row_of(c['alpha'], r))}) ({ilit(row_of(c['beta'], r))}) pi"), pi
    raise ValueError(kind)


def taylor_positions(c):
    n = c["n"]
    if n > 20:
        return []
    if n > 8:
        return [(0, 0), (1, 0)]
    return [(0, 0), (0, 1), (1, 0), (2, 0), (2, 1)]


def scaling(qinf, t):
    x = qinf * t * 4.0 * (1 + 1e-9)
    s = 0
    while x > 1.0:
        x /= 2.0
        s += 1
    return s


def coq_case(c, r, o, spectral):
    """-> (expr, layout) ; layout lists what the flat interval output contains"""
    n = c["n"]
    Qe, pie = q_expr(c, r)
    layout = [("Q", n * n), ("pi", n)]
    parts = ["concat Q", "pi"]
    closed = c["kind"] in ("JC69", "GeneralJC69")
    for (b, k) in taylor_positions(c):
        t = c["ts"][r][b][k]
        s = scaling(o["qinf"][r], t)
        parts.append(f"concat (expQt NumI {C.natlit(n)} Q pi ({ilit(t)}) {C.natlit(s)} {C.natlit(KTAYLOR)})")
        layout.append((("T", b, k, s), n * n))
        if closed:
            cf = f"jc69_p NumI ({ilit(t)})" if c["kind"] == "JC69" else f"gjc_P NumI {C.natlit(n)} ({ilit(t)})"
            parts.append(f"concat ({cf})")
            layout.append((("CF", b, k), n * n))
    if spectral is not None:
        V, W, lam, (b, k) = spectral
        t = c["ts"][r][b][k]
        parts.append(
            f"(let V := {imat(V)} in let W := {imat(W)} in let lam := {ilist(lam)} in "
            f"let A := spectral_A NumI {C.natlit(n)} V pi in let B := spectral_B NumI {C.natlit(n)} W pi in "
            f"concat (mmul NumI {C.natlit(n)} A B) ++ concat (mmul NumI {C.natlit(n)} B A) ++ "
            f"concat (mmul NumI {C.natlit(n)} (map (fun row => vmul NumI row lam) A) B) ++ "
            f"concat (p_spectral NumI {C.natlit(n)} A lam B ({ilit(t)})))")
        layout += [("AB", n * n), ("BA", n * n), ("ALB", n * n), (("SP", b, k), n * n)]
    expr = (f"let pi := {pie} in let Q := {Qe} in concat (map show_i (" + " ++ ".join(parts) + "))")
    return expr, layout


def eig_oracle(c, r, o):
    """float eigendecomposition of the symmetrised normalised matrix built from the implementation's
    q() and frequencies: an ORACLE, validated inside Coq in interval arithmetic"""
    torch = impl.load()
    Q = torch.tensor(o["Q"][r], dtype=torch.float64)
    pi = torch.tensor(o["pi"][r], dtype=torch.float64)
    Qn = Q / o["norm"][r]
    sp = pi.sqrt()
    S = sp.unsqueeze(-1) * Qn / sp.unsqueeze(0)
    S = (S + S.T) / 2
    lam, V = torch.linalg.eigh(S)
    return V.tolist(), V.T.tolist(), lam.tolist()


# fixed-point reference exp(Qt) for matrices too large for the interval run -----------------
PREC = 256


def _mm(A, B):
    Bt = list(zip(*B))
    return [[sum(a * b for a, b in zip(row, col)) >> PREC for col in Bt] for row in A]


def expm_fixed(Qn, t):
    """Qn: matrix of Fractions, t: Fraction; scaling and squaring of the Taylor polynomial in
    2^-256 fixed point -> matrix of Fractions"""
    one = 1 << PREC
    n = len(Qn)
    nrm = max(sum(abs(x) for x in row) for row in Qn) * t
    s = 0
    while nrm > Fraction(1 << s, 4):
        s += 1
    sc = t / (1 << s)
    A = [[(x * sc).numerator * one // (x * sc).denominator for x in row] for row in Qn]
    T = [[one if i == j else 0 for j in range(n)] for i in range(n)]
    for k in range(26, 0, -1):
        T = _mm(A, T)
        T = [[x // k + (one if i == j else 0) for j, x in enumerate(row)] for i, row in enumerate(T)]
    for _ in range(s):
        T = _mm(T, T)
    return [[Fraction(x, one) for x in row] for row in T]


def _fixed_job(args):
    return expm_fixed(*args)


# ----------------------------------------------------------------------------- run

def schedule(rng, tier):
    if tier == "quick":
        counts = dict(JC69=4, GeneralJC69=8, HKY=34, GTR=34, GS=26, GN=26, LG=1, WAG=1, MG94=2)
    else:
        counts = dict(JC69=10, GeneralJC69=40, HKY=420, GTR=420, GS=320, GN=320, LG=2, WAG=2, MG94=15)
    kinds = [k for k, v in counts.items() for _ in range(v)]
    rng.shuffle(kinds)
    return kinds


def corpus_cases():
    """fixed cases run first on every seed: the inputs of past findings and of the repository's own tests"""
    pi = [0.479367, 0.172572, 0.140933, 0.207128]
    pi2 = [0.1, 0.2, 0.3, 0.4]
    rates = [0.060602, 0.402732, 0.028230, 0.047910, 0.407249, 0.053277]
    ts = [[[0.1, 0.001], [0.101, 0.0], [100.0, 2.5]], [[0.5, 1.5], [2.0, 0.0], [1e-5, 37.0]]]
    base = dict(n=4, mapping=None, code=None, skew=False, wide=False)
    return [
        dict(base, kind="HKY", B=2, mode="freqs-only", rows=2, ts=ts, pi=[pi, pi2], kappa=[3.0]),
        dict(base, kind="GTR", B=2, mode="freqs-only", rows=2, ts=ts, pi=[pi, pi2], rates=[rates]),
        dict(base, kind="GTR", B=None, mode="none", rows=1, ts=ts[:1], pi=[pi], rates=[rates]),
        dict(base, kind="HKY", B=2, mode="all", rows=2, ts=ts, pi=[[0.25] * 4, pi], kappa=[2.0, 3.0]),
        dict(base, kind="GS", B=None, mode="none", rows=1, ts=ts[:1], pi=[pi], rates=[[1.0, 3.0]],
             mapping=[0, 1, 0, 0, 1, 0]),
        dict(base, kind="GN", B=None, mode="none", rows=1, ts=ts[1:], pi=[pi], rates=[rates],
             mapping=[0, 1, 2, 3, 4, 5, 0, 1, 2, 3, 4, 5]),
    ] + defective_cases(ts)


def defective_cases(ts):
    """Admissible NON-DIAGONALISABLE rate matrices (all rates > 0, uniform frequencies): Q = 11' - nI + N with N
    nilpotent, built from rows of a Hadamard matrix; a repeated eigenvalue -n with one Jordan block.  exp(Qt) exists
    and is what p_t must return; a spectral formula V exp(Lt) V^-1 does not apply."""
    out = []
    # 3 states, integer rates, double eigenvalue -4 with a single eigenvector
    out.append(dict(kind="GN", n=3, B=None, mode="none", rows=1, ts=ts[:1], mapping=None, code=None, skew=False,
                    wide=False, pi=[[1 / 3, 1 / 3, 1 - 2 / 3]], rates=[[3.0, 3.0, 6.0, 3.0, 6.0, 3.0]]))

    def had(k):
        H = [[1.0]]
        for _ in range(k):
            H = [r + r for r in H] + [r + [-x for x in r] for r in H]
        return H
    for k, chain in ((2, (1, 2, 3)), (3, (1, 2, 3, 4, 5))):
        n = 2 ** k
        H = had(k)
        Q = [[1.0 - (n if i == j else 0.0) + sum(H[a][i] * H[b][j] for a, b in zip(chain, chain[1:])) / n
              for j in range(n)] for i in range(n)]
        if min(Q[i][j] for i in range(n) for j in range(n) if i != j) <= 0:
            continue
        upper = [n * Q[i][j] for i in range(n) for j in range(i + 1, n)]
        lower = [n * Q[j][i] for i in range(n) for j in range(i + 1, n)]
        out.append(dict(kind="GN", n=n, B=None, mode="none", rows=1, ts=ts[1:], mapping=None, code=None, skew=False,
                        wide=False, pi=[[1.0 / n] * n], rates=[upper + lower]))
    return out


def mid(iv):
    return (iv[0] + iv[1]) / 2


def run(tier, seed, replay=None):
    rep = C.Report(PID, tier, seed)
    rep.trusted = C.COMMON_TRUSTED + [
        "translator harness/translate/t2_subst.py (fail-closed ast): HKY.q / GTR.q entries, JC69 / GeneralJC69 "
        "closed forms, q and frequencies, LG / WAG tables, genetic-code tables",
        "hand-written model model/M_subst.v (builders for the general / empirical / MG94 models, norm, spectral "
        "form, Taylor reference) tied by correspondence on q(), frequencies, p_t()",
        "NOT formalised: the uniqueness theorem 'a continuous matrix semigroup with P(0)=I and P'(0)=Q is "
        "exp(Qt)' (classical); the theorems prove its hypotheses for the spectral formula and the JC closed forms",
        "NOT formalised: truncation error of the degree-20 Taylor polynomial at |Qt/2^s| <= 1/4 (classical bound "
        "4.5e-33) in the scaling-and-squaring reference; cross-checked on every run against an independent "
        "python fixed-point evaluation and the validated spectral formula",
        "oracles: torch.linalg.eigh (eigendecomposition re-validated in interval arithmetic: AB=I, BA=I, "
        "A diag(lam) B = Q/norm), torch.matrix_exp (compared with the Taylor reference)",
        "Paramcoq free theorems + Interval library (kernel-checked): the interval run encloses the real model",
        "modelled, not verified: IEEE rounding of torch kernels (tolerance 1e-9 + 32 u max(1,|Q|t) sqrt(pi_max/pi_min))"]
    rep.assumptions = [
        "theorems: parameters in the open domain (kappa, rates, alpha, beta > 0; every frequency > 0); the "
        "rate-matrix / reversibility statements need only >= 0; state count >= 2",
        "spectral theorems: A B = B A = I and (for C04_symmetric_p_t) an EXACT eigendecomposition of the "
        "symmetrised matrix; floating-point eigh output is an oracle, re-validated per case in interval arithmetic",
        "branch-length tensors follow the tree likelihood's convention sample_shape + (branches, categories)"]
    rng = random.Random(seed)

    torch = impl.load()
    torch.set_num_threads(1)        # tiny matrices: intra-op threads only add contention
    from torchtree.evolution.datatype import CodonDataType
    CODE_NAMES[:] = list(CodonDataType.GENETIC_CODE_NAMES)
    ok_sync, info = sync()
    ncodes = len(CODE_NAMES)
    t0 = time.time()
    if replay:
        cases = [json.load(open(replay))["replay"]["case"]]
    else:
        cases = corpus_cases()
        n_mg = 0
        for kind in schedule(rng, tier):
            c = gen_case(rng, kind, tier, ncodes, mg94_batched=(n_mg % 2 == 0))
            n_mg += kind == "MG94"
            try:
                n = codon_state_count(c["code"]) if kind == "MG94" else c["n"]
            except Exception:
                n = 61
            cases.append(fill_params(rng, c, n))
    outs = []
    for c in cases:
        try:
            outs.append(run_impl(c))
        except Exception as e:      # a substitution model that raises on admissible parameters
            outs.append(e)
    rep.timings["impl"] = round(time.time() - t0, 2)

    def collapse(items):
        """items: (check, case, text, replay, found_input).  One violation per (check, model class) when the
        failure also shows without batching (then it is not specific to a batch layout); otherwise one per
        failing batch layout."""
        groups = {}
        for it in items:
            groups.setdefault((it[0], it[1]["kind"]), []).append(it)
        out = []
        for (check, kind), its in groups.items():
            plain = [it for it in its if batch_tag(it[1]) == "none"]
            seen = set()
            for it in (plain[:1] if plain else its):
                k = vkey(it[1], check)
                if k not in seen:
                    seen.add(k)
                    out.append((k, f"{kind} (batch {batch_tag(it[1])}): {it[2]}", it[3], it[4]))
        return out

    def search():
        items = []
        for c, o in zip(cases, outs):
            if isinstance(o, Exception):
                items.append((f"raises:{type(o).__name__}", c,
                              f"built from JSON, q()/p_t() raise {type(o).__name__}: {str(o)[:160]}",
                              dict(case=c), True))
                continue
            for check, text in property_on_impl(c, o):
                items.append((check, c, text, dict(case=c), True))
        return [(k, w, rp) for k, w, rp, _ in collapse(items)]

    known = {k["key"] for k in C.load_known() if k["property"] == PID and k.get("status") == "known"}

    def search_new():
        """failing inputs that are not already listed as known findings (a listed finding must not
        'explain' a broken obligation)"""
        return [f for f in search() if f[0] not in known]

    if not ok_sync:
        rep.proof = dict(obligations=1, discharged=0, axioms={}, theorems=["T2 translation"], ok=False)
        C.log(f"[{PID}] sync: BROKEN {info}")
        for f in search():
            rep.violation(*f)
        if not search_new():
            rep.violation("C04:translator-failed", info, dict(error=info), False)
        return rep.finish()
    C.handle_proof(rep, PID, search_new)
    for f in search():
        rep.violation(*f)

    # ---- correspondence
    t0 = time.time()
    exprs, index = [], []
    nspec = 0
    for ci, (c, o) in enumerate(zip(cases, outs)):
        if isinstance(o, Exception) or "shape_error" in o:
            continue
        for r in range(c["rows"]):
            spectral = None
            if c["kind"] in EIGH_ROUTE and c["n"] <= 20 and o["norm"][r] > 0 and min(o["pi"][r]) > 0:
                V, W, lam = eig_oracle(c, r, o)
                spectral = (V, W, lam, (0, 0))
                nspec += 1
            e, layout = coq_case(c, r, o, spectral)
            exprs.append(e)
            index.append((ci, r, layout))
    # heavy expressions first so that the shards balance
    order = sorted(range(len(exprs)), key=lambda k: -cases[index[k][0]]["n"])
    res_sorted = C.run_cases(PID, HEADER, [exprs[k] for k in order], shard=4, timeout=3000)
    res = [None] * len(exprs)
    for k, v in zip(order, res_sorted):
        res[k] = v
    rep.timings["model_eval"] = round(time.time() - t0, 2)

    t0 = time.time()
    dist, undefined, stats = {}, 0, dict(q_entries=0, p_matrices=0, closed_forms=0, spectral=0,
                                         spectral_oracle_too_coarse=0, fixed_point=0,
                                         max_p_err=0.0, max_ref_disagreement=0.0)
    # pass 1: parse the model outputs, plan the fixed-point evaluations
    fixed_budget = 6 if tier == "quick" else 60
    parsed, jobs = [], []
    for (ci, r, layout), flat in zip(index, res):
        c = cases[ci]
        n = c["n"]
        ivs = [C.ival_to_fracs(flat[k:k + 6]) for k in range(0, len(flat), 6)]
        if len(ivs) != sum(sz for _, sz in layout):
            raise RuntimeError(f"C04 harness: {len(ivs)} model outputs, layout expects {sum(sz for _, sz in layout)}")
        blocks, pos = {}, 0
        for name, sz in layout:
            blocks[name] = ivs[pos:pos + sz]
            pos += sz
        pr = dict(blocks=blocks, ok=False, fixed={})
        parsed.append(pr)
        if any(v is None for v in blocks["Q"] + blocks["pi"]):
            continue
        Qm = [[mid(blocks["Q"][i * n + j]) for j in range(n)] for i in range(n)]
        pim = [mid(v) for v in blocks["pi"]]
        nrm = -sum(Qm[i][i] * pim[i] for i in range(n))
        if nrm <= 0:
            continue
        Qn = [[x / nrm for x in row] for row in Qm]
        pr.update(ok=True, Qm=Qm, pim=pim, Qn=Qn, qinf=float(max(sum(abs(x) for x in row) for row in Qn)),
                  kap=kappa_of(c, [float(x) for x in pim]))
        tpos = [(nm[1], nm[2]) for nm in blocks if isinstance(nm, tuple) and nm[0] == "T"]
        if (n > 20 or (ci % 7 == 0 and n <= 6)) and fixed_budget > 0:
            fixed_budget -= 1
            for (b, k) in ([(0, 0), (2, 1)] if n > 20 else tpos[:2]):
                jobs.append((len(parsed) - 1, (b, k), Qn, Fraction(c["ts"][r][b][k])))
    if jobs:
        import concurrent.futures as cf
        with cf.ProcessPoolExecutor(max_workers=min(16, len(jobs))) as ex:
            for (pi_, bk, _, _), F in zip(jobs, ex.map(_fixed_job, [(j[2], j[3]) for j in jobs])):
                parsed[pi_]["fixed"][bk] = F
                stats["fixed_point"] += 1
    rep.timings["fixed_point_reference"] = round(time.time() - t0, 2)

    # pass 2: compare
    corr_bad = []
    for (ci, r, layout), pr in zip(index, parsed):
        c, o = cases[ci], outs[ci]
        n = c["n"]
        key = f"{c['kind']}/n={n}/batch={batch_tag(c)}"
        dist[key] = dist.get(key, 0) + 1
        rep.case(dict(c=c, r=r), nontrivial=c["kind"] != "JC69",
                 sample=dict(kind=c["kind"], n=n, batch=batch_tag(c), row=r,
                             params={k: row_of(c[k], r) for k in ("pi", "kappa", "rates", "alpha", "beta") if k in c},
                             mapping=c["mapping"], ts=c["ts"][r], impl_P_first_row=o["P"][r][0][0][0]))
        if not pr["ok"]:
            undefined += 1
            continue
        blocks, Qm, pim, Qn, qinf, kap = pr["blocks"], pr["Qm"], pr["pim"], pr["Qn"], pr["qinf"], pr["kap"]
        bad = None          # (check, text, found_input)
        # --- q() and frequencies
        qscale = max(abs(x) for row in Qm for x in row)
        for i in range(n):
            for j in range(n):
                stats["q_entries"] += 1
                if not math.isfinite(o["Q"][r][i][j]):
                    bad = bad or ("q-differs-from-model", f"row {r}: q()[{i}][{j}] = {o['Q'][r][i][j]!r}", False)
                    continue
                x = Fraction(o["Q"][r][i][j])
                if abs(x - Qm[i][j]) > Fraction(1e-9) * abs(Qm[i][j]) + Fraction(1e-13) * qscale and not bad:
                    bad = ("q-differs-from-model", f"row {r}: q()[{i}][{j}] = {float(x)!r}, model {float(Qm[i][j])!r}", False)
            if not math.isfinite(o["pi"][r][i]) or \
                    abs(Fraction(o["pi"][r][i]) - pim[i]) > Fraction(1e-12) * abs(pim[i]) and not bad:
                bad = ("frequencies-differ-from-model",
                       f"row {r}: frequencies[{i}] = {o['pi'][r][i]!r}, model {float(pim[i])!r}", False)
        refs = {}
        for name in blocks:
            if isinstance(name, tuple) and name[0] == "T":
                _, b, k, s = name
                t = c["ts"][r][b][k]
                if qinf * t > 2.0 ** s / 4 * (1 + 1e-6) and not bad:
                    raise RuntimeError(f"C04 harness: scaling s={s} too small for |Q|t={qinf * t}")
                if any(v is None for v in blocks[name]):
                    undefined += 1
                    continue
                refs[(b, k)] = [[blocks[name][i * n + j] for j in range(n)] for i in range(n)]
        for (b, k), F in pr["fixed"].items():
            if (b, k) in refs:
                d = max(abs(F[i][j] - mid(refs[(b, k)][i][j])) for i in range(n) for j in range(n))
                stats["max_ref_disagreement"] = max(stats["max_ref_disagreement"], float(d))
                if d > Fraction(1e-15):
                    raise RuntimeError(f"C04 harness: interval and fixed-point references disagree by {float(d)}")
            else:
                refs[(b, k)] = [[(x, x) for x in row] for row in F]
        # --- p_t(t) against exp(Q_model t / norm)
        for (b, k), Rm in refs.items():
            t = c["ts"][r][b][k]
            tl = Fraction(tol_p(qinf, t, kap))
            stats["p_matrices"] += 1
            for i in range(n):
                for j in range(n):
                    lo, hi = Rm[i][j]
                    if not math.isfinite(o["P"][r][b][k][i][j]):
                        if not (bad and bad[2]):
                            bad = ("p_t-not-expQt", f"row {r}: p_t({t!r})[{i}][{j}] = {o['P'][r][b][k][i][j]!r}", True)
                        continue
                    x = Fraction(o["P"][r][b][k][i][j])
                    err = max(lo - x, x - hi, 0)
                    stats["max_p_err"] = max(stats["max_p_err"], float(err))
                    if err > tl and not (bad and bad[2]):
                        bad = ("p_t-not-expQt", f"row {r}: p_t({t!r})[{i}][{j}] = {float(x)!r} but exp(Qt/norm) = "
                                                f"{float(mid((lo, hi)))!r} (|diff| {float(err):.3e} > tol {float(tl):.2e})", True)
        # --- closed forms (model) against the Taylor reference of the model's own Q: generator tie
        for name in blocks:
            if isinstance(name, tuple) and name[0] == "CF" and (name[1], name[2]) in refs:
                stats["closed_forms"] += 1
                Rm = refs[(name[1], name[2])]
                for i in range(n):
                    for j in range(n):
                        v = blocks[name][i * n + j]
                        if v is None:
                            undefined += 1
                        elif abs(mid(v) - mid(Rm[i][j])) > Fraction(1e-12) and not bad:
                            bad = ("closed-form-not-expQt", f"row {r}: regenerated closed form differs from "
                                                            f"exp(Q_model t) at [{i}][{j}]", False)
        # --- spectral formula of the theorems with the validated oracle
        sp = [nm for nm in blocks if isinstance(nm, tuple) and nm[0] == "SP"]
        if sp and not any(v is None for nm in ("AB", "BA", "ALB", sp[0]) for v in blocks[nm]):
            _, b, k = sp[0]
            eye = lambda i, j: 1 if i == j else 0
            r1 = max(abs(mid(blocks["AB"][i * n + j]) - eye(i, j)) for i in range(n) for j in range(n))
            r2 = max(abs(mid(blocks["BA"][i * n + j]) - eye(i, j)) for i in range(n) for j in range(n))
            r3 = max(abs(mid(blocks["ALB"][i * n + j]) - Qn[i][j]) for i in range(n) for j in range(n))
            t = c["ts"][r][b][k]
            if max(r1, r2) > Fraction(64 * EPS * kap) or r3 > Fraction(64 * EPS * kap * max(1.0, qinf)):
                stats["spectral_oracle_too_coarse"] += 1   # float oracle not accurate enough here: not used
            elif (b, k) in refs:
                stats["spectral"] += 1
                d = max(abs(mid(blocks[sp[0]][i * n + j]) - mid(refs[(b, k)][i][j])) for i in range(n) for j in range(n))
                if d > Fraction(tol_p(qinf, t, kap)) and not bad:
                    bad = ("spectral-formula-not-expQt",
                           f"row {r}: A diag(exp(lam t)) B with a validated eigendecomposition differs from the "
                           f"Taylor reference by {float(d):.3e} at t={t!r}", False)
        elif sp:
            undefined += 1
        if bad:
            check, text, found_input = bad
            corr_bad.append((check, c, text, dict(case=c, row=r, broken=None if found_input else
                             "correspondence M_subst.v / G_subst.v vs substitution_model/*.py"), found_input))
    if corr_bad:
        fs = search()
        for f in fs:
            rep.violation(*f)
        # a model/implementation disagreement without a failing input of its own is reported unless the
        # property itself was found violated on the same model class (which then explains it)
        explained = {f[0].split(":")[2] for f in fs if not f[0].startswith("C04:raises:") and f[0] not in known}
        for k, w, rp, found_input in collapse(corr_bad):
            if found_input or k.split(":")[2] not in explained:
                rep.violation(k, w, rp, found_input)
    rep.timings["compare"] = round(time.time() - t0, 2)
    # ---- same-object histories: p_t / q after parameter assignments == freshly built model
    t0 = time.time()
    hrng = random.Random(seed + 17)
    nh, hist_found = 0, {}
    okc = [c for c, o in zip(cases, outs) if not isinstance(o, Exception) and "shape_error" not in o
           and c["kind"] not in ("JC69", "GeneralJC69", "LG", "WAG")]
    hrng.shuffle(okc)
    for c in okc[:(50 if tier == "quick" else 400)]:
        torch = impl.load()
        try:
            m = build(c)
        except Exception:
            continue
        bl = torch.tensor(c["ts"] if c["B"] is not None else c["ts"][0], dtype=torch.float64)
        obs = lambda o: [o.p_t(bl).detach().tolist(), o.q().detach().tolist()]
        fs = H.run(m, obs, hrng, reads=[("q", lambda o: o.q()), ("frequencies", lambda o: o.frequencies),
                                        ("norm", lambda o: o.norm(o.q()) if hasattr(o, "norm") else None)], steps=2)
        nh += 1
        for f in fs:
            k = f"C04:history:{c['kind']}:{'+'.join(sorted(f['assigned']))}"
            hist_found.setdefault(k, (k, f"after the history {f['history']} p_t/q of the same model object differ from "
                                         f"those of a freshly built model: {f['on_same_object']} vs {f['fresh_object']}",
                                      dict(case=c, history=f)))
    for f in hist_found.values():
        rep.violation(*f)
    rep.timings["histories"] = round(time.time() - t0, 2)
    rep.rule = ("substitution models built from JSON: JC69, GeneralJC69(n), HKY, GTR, general symmetric / "
                "non-symmetric with random mappings (n = 2..8 quick, ..20 thorough), LG, WAG, MG94 over random "
                "genetic codes; rates/kappa/alpha/beta log-uniform 0.1..10 or 1e-4..1e4, frequencies uniform or "
                "strongly skewed (components log-uniform 1e-6..1, normalised); single or batched ([B<=3]; all / "
                "rates-only / frequencies-only batched); branch lengths sample_shape+(3,2) with t in [0,100] incl. "
                "0, s, t, s+t; non-trivial = every model except JC69; distinct = distinct (case,row)")
    rep.extra = dict(input_distribution=dist, model_undefined=undefined, traces_validated_against_impl=len(index),
                     translator_units=info, comparisons=stats, eig_oracles_validated=nspec,
                     tolerance="p_t: 1e-9 + 32*2^-52*max(1,|Q/norm|_inf t)*sqrt(pi_max/pi_min) [eigh route]; "
                               "q(): 1e-9 relative; frequencies: 1e-12 relative")
    return rep.finish()
