"""C19 — every configuration the CLI emits is runnable and targets the right density.

Pipeline: sync (registered classes -> gen/G_cliclasses.v) -> prove (prop/C19.v) -> translation
validation over the option space: each option combination is run through the real torchtree-cli
(in-process main), the emitted JSON is (a) translated to a Coq term and judged by the verified
checkers of model/M_config.v (wf_config, check_jacobians) under vm_compute and (b) loaded by the
real loader exactly as torchtree.torchtree.main does, with every registry operation recorded and
compared with the model's event list; density / gradient finiteness, initial values, the numerical
identity  target() - joint() = sum of log|det J| (autograd, independent of the transforms' own
log_abs_det_jacobian), and a 2-iteration run of the emitted sampler / optimiser.

The parent process never imports torch; the implementation runs in worker processes."""
import contextlib
import copy
import io
import json
import logging
import math
import os
import shutil
import sys
import tempfile
import traceback

_torch = None
DATA = None


def _init():
    global _torch, DATA
    if _torch is None:
        from harness import impl
        _torch = impl.load()
        _torch.set_num_threads(1)
        repo = os.environ.get("VERIF_REPO", "/repo").rstrip("/")
        DATA = os.path.join(repo, "data")
        logging.getLogger().handlers[:] = [_LogCatcher()]
        logging.getLogger().setLevel(logging.ERROR)
    return _torch


LOG = []


class _LogCatcher(logging.Handler):
    def emit(self, r):
        try:
            LOG.append(r.getMessage())
        except Exception:
            pass


# --------------------------------------------------------------------------- CLI

CONSTRAINED_SNAPSHOT = {}


def _snapshot_constrained(obj, out):
    if isinstance(obj, list):
        for e in obj:
            _snapshot_constrained(e, out)
    elif isinstance(obj, dict):
        if obj.get("type") == "Parameter" and "id" in obj and any(k.startswith("@") for k in obj):
            out[obj["id"]] = {k: copy.deepcopy(v) for k, v in obj.items()
                              if k in ("tensor", "full", "full_like", "@lower", "@upper", "@simplex")}
        else:
            for v in obj.values():
                _snapshot_constrained(v, out)


def _wrap_transformers():
    """Record the constrained values (as built by the model builders) just before the sub-command
    turns them into transformed parameters."""
    from torchtree.cli import advi, hmc, map as map_, mcmc
    for mod, name in ((hmc, "make_unconstrained"), (mcmc, "make_unconstrained"),
                      (map_, "make_unconstrained"), (advi, "create_variational_model")):
        orig = getattr(mod, name)
        if getattr(orig, "_c19", False):
            continue

        def make(orig, name):
            def wrapped(*a, **k):
                CONSTRAINED_SNAPSHOT.clear()
                _snapshot_constrained(a[1] if name == "create_variational_model" else a[0],
                                      CONSTRAINED_SNAPSHOT)
                return orig(*a, **k)
            wrapped._c19 = True
            return wrapped
        setattr(mod, name, make(orig, name))


def _frame_name(tb):
    """innermost torchtree frame: module-relative file + qualified function name (no line numbers)"""
    best = None
    for fs, _ in traceback.walk_tb(tb):
        fn = fs.f_code.co_filename
        if "/torchtree/" in fn:
            q = getattr(fs.f_code, "co_qualname", fs.f_code.co_name)
            if q.endswith("__getattr__") or q.endswith("from_json_safe") or "wrapper" in q:
                continue
            best = fn.split("/torchtree/")[-1] + ":" + q
    return best or "?"


def _msg(e):
    """exception message with numbers abstracted (sizes vary with the configuration)"""
    import re as _re
    m = _re.sub(r"[0-9]+(\.[0-9]+)?", "N", str(e))
    return _re.sub(r"[^A-Za-z0-9_.'`]+", "-", m)[:70].strip("-")


def run_cli(argv):
    """-> (status, payload): ('ok', json) | ('rejected', msg) | ('crash', 'Exc@site: msg')"""
    torch = _init()
    from torchtree.cli import cli
    _wrap_transformers()
    out, err = io.StringIO(), io.StringIO()
    old = sys.argv
    sys.argv = ["torchtree-cli"] + list(argv)
    torch.set_default_dtype(torch.float32)      # the CLI is a separate process with torch defaults
    CONSTRAINED_SNAPSHOT.clear()
    try:
        with contextlib.redirect_stdout(out), contextlib.redirect_stderr(err):
            cli.main()
        return "ok", json.loads(out.getvalue())
    except SystemExit as e:
        msg = err.getvalue().strip().split("\n")[-1][-300:]
        if e.code in (0, None):
            return "rejected", "exit 0: " + msg
        return "rejected", msg
    except BaseException as e:  # uncaught exception: no configuration is emitted
        return "crash", f"{type(e).__name__}@{_frame_name(e.__traceback__)}: {str(e)[:160]}"
    finally:
        sys.argv = old
        torch.set_default_dtype(torch.float64)


# --------------------------------------------------------------------------- loader with trace

class TraceDict(dict):
    """The `dic` registry handed to process_objects; records every operation."""

    def __init__(self):
        super().__init__()
        self.ev = []

    def __contains__(self, k):
        self.ev.append(["C", k])
        return dict.__contains__(self, k)

    def __getitem__(self, k):
        self.ev.append(["G", k])
        return dict.__getitem__(self, k)

    def __setitem__(self, k, v):
        self.ev.append(["S", k])
        dict.__setitem__(self, k, v)

    def get(self, k, d=None):
        self.ev.append(["G?", k])
        return dict.get(self, k, d)


def load_config(data, run=False):
    """Exactly torchtree.torchtree.main after json.load (no checkpoint): returns (dic, error)."""
    from torchtree.core.runnable import Runnable
    from torchtree.core.utils import (JSONParseError, expand_plates, process_objects,
                                      remove_comments)
    remove_comments(data)
    expand_plates(data)
    dic = TraceDict()
    LOG.clear()
    try:
        for element in data:
            obj = process_objects(element, dic)
            if run and isinstance(obj, Runnable):
                obj.run()
    except JSONParseError as e:
        root = LOG[0] if LOG else str(e)
        return dic, dict(kind="JSONParseError", root=root, outer=str(e))
    except BaseException as e:
        return dic, dict(kind=type(e).__name__, root=str(e)[:200], site=_frame_name(e.__traceback__),
                         nmsg=_msg(e))
    return dic, None


# --------------------------------------------------------------------------- JSON helpers

def index_objects(j, out=None):
    out = {} if out is None else out
    if isinstance(j, list):
        for e in j:
            index_objects(e, out)
    elif isinstance(j, dict):
        if "id" in j and "type" in j:
            out.setdefault(j["id"], j)
        for v in j.values():
            index_objects(v, out)
    return out


def _ids(v):
    vs = v if isinstance(v, list) else [v]
    return [x if isinstance(x, str) else x.get("id") for x in vs]


def moved_and_target(j):
    """python-side reading of what is moved / handed (cross-checked against the Coq model)"""
    objs = index_objects(j)
    moved, targets = [], []

    def var_x(d):
        d = objs.get(d) if isinstance(d, str) else d
        if d is None:
            return
        if d.get("type") == "JointDistributionModel":
            for e in d["distributions"]:
                var_x(e)
        elif "x" in d:
            moved.extend(_ids(d["x"]))

    for o in objs.values():
        t = o["type"]
        if t in ("HMCOperator", "SlidingWindowOperator", "ScalerOperator"):
            moved.extend(_ids(o["parameters"]))
        elif t == "GMRFPiecewiseCoalescentBlockUpdatingOperator":
            g = objs.get(o["gmrf"]) if isinstance(o["gmrf"], str) else o["gmrf"]
            if g is not None:
                moved.extend(_ids(g["x"]))
        elif t == "MCMC":
            targets.extend(_ids(o["joint"]))
        elif t == "Optimizer":
            if isinstance(o["loss"], str):
                targets.append(o["loss"])
                moved.extend(_ids(o["parameters"]))
            elif isinstance(o["loss"], dict):
                targets.extend(_ids(o["loss"]["joint"]))
                var_x(o["loss"]["variational"])
    dd = []
    for m in moved:
        if m not in dd:
            dd.append(m)
    tt = []
    for t in targets:
        if t not in tt:
            tt.append(t)
    return dd, tt


# --------------------------------------------------------------------------- numerics

MANIFOLD_TRANSFORMS = ("ConvexCombinationTransform", "RescaledRateTransform")


def autograd_logdet(obj):
    """log|det J| of a TransformedParameter / reparameterised tree computed from the forward map only
    (autograd Jacobian + slogdet); simplex-valued maps are taken on their first K-1 coordinates.
    Returns (value or None, note)."""
    torch = _torch
    from torchtree.core.parameter import TransformedParameter
    if isinstance(obj, TransformedParameter):
        x0 = obj.x.tensor.detach().clone()
        tname = type(obj.transform).__name__
    else:
        x0 = obj._internal_heights.tensor.detach().clone()
        tname = type(obj.transform).__name__
    if tname in MANIFOLD_TRANSFORMS:
        return None, f"{tname}: not a bijection between open sets"
    if x0.dim() != 1:
        return None, "batched"
    J = torch.autograd.functional.jacobian(lambda x: obj.transform(x), x0)
    J = J.reshape(-1, x0.numel())
    if J.shape[0] == J.shape[1] + 1:
        J = J[:-1]
    if J.shape[0] != J.shape[1]:
        return None, f"non-square {tuple(J.shape)}"
    return float(torch.linalg.slogdet(J)[1]), tname


def expand_requested(spec, dic):
    torch = _torch
    t = spec["tensor"]
    if isinstance(t, list):
        return torch.tensor(t, dtype=torch.float64)
    if "full" in spec:
        return torch.full(tuple(spec["full"]), float(t), dtype=torch.float64)
    if "full_like" in spec:
        ref = dict.get(dic, spec["full_like"])
        return torch.full_like(ref.tensor, float(t), dtype=torch.float64)
    return torch.tensor([float(t)], dtype=torch.float64)


def fnum(x):
    x = float(x)
    return x if math.isfinite(x) else repr(x)


def check_loaded(j0, dic, cfg):
    """density, gradient, Jacobian pieces and initial values on the loaded object graph"""
    torch = _torch
    from torchtree.core.parameter import TransformedParameter
    from torchtree.evolution.tree_model import ReparameterizedTimeTreeModel
    res = {}
    objs = index_objects(j0)
    moved, targets = moved_and_target(j0)
    res["moved"], res["targets"] = moved, targets
    get = lambda k: dict.get(dic, k)
    # --- values
    vals = {}
    for name in ["joint"] + [t for t in targets if t != "joint"] + \
            (["joint.jacobian"] if "joint.jacobian" in dic and "joint.jacobian" not in targets else []):
        o = get(name)
        if o is None:
            continue
        try:
            v = o()
            vals[name] = fnum(v.sum())
        except BaseException as e:
            vals[name] = dict(error=type(e).__name__, site=_frame_name(e.__traceback__), msg=str(e)[:160],
                              nmsg=_msg(e))
    res["values"] = vals
    # --- gradient of the target wrt what is moved
    grads = {}
    tname = targets[0] if targets else ("joint.jacobian" if "joint.jacobian" in dic else "joint")
    if isinstance(vals.get(tname), (float, str)) and moved and targets:
        params = [get(m) for m in moved if get(m) is not None]
        try:
            for p in params:
                p.requires_grad = True
            v = get(tname)().sum()
            v.backward()
            for p in params:
                g = p.tensor.grad if hasattr(p.tensor, "grad") else None
                if g is None:
                    grads[p.id] = "none"
                else:
                    grads[p.id] = "finite" if bool(torch.isfinite(g).all()) else "nonfinite"
        except BaseException as e:
            grads["__error__"] = dict(error=type(e).__name__, site=_frame_name(e.__traceback__),
                                      msg=str(e)[:160], nmsg=_msg(e))
        finally:
            for p in params:
                try:
                    p.requires_grad = False
                    if p.tensor.grad is not None:
                        p.tensor.grad = None
                except Exception:
                    pass
    res["grads"] = grads
    # --- log-determinants: implementation's own value and the autograd one, per candidate id
    logdets = {}
    for id_, o in objs.items():
        obj = get(id_)
        if obj is None:
            continue
        is_tp = isinstance(obj, TransformedParameter) and o["type"] == "TransformedParameter"
        is_tree = isinstance(obj, ReparameterizedTimeTreeModel)
        if not (is_tp or is_tree):
            continue
        if id_.startswith("variational") or id_.startswith("var."):
            continue
        ent = {}
        try:
            ent["impl"] = fnum(obj().sum())
        except BaseException as e:
            ent["impl"] = dict(error=type(e).__name__, site=_frame_name(e.__traceback__))
        try:
            v, note = autograd_logdet(obj)
            ent["auto"] = None if v is None else fnum(v)
            ent["note"] = note
        except BaseException as e:
            ent["auto"] = None
            ent["note"] = f"autograd failed: {type(e).__name__}: {str(e)[:80]}"
        logdets[id_] = ent
    res["logdets"] = logdets
    # --- initial values: constrained value after loading == value the builders requested
    init = []
    tree_json = objs.get("tree", {})
    keep = bool(tree_json.get("keep_branch_lengths", False))
    tree_param_ids = {"tree.ratios", "tree.root_height", "tree.shifts", "tree.blens"}
    for id_, spec in CONSTRAINED_SNAPSHOT.items():
        obj = get(id_)
        if obj is None:
            init.append(dict(id=id_, status="absent"))
            continue
        if keep and id_ in tree_param_ids:
            continue   # the loader overwrites them from the input tree on purpose
        lo, up = spec.get("@lower"), spec.get("@upper")
        try:
            want = expand_requested(spec, dic)
            got = obj.tensor.detach().to(torch.float64)
            if want.shape != got.shape:
                init.append(dict(id=id_, status="shape", want=list(want.shape), got=list(got.shape)))
                continue
            err = float(((got - want).abs() / (1e-7 + 1e-5 * want.abs())).max()) if want.numel() else 0.0
            inside = True
            if lo is not None and lo != up:
                inside = inside and bool((got > lo - 1e-12).all())
            if up is not None and lo != up:
                inside = inside and bool((got < up + 1e-12).all())
            if not (err <= 1.0) or not inside or not bool(torch.isfinite(got).all()):
                init.append(dict(id=id_, status="value", want=want.flatten()[:4].tolist(),
                                 got=[fnum(x) for x in got.flatten()[:4]], inside=inside))
        except BaseException as e:
            init.append(dict(id=id_, status="error", msg=f"{type(e).__name__}: {str(e)[:100]}"))
    # explicit switches
    req = cfg.get("requests", {})
    for id_, want in req.items():
        try:
            if id_ == "@tree.height":
                t = get("tree")
                n_tax = len(objs["taxa"]["taxa"])
                got = t.node_heights[..., n_tax:].max().reshape(1)
                wantt = torch.tensor([want], dtype=torch.float64)
            elif id_ == "@theta":
                o = get("coalescent.theta")
                got = o.tensor.detach().to(torch.float64)
                wantt = torch.full_like(got, want)
            elif id_ == "@tree.blens.sorted":
                o = get("tree.blens")
                got = o.tensor.detach().to(torch.float64).reshape(-1).sort().values
                wantt = torch.tensor(sorted(want), dtype=torch.float64)
            else:
                o = get(id_)
                if o is None:
                    init.append(dict(id=id_, status="absent-requested"))
                    continue
                got = o.tensor.detach().to(torch.float64)
                wantt = torch.tensor(want, dtype=torch.float64) if isinstance(want, list) \
                    else torch.full_like(got, want)
            if wantt.shape != got.shape or \
                    float(((got - wantt).abs() / (1e-7 + 1e-5 * wantt.abs())).max()) > 1.0:
                init.append(dict(id=id_, status="requested", want=wantt.flatten()[:4].tolist(),
                                 got=[fnum(x) for x in got.flatten()[:4]]))
        except BaseException as e:
            init.append(dict(id=id_, status="error", msg=f"{type(e).__name__}: {str(e)[:100]}"))
    for it in init:
        o = get("coalescent.theta" if it["id"] == "@theta" else ("tree" if it["id"] == "@tree.height" else
                                                                  "tree.blens" if it["id"] == "@tree.blens.sorted" else it["id"]))
        tr = getattr(o, "transform", None)
        it["via"] = type(tr).__name__ if tr is not None else type(o).__name__
    res["init"] = init
    res["n_constrained"] = len(CONSTRAINED_SNAPSHOT)
    return res


def short_run(j0, tmp):
    """Actually run the emitted sampler / optimiser for 2 iterations (files redirected to tmp)."""
    j = copy.deepcopy(j0)

    def patch(o):
        if isinstance(o, list):
            for e in o:
                patch(e)
        elif isinstance(o, dict):
            t = o.get("type")
            if t == "MCMC":
                o["iterations"] = 2
            elif t == "Optimizer":
                o["iterations"] = 2
                if "max_iter" in o:
                    o["max_iter"] = 2
                if isinstance(o.get("convergence"), dict):
                    o["convergence"]["every"] = 1
                    o["convergence"]["max_iterations"] = 2
                    if isinstance(o["convergence"].get("samples"), int):
                        o["convergence"]["samples"] = min(o["convergence"]["samples"], 3)
                    elif isinstance(o["convergence"].get("samples"), list):
                        o["convergence"]["samples"] = [2, 2]
            elif t == "Sampler":
                o["samples"] = 2
            elif t == "LeapfrogIntegrator":
                o["step_size"] = 1e-6
                o["steps"] = min(int(o.get("steps", 2)), 2)
            elif t == "SlidingWindowOperator":
                o["width"] = 1e-6
            if t == "Optimizer" and isinstance(o.get("options"), dict) and "lr" in o["options"]:
                o["options"]["lr"] = 1e-9
            if "every" in o and t in ("Logger", "TreeLogger"):
                o["every"] = 1
            for k in ("file_name", "checkpoint"):
                if isinstance(o.get(k), str):
                    o[k] = os.path.join(tmp, os.path.basename(o[k]))
            for v in o.values():
                patch(v)
    patch(j)
    cwd = os.getcwd()
    os.chdir(tmp)
    try:
        _torch.manual_seed(1)
        with contextlib.redirect_stdout(io.StringIO()), contextlib.redirect_stderr(io.StringIO()):
            dic, err = load_config(j, run=True)
        if err is not None and err["kind"] == "ZeroDivisionError":
            # MCMC.run's closing summary divides by the number of times each operator was picked:
            # with 2 iterations and several operators some were never picked.  Not a C19 matter.
            for o in dict.values(dic):
                ops = getattr(o, "_operators", None)
                if ops and any(op._accept + op._reject == 0 for op in ops):
                    return None
        return err
    finally:
        os.chdir(cwd)


def run_one(cfg):
    """cfg: dict(argv=[...], requests={...}, run=bool).  Returns the observation record."""
    _init()
    rec = dict(argv=cfg["argv"])
    try:
        st, payload = run_cli(cfg["argv"])
    except BaseException as e:  # harness problem
        rec.update(status="harness-error", msg=f"{type(e).__name__}: {e}")
        return rec
    rec["status"] = st
    if st != "ok":
        rec["msg"] = payload
        return rec
    j0 = payload
    rec["json"] = j0
    rec["snapshot_n"] = len(CONSTRAINED_SNAPSHOT)
    snap = copy.deepcopy(CONSTRAINED_SNAPSHOT)
    with contextlib.redirect_stdout(io.StringIO()), contextlib.redirect_stderr(io.StringIO()):
        dic, err = load_config(copy.deepcopy(j0))
    rec["trace"] = [list(e) for e in dic.ev]
    rec["load_error"] = err
    if err is None:
        CONSTRAINED_SNAPSHOT.clear()
        CONSTRAINED_SNAPSHOT.update(snap)
        try:
            with contextlib.redirect_stdout(io.StringIO()), contextlib.redirect_stderr(io.StringIO()):
                rec["checks"] = check_loaded(j0, dic, cfg)
        except BaseException as e:
            rec["checks"] = dict(harness_error=f"{type(e).__name__}: {e} @ "
                                               f"{traceback.format_tb(e.__traceback__)[-1][:200]}")
        chk = rec["checks"]
        healthy = all(isinstance(v, float) for v in chk.get("values", {}).values()) and \
            "__error__" not in chk.get("grads", {}) and "harness_error" not in chk
        if cfg.get("run", True) and healthy:
            tmp = tempfile.mkdtemp(prefix="c19run_")
            try:
                rec["run_error"] = short_run(j0, tmp)
            except BaseException as e:
                rec["run_error"] = dict(kind="harness", root=f"{type(e).__name__}: {e}")
            finally:
                shutil.rmtree(tmp, ignore_errors=True)
    return rec


def run_many(cfgs):
    return [run_one(c) for c in cfgs]


# =========================================================================== orchestrator
# (parent process: no torch)

import concurrent.futures as _cf
import hashlib
import itertools
import multiprocessing as _mp
import random
import re
import time

from harness import common as C
from harness.translate import t_cliclasses

PID = "C19"
HEADER = ("From Coq Require Import String List ZArith. Import ListNotations.\n"
          "From TT Require Import M_config G_cliclasses.\nOpen Scope string_scope.\n")

COAL_GRID = ["skygrid", "piecewise-constant", "piecewise-exponential", "piecewise-linear", "skyglide"]
COAL_PIECEWISE = COAL_GRID + ["skyride"]
COALS = ["constant", "exponential"] + COAL_PIECEWISE
TPRIORS = ["none"] + COALS + ["bd-constant", "bd-bdsk"]
NUC_FREQ_MODELS = ("K80", "HKY", "SYM", "GTR", "SRD06")

FACTORS = [
    ("sub", ["advi", "map", "mcmc", "hmc"]),
    ("model", ["JC69", "K80", "HKY", "SYM", "GTR", "SRD06", "MG94", "LG", "WAG"]),
    ("cat", [1, 4]), ("inv", [0, 1]),
    ("clock", ["none", "strict", "ucln", "horseshoe"]),
    ("heights", ["ratio", "shift"]),
    ("tprior", TPRIORS),
    ("grid", [5, 3]),
    ("dates", ["names", "zero"]),
    ("gmrf_int", [0, 1]), ("noncent", [0, 1]),
    ("skyopt", ["none", "no_time_aware", "no_rescale"]),
    ("temp", [0, 1]),
    ("clockpr", ["ctmcscale", "exponential", "exponential(100)"]),
    ("rate", ["free", "fixed"]),
    ("rate_init", ["none", "regression", "0.004"]),
    ("heights_init", ["none", "tree", "regression"]),
    ("root_init", ["none", "12.5"]),
    ("coal_init", ["none", "tree", "constant", "7.5"]),
    ("brlenspr", ["exponential", "gammadir"]),
    ("brlens_init", ["none", "tree", "0.05"]), ("keep", [0, 1]),
    ("freqs", ["none", "empirical", "equal", "list"]),
    ("misc", ["none", "use_ambiguities", "use_tip_states", "use_path", "location", "include_jacobian"]),
    ("q", ["default", "meanfield", "fullrank", "realnvp", "flexible"]),
    ("distribution", ["Normal", "LogNormal", "Gamma"]),
    ("divergence", ["ELBO", "KLpq"]), ("kgrad", [1, 3]), ("kelbo", [1, 3]),
    ("advi_mode", ["full", "no_sampler", "sampler_only", "logger_only"]),
    ("entropy", [0, 1]), ("stem", [0, 1]), ("ckpt_all", [0, 1]),
    ("poisson", [0, 1]),
    ("mass", ["diagonal", "dense"]), ("adapt_mass", [0, 1]),
    ("adapt_step", ["none", "dualaveraging", "adaptive"]),
    ("split", ["none", "split", "join"]), ("warmup", [0, 10]),
]
FNAMES = [f for f, _ in FACTORS]
CORE = ("sub", "model", "clock", "heights", "tprior")
ADVI_ONLY = ("q", "distribution", "divergence", "kgrad", "kelbo", "advi_mode", "entropy", "stem",
             "ckpt_all", "poisson")
HMC_ONLY = ("mass", "adapt_mass", "adapt_step", "split", "warmup")


def normalise(c):
    """Blank (None) every factor that is irrelevant given the others; returns a new dict."""
    c = dict(c)
    if c["sub"] != "advi":
        for f in ADVI_ONLY:
            c[f] = None
    if c["sub"] != "hmc":
        for f in HMC_ONLY:
            c[f] = None
    if c.get("poisson"):
        if c["tprior"] == "none" or c["clock"] == "none":
            c["poisson"] = 0
        else:
            for f in ("model", "cat", "inv", "freqs", "misc"):
                c[f] = None
    if c["clock"] == "none":
        for f in ("heights", "dates", "clockpr", "rate", "rate_init", "heights_init", "root_init",
                  "coal_init"):
            c[f] = None
    else:
        c["brlenspr"] = c["brlens_init"] = None
        if c["clock"] != "strict" or c["rate"] == "fixed":
            c["clockpr"] = None
        if c["clock"] != "strict":
            c["rate_init"] = None if c["rate_init"] == "0.004" else c["rate_init"]
    tp = c["tprior"]
    if tp not in COAL_GRID and tp != "bd-bdsk":
        c["grid"] = None
    if tp not in COAL_PIECEWISE:
        c["gmrf_int"] = c["noncent"] = None
    if tp != "skyride":
        c["skyopt"] = None
    if tp not in ("skygrid", "piecewise-constant"):
        c["temp"] = None
    if tp not in COALS:
        c["coal_init"] = None
    if c["coal_init"] in ("tree", "constant") and c["heights_init"] != "tree":
        c["coal_init"] = None            # documented: heights_init=tree must be specified
    if c["coal_init"] == "tree" and tp not in ("constant", "skyride"):
        c["coal_init"] = "constant"
    m = c["model"]
    if m not in NUC_FREQ_MODELS and m != "MG94":
        c["freqs"] = None
    if m == "MG94" and c["freqs"] == "list":
        c["freqs"] = "equal"
    if c["misc"] == "use_tip_states" and m in ("MG94",):
        pass
    if c.get("split") == "join":
        if not ((c["clock"] == "none" and m in ("HKY", "GTR")) or
                (c["clock"] not in ("none",) and c["heights"] == "ratio")):
            c["split"] = "split"
    if c.get("q") == "flexible" and c["clock"] == "none" and False:
        pass
    return c


def data_path(name):
    return os.path.join(C.REPO, "data", name)


def tiny_branch_lengths():
    import re
    return sorted(float(x) for x in re.findall(r":([0-9.eE+-]+)", open(data_path("tiny.nwk")).read()))


def rooted_tree_file():
    """The tree of data/tiny.nwk (written there with a trifurcating root, the last child a tip) written as a ROOTED
    newick whose last root child is that tip: the same unrooted tree, the tip's branch split over the two root edges."""
    src = open(data_path("tiny.nwk")).read().strip()
    body = src[1:src.rindex(")")]                 # X,Y,Z  (Z = the last child, a tip `name:length`)
    depth, cut = 0, None
    for i, ch in enumerate(body):
        depth += ch == "("
        depth -= ch == ")"
        if ch == "," and depth == 0:
            cut = i
    rest, last = body[:cut], body[cut + 1:]
    name, length = last.rsplit(":", 1)
    length = float(length)
    a = round(length * 0.375, 9)
    text = f"(({rest}):{a!r},{name}:{length - a!r});\n"
    path = os.path.join(C.WORKROOT, PID, "tiny_rooted_outgroup_last.nwk")
    os.makedirs(os.path.dirname(path), exist_ok=True)
    if not os.path.exists(path) or open(path).read() != text:
        with open(path, "w") as f:
            f.write(text)
    return path


def build_argv(c):
    """-> (argv, requests)"""
    c = normalise(c)
    a = [c["sub"]]
    req = {}
    if c.get("poisson"):
        a += ["--poisson", "-t", data_path("tiny.nwk")]
    else:
        a += ["-i", data_path("tiny.fa"), "-t", data_path("tiny.nwk")]
        a += ["-m", c["model"]]
        if c["model"] == "MG94":
            a += ["--genetic_code", "0"]
        if c["cat"] and c["cat"] > 1:
            a += ["-C", str(c["cat"])]
        if c["inv"]:
            a += ["-I"]
    if c["sub"] in ("map", "mcmc"):
        a += ["--stem", "c19out"]
    strict_free = c["clock"] == "strict" and c["rate"] == "free"
    if c["clock"] != "none":
        a += ["--clock", c["clock"]]
        if c["heights"] == "shift":
            a += ["--heights", "shift"]
        if c["dates"] == "zero":
            a += ["--dates", "0"]
        if c["clockpr"] and c["clockpr"] != "ctmcscale":
            a += ["--clockpr", c["clockpr"]]
        if c["rate"] == "fixed":
            a += ["--rate", "0.002"]
            if c["clock"] == "strict":
                req["branchmodel.rate"] = 0.002
        if c["rate_init"] and c["rate_init"] != "none":
            a += ["--rate_init", c["rate_init"]]
            if c["rate_init"] == "0.004" and strict_free:
                req["branchmodel.rate"] = 0.004
        if c["heights_init"] and c["heights_init"] != "none":
            a += ["--heights_init", c["heights_init"]]
        if c["root_init"] and c["root_init"] != "none":
            a += ["--root_height_init", c["root_init"]]
            if c["heights_init"] != "tree" and not c["keep"]:
                req["@tree.height"] = float(c["root_init"])
    else:
        if c["brlenspr"] == "gammadir":
            a += ["--brlenspr", "gammadir"]
        if c["brlens_init"] and c["brlens_init"] != "none":
            a += ["--brlens_init", c["brlens_init"]]
            if c["brlens_init"] == "0.05" and not c["keep"]:
                req["tree.blens"] = 0.05
    if c["keep"]:
        a += ["--keep"]
        if c["clock"] == "none" and not c.get("poisson"):
            # the lengths kept are the ones of the tree file, however the file is rooted: half of these runs read the
            # same tree from a ROOTED newick whose last root child is a tip
            if sum(map(ord, json.dumps(c, sort_keys=True, default=str))) % 2 == 0:
                a[a.index("-t") + 1] = rooted_tree_file()
            req["@tree.blens.sorted"] = tiny_branch_lengths()
    tp = c["tprior"]
    if tp.startswith("bd-"):
        a += ["--birth-death", tp[3:]]
        if tp == "bd-bdsk":
            a += ["--grid", str(c["grid"])]
    elif tp != "none":
        a += ["--coalescent", tp]
        if tp in COAL_GRID:
            a += ["--grid", str(c["grid"]), "--cutoff", "10" if c["grid"] == 5 else "8.5"]
        if c["gmrf_int"]:
            a += ["--gmrf_integrated"]
        if c["noncent"]:
            a += ["--coalescent_non_centered"]
        if c["skyopt"] == "no_time_aware":
            a += ["--disable_time_aware"]
        elif c["skyopt"] == "no_rescale":
            a += ["--disable_gmrf_rescaling"]
        if c["temp"]:
            a += ["--coalescent_temperature", "0.5"]
        if c["coal_init"] and c["coal_init"] != "none":
            a += ["--coalescent_init", c["coal_init"]]
            if c["coal_init"] == "7.5":
                req["@theta"] = 7.5
    if c["freqs"] and c["freqs"] != "none":
        if c["model"] == "MG94":
            a += ["-f", "F3x4" if c["freqs"] == "empirical" else "equal"]
        else:
            a += ["-f", {"empirical": "empirical", "equal": "equal", "list": "0.1,0.2,0.3,0.4"}[c["freqs"]]]
            if c["freqs"] == "list":
                if c["model"] == "SRD06":
                    req["substmodel.12.frequencies"] = [0.1, 0.2, 0.3, 0.4]
                    req["substmodel.3.frequencies"] = [0.1, 0.2, 0.3, 0.4]
                else:
                    req["substmodel.frequencies"] = [0.1, 0.2, 0.3, 0.4]
    if c["misc"] in ("use_ambiguities", "use_tip_states", "use_path", "include_jacobian"):
        a += ["--" + c["misc"]]
    elif c["misc"] == "location":
        a += ["--location_regex", "^A_([A-Za-z0-9]+)_"]
    if c["sub"] == "advi":
        q = c["q"]
        if q == "meanfield":
            a += ["-q", "meanfield"]
        elif q in ("fullrank", "realnvp"):
            a += ["-q", q]
        elif q == "flexible":
            first = "tree.blens" if c["clock"] == "none" else \
                ("tree.ratios" if c["heights"] == "ratio" else "tree.shifts")
            a += ["-q", f"Normal({first})"]
        if c["distribution"] != "Normal":
            a += ["--distribution", c["distribution"]]
        if c["divergence"] == "KLpq":
            a += ["--divergence", "KLpq"]
        if c["kgrad"] == 3:
            a += ["--K_grad_samples", "3"]
        if c["kelbo"] == 3:
            a += ["--K_elbo_samples", "3"]
        if c["advi_mode"] in ("no_sampler", "logger_only"):
            a += ["--samples", "0"]
        if c["advi_mode"] in ("sampler_only", "logger_only"):
            a += ["--iter", "0"]
        if c["entropy"]:
            a += ["--entropy"]
        if c["stem"]:
            a += ["--stem", "c19out"]
        if c["ckpt_all"]:
            a += ["--checkpoint_all"]
    if c["sub"] == "hmc":
        if c["mass"] == "dense":
            a += ["--mass_matrix", "dense"]
        if c["adapt_mass"]:
            a += ["--adapt_mass_matrix"]
        if c["adapt_step"] != "none":
            a += ["--adapt_step_size", c["adapt_step"]]
        if c["split"] == "split":
            a += ["--split"]
        elif c["split"] == "join":
            if c["clock"] == "none":
                a += ["--join", "tree.blens.unres,substmodel.frequencies.unres"]
            else:
                rh = "tree.root_height.unres" if c["dates"] == "zero" else "tree.root_height.unshifted.unres"
                a += ["--join", f"tree.ratios.unres,{rh}"]
        if c["warmup"]:
            a += ["--warmup", str(c["warmup"])]
    return a, req


def random_config(rng, fixed=None):
    c = {f: rng.choice(vs) for f, vs in FACTORS}
    # sensible marginal weights: time trees and tree priors are the interesting part
    if rng.random() < 0.6:
        c["clock"] = rng.choice(["strict", "strict", "ucln", "horseshoe"])
    if rng.random() < 0.5:
        c["distribution"] = "Normal"
    if rng.random() < 0.6:
        c["advi_mode"] = "full"
    if rng.random() < 0.85:
        c["poisson"] = 0
    if fixed:
        c.update(fixed)
    return normalise(c)


def pairs_of(c, restrict=None):
    items = [(f, c[f]) for f in FNAMES if c.get(f) is not None]
    out = set()
    for (f1, v1), (f2, v2) in itertools.combinations(items, 2):
        if restrict is None or (f1, v1, f2, v2) in restrict:
            out.add((f1, v1, f2, v2))
    return out


def all_pairs(rng, n_probe=4000):
    """pairs of factor values that can co-occur in a normalised configuration"""
    seen = set()
    for _ in range(n_probe):
        seen |= pairs_of(random_config(rng))
    return seen


def covering_set(rng, uncovered, max_n=400):
    """greedy pairwise covering: repeatedly keep the best of 40 random candidates"""
    out = []
    uncovered = set(uncovered)
    while uncovered and len(out) < max_n:
        best, best_gain = None, -1
        seed_pair = next(iter(sorted(uncovered, key=repr)))
        for k in range(40):
            fixed = {seed_pair[0]: seed_pair[1], seed_pair[2]: seed_pair[3]} if k < 30 else None
            c = random_config(rng, fixed)
            gain = len(pairs_of(c) & uncovered)
            if gain > best_gain:
                best, best_gain = c, gain
        if best_gain <= 0:
            uncovered.discard(seed_pair)     # not realisable together after normalisation
            continue
        out.append(best)
        uncovered -= pairs_of(best)
    return out


def core_enumeration(rng):
    """full enumeration of the model-defining core, the other factors drawn at random"""
    out = []
    for sub in ["advi", "map", "mcmc", "hmc"]:
        for model in dict(FACTORS)["model"]:
            combos = [("none", None, tp) for tp in ("none", "constant", "bd-constant")]
            combos += [(ck, h, tp) for ck in ("strict", "ucln", "horseshoe") for h in ("ratio", "shift")
                       for tp in TPRIORS]
            for ck, h, tp in combos:
                fixed = dict(sub=sub, model=model, clock=ck, tprior=tp, poisson=0)
                if h:
                    fixed["heights"] = h
                c = random_config(rng, fixed)
                out.append(c)
    return out


# Minimal option combinations, always run: one per defect class already observed, plus plain
# baselines, so that every run reproduces (or stops reproducing) each known finding.
PROBES = [
    "hmc", "mcmc", "map", "advi",
    "hmc --clock strict --coalescent constant", "advi --clock strict --coalescent constant",
    "mcmc --clock strict --coalescent skygrid --grid 5 --cutoff 10",
    "hmc --clock strict --heights shift --coalescent skyride",
    "advi --clock strict --coalescent skyride --coalescent_non_centered",
    "hmc --clock strict --coalescent skygrid --grid 5 --cutoff 10 --coalescent_non_centered",
    "mcmc --clock strict --coalescent skyride --coalescent_non_centered",
    "map --clock strict --coalescent constant",
    "hmc -m LG", "advi -m WAG",
    "hmc --clock strict --heights shift --birth-death constant",
    "hmc --clock strict --heights shift --birth-death bdsk --grid 3",
    "hmc --clock strict --birth-death constant", "hmc --clock strict --birth-death bdsk --grid 3",
    "advi --clock strict --birth-death constant", "advi --clock strict --birth-death bdsk --grid 3",
    "advi --clock ucln", "hmc --clock ucln --coalescent constant",
    "map -m SRD06 --clock horseshoe", "advi --clock horseshoe --coalescent constant",
    "map --clock horseshoe --coalescent constant",
    "hmc --clock strict --coalescent piecewise-exponential --grid 5 --cutoff 10",
    "hmc --coalescent constant", "hmc --birth-death constant",
    "advi --samples 0 --iter 0", "advi --samples 0 --iter 0 --clock strict --coalescent skyride",
    "hmc --warmup 10",
    "hmc -m SRD06 --clock strict --coalescent constant",
    "hmc --clock strict --coalescent constant --heights_init tree --coalescent_init 7.5",
    "hmc --clock strict --coalescent skyride --coalescent_non_centered --coalescent_init 7.5",
    "advi --poisson --clock strict --coalescent constant",
    "hmc --location_regex ^A_([A-Za-z0-9]+)_ --clock strict",
    "hmc --clock strict --coalescent constant --include_jacobian",
    "mcmc --clock strict --coalescent constant --include_jacobian",
    "advi --clock strict --coalescent constant --include_jacobian",
    "map --clock strict --coalescent constant --include_jacobian",
    # the lengths of the tree file are kept, however the file roots the tree (`@rooted` = the same tree written as a
    # rooted newick whose last root child is a tip)
    "hmc --keep @rooted", "mcmc --keep @rooted", "map --keep @rooted", "advi --keep @rooted", "hmc --keep",
]


def probe_cfgs():
    out = []
    for line in PROBES:
        a = line.split()
        rooted = "@rooted" in a
        a = [x for x in a if x != "@rooted"]
        if "--poisson" in a:
            argv = [a[0], "-t", data_path("tiny.nwk")] + a[1:]
        else:
            argv = [a[0], "-i", data_path("tiny.fa"), "-t", data_path("tiny.nwk")] + a[1:]
        if a[0] in ("map", "mcmc"):
            argv += ["--stem", "c19out"]
        req = {}
        if "--coalescent_init" in a:
            req["@theta"] = float(a[a.index("--coalescent_init") + 1])
        if "--keep" in a and "--clock" not in a:
            req["@tree.blens.sorted"] = tiny_branch_lengths()
            if rooted:
                argv[argv.index("-t") + 1] = rooted_tree_file()
        out.append(dict(argv=argv, requests=req, run=True, probe=True))
    return out


# --------------------------------------------------------------------------- JSON -> Coq

ABSTRACTED_KEYS = ("newick", "sequence")   # long payload strings, never ids or references


def _cstr(s):
    s = "".join(ch if 32 <= ord(ch) <= 126 else "?" for ch in s)
    return '"' + s.replace('"', '""') + '"'


def to_coq(j, strings, key=None):
    if j is None:
        return "JNull"
    if isinstance(j, bool):
        return "JBool true" if j else "JBool false"
    if isinstance(j, int):
        return f"JNum (Some ({j})%Z)" if abs(j) < 2 ** 62 else "JNum None"
    if isinstance(j, float):
        if math.isfinite(j) and j.is_integer() and abs(j) < 2 ** 62:
            return f"JNum (Some ({int(j)})%Z)"
        return "JNum None"
    if isinstance(j, str):
        if key in ABSTRACTED_KEYS:
            j = "<abstracted>"
        strings.setdefault(_cstr(j), len(strings))
        return f"JStr {_cstr(j)}"
    if isinstance(j, list):
        return "JArr [" + "; ".join(to_coq(e, strings) for e in j) + "]"
    if isinstance(j, dict):
        return "JObj [" + "; ".join(f"({_cstr(k)}, {to_coq(v, strings, k)})" for k, v in j.items()) + "]"
    raise TypeError(type(j))


ERRS = {1: "Dangling", 2: "Duplicate", 3: "MissingId", 4: "Unknown"}


def decode_report(v, table):
    pos = [0]

    def nxt():
        x = v[pos[0]]
        pos[0] += 1
        return x

    def s():
        i = nxt()
        if i < 0 or i >= len(table):
            raise ValueError("string outside the table")
        return table[i]

    def ss():
        return [s() for _ in range(nxt())]

    def err():
        c = nxt()
        if c == 3:
            nxt()
            return ("MissingId", "")
        return (ERRS[c], s())
    r = dict(wf=bool(nxt()), jac=bool(nxt()), known_density=bool(nxt()))
    if v[pos[0]] == 0:
        nxt()
        r["load"] = None
    else:
        r["load"] = err()
    evs = []
    for _ in range(nxt()):
        k = nxt()
        if k == 3:
            e = err()
            evs.append(["F", e[0] + ":" + e[1]])
        else:
            name = s()
            if k == 2:      # ESet = the post-construction `id in dic` test followed by dic[id] = obj
                evs.append(["C", name])
            evs.append([{0: "C", 1: "G", 2: "S"}[k], name])
    r["events"] = evs
    r["dead"], r["moved"], r["targets"] = ss(), ss(), ss()
    r["terms"] = ss() if nxt() == 1 else None
    r["needs"], r["optional"], r["covered"] = ss(), ss(), ss()
    if pos[0] != len(v):
        raise ValueError("trailing output")
    return r


def coq_reports(recs):
    """Run the verified checkers on every emitted configuration.  -> list of decoded reports"""
    exprs, tables = [], []
    for r in recs:
        strings = {}
        term = to_coq(r["json"], strings)
        tbl = sorted(strings, key=strings.get)
        tables.append([t[1:-1].replace('""', '"') for t in tbl])
        exprs.append(f"report registered_classes [{'; '.join(tbl)}] ({term})")
    if not exprs:
        return []
    shard = max(1, min(12, (len(exprs) + 15) // 16))
    res = C.run_cases(PID, HEADER, exprs, shard=shard, rtype="Z", timeout=1800)
    return [decode_report(v, t) for v, t in zip(res, tables)]


# --------------------------------------------------------------------------- judging one record

def innermost_open(trace):
    stack = []
    for k, i in trace:
        if k == "C":
            stack.append(i)
        elif k == "S" and stack and stack[-1] == i:
            stack.pop()
    return stack[-1] if stack else "<top>"


def sub_of(rec):
    return rec["argv"][0]


def close(a, b, rel=1e-8, abs_=1e-8):
    return abs(a - b) <= abs_ + rel * max(abs(a), abs(b))


def judge(rec, m):
    """rec: worker observation, m: decoded Coq report (or None).  -> list of (key, what, replay)"""
    out = []
    sub = sub_of(rec)
    replay = dict(argv=rec["argv"], cmd="torchtree-cli " + " ".join(rec["argv"]))

    def add(key, what, **extra):
        rp = dict(replay)
        rp.update(extra)
        out.append((key, what, rp))

    err = rec.get("load_error")
    trace = rec["trace"]
    objs_types = {}
    _index_types(rec["json"], objs_types)
    # ---- (a) vs (b): loading
    if err is not None:
        where = innermost_open(trace)
        wty = objs_types.get(where, "?")
        root = err["root"]
        mm = re.match(r"Object with ID `(.*)' not found", root)
        if err["kind"] == "JSONParseError" and mm:
            add(f"C19:load:dangling:{mm.group(1)}:in:{wty}:{where}",
                f"emitted configuration is rejected by the loader: reference `{mm.group(1)}' "
                f"(in {wty} `{where}') names no object defined before it", load_error=err)
        elif err["kind"] == "JSONParseError" and ("module" in root.lower() or "attribute" in root.lower()):
            ty = _type_of(rec["json"], where)
            add(f"C19:load:unregistered-type:{ty}",
                f"emitted configuration is rejected by the loader: type `{ty}' of `{where}' is not "
                f"registered ({root})", load_error=err)
        elif err["kind"] == "JSONParseError":
            add(f"C19:load:{_norm(root)}", f"emitted configuration is rejected by the loader: {root}",
                load_error=err)
        else:
            add(f"C19:construct:{wty}:{err['kind']}:{err.get('site', '?')}:{err.get('nmsg', '')}",
                f"object `{where}' ({wty}) of the emitted configuration fails to construct: "
                f"{err['kind']}: {err['root']}", load_error=err)
    if m is not None:
        # model <-> implementation: the registry operations must be the same sequence
        ev = m["events"]
        if err is None:
            same = ev == trace
        else:
            # the real loader stops at the failing operation; the model's static list goes on
            k = len(trace)
            same = ev[:k - 1] == trace[:k - 1] and k >= 1 and (
                ev[k - 1] == trace[k - 1] or ev[k - 1][0] == "F") if len(ev) >= k else False
            if same and m["load"] is None:
                same = err["kind"] != "JSONParseError"   # construction error beyond the id discipline
        if not same:
            i = next((n for n, (x, y) in enumerate(zip(ev, trace)) if x != y), min(len(ev), len(trace)))
            add("C19:model-impl-differ:registry-trace",
                f"loader model and real loader disagree at registry operation {i}: model "
                f"{ev[i] if i < len(ev) else None} vs real {trace[i] if i < len(trace) else None}",
                model=ev[max(0, i - 3):i + 3], real=trace[max(0, i - 3):i + 3])
        if err is None and not m["wf"]:
            if m["dead"]:
                for d in m["dead"][:1]:      # nested dead objects are consequences of the first
                    add(f"C19:dead-object:{objs_types.get(d, '?')}:{d}",
                        f"emitted object `{d}' ({objs_types.get(d, '?')}) sits under a key the loader "
                        f"never reads: it is never constructed, the option that produced it has no effect")
            elif m["load"] is not None:
                add(f"C19:wf:{m['load'][0]}:{m['load'][1]}",
                    f"checker rejects the configuration ({m['load']}) although the loader accepts it")
            else:
                add("C19:wf:duplicate-or-unreachable-id", "wf_config = false (duplicate id at some depth)")
        if err is not None and m["wf"]:
            pass    # already reported from the real loader's side (e.g. a construction error)
    if err is not None:
        return out
    ch = rec.get("checks", {})
    if "harness_error" in ch:
        add("C19:harness-error", ch["harness_error"])
        return out
    # ---- density and gradient at the initial point
    vals = ch.get("values", {})
    dens_ok = True
    for name, v in vals.items():
        if isinstance(v, dict):
            dens_ok = False
            add(f"C19:density:raises:{v['error']}:{v['site']}:{v.get('nmsg', '')}",
                f"`{name}' of the emitted configuration cannot be evaluated at the initial point: "
                f"{v['error']} in {v['site']}: {v.get('msg', '')}")
        elif isinstance(v, str):
            dens_ok = False
            add(f"C19:density:nonfinite:{name}:{sub}", f"`{name}' is {v} at the initial point")
    g = ch.get("grads", {})
    if "__error__" in g:
        add(f"C19:gradient:raises:{g['__error__']['error']}:{g['__error__']['site']}:{g['__error__'].get('nmsg', '')}",
            f"gradient of the target cannot be computed: {g['__error__']}")
    else:
        bad = sorted(k for k, v in g.items() if v == "nonfinite")
        for b in bad:
            add(f"C19:gradient:nonfinite:{b}", f"gradient of the target wrt `{b}' is not finite at the "
                                               f"initial point")
    # ---- initial values
    for it in ch.get("init", []):
        add(f"C19:init:{it['status']}:{it['id']}:{it.get('via', '')}",
            f"initial value of `{it['id']}' after loading differs from the requested one: {it}")
    # ---- which parameters of the substitution model are estimated: those the model named on the command line has
    #      (K80: kappa; HKY: kappa and frequencies; SYM: rates; GTR: rates and frequencies; MG94: alpha, beta, kappa;
    #      SRD06: kappa and frequencies of each partition; JC69, LG, WAG: none) — never more
    argv = rec["argv"]
    model_name = argv[argv.index("-m") + 1] if "-m" in argv and argv.index("-m") + 1 < len(argv) else "JC69"
    free = {"JC69": [], "LG": [], "WAG": [], "K80": ["kappa"], "HKY": ["kappa", "frequencies"], "SYM": ["rates"],
            "GTR": ["rates", "frequencies"], "MG94": ["alpha", "beta", "kappa"],
            "SRD06": ["12.kappa", "12.frequencies", "3.kappa", "3.frequencies"]}.get(model_name)
    if free is not None:
        allowed = {"substmodel." + x for x in free}
        for mid in ch.get("moved") or []:
            base = mid[:-len(".unres")] if mid.endswith(".unres") else mid
            known = {"substmodel." + x for x in ("kappa", "frequencies", "rates", "alpha", "beta", "12.kappa",
                                                   "12.frequencies", "3.kappa", "3.frequencies")}
            if base in known and base not in allowed:      # (trait models have their own substitution models)
                add(f"C19:estimated:not-a-parameter-of-{model_name}:{base}",
                    f"`{mid}' is handed to the inference algorithm as a free parameter, but {model_name} has no free "
                    f"`{base.split('.', 1)[1]}' (free parameters of {model_name}: {sorted(allowed) or 'none'})")
    # ---- Jacobians
    if m is not None:
        if m["moved"] != ch.get("moved") or m["targets"] != ch.get("targets"):
            add("C19:model-impl-differ:moved-or-target",
                f"model reads moved={m['moved']} targets={m['targets']}, harness reads "
                f"{ch.get('moved')} / {ch.get('targets')}")
        if not m["known_density"]:
            add("C19:model:unknown-density-class", "joint contains a density class the model has no "
                                                   "random-variable entry for (fail closed)")
        elif m["targets"] and m["terms"] is None:
            add(f"C19:jacobian:{sub}:target-shape", f"target {m['targets']} is not joint or joint+ids")
        elif m["targets"]:
            terms, needs, opt = m["terms"], m["needs"], m["optional"]
            missing = [t for t in needs if t not in terms]
            extra = [t for t in dict.fromkeys(terms) if t not in needs and t not in opt]
            dup = sorted({t for t in terms if terms.count(t) > 1})
            if (not missing and not extra and not dup) != m["jac"]:
                add("C19:harness:check-decoding", "check_jacobians flag inconsistent with the lists")
            if missing and not terms and m["targets"] == ["joint"]:
                add(f"C19:jacobian:{sub}:objective-is-joint-without-jacobians",
                    f"the optimiser moves the unconstrained parameters {m['moved'][:3]}.. but is handed "
                    f"`joint' with no log-Jacobian term (needed: {needs})", needs=needs)
            else:
                for t in missing:
                    add(f"C19:jacobian:{sub}:missing:{t}",
                        f"a prior is placed on transformed `{t}' while the sampler moves its "
                        f"untransformed argument, but `{t}' is not among the Jacobian terms {terms}")
            for t in extra:
                add(f"C19:jacobian:{sub}:extra:{t}",
                    f"`{t}' is listed as a Jacobian term but no prior is placed on it (its argument "
                    f"already carries one)")
            for t in dup:
                add(f"C19:jacobian:{sub}:duplicate:{t}", f"Jacobian term `{t}' listed more than once")
            # numerical tie: target - joint = sum of independently computed log-dets of the listed
            # terms, and the implementation's log-dets agree with autograd for every needed term
            ld = ch.get("logdets", {})
            tname = m["targets"][0]
            if dens_ok and isinstance(vals.get(tname), float) and isinstance(vals.get("joint"), float):
                total, okk = 0.0, True
                for t in terms:
                    e = ld.get(t)
                    if e is None:
                        okk = False
                        add(f"C19:jacobian:{sub}:term-not-a-transform:{t}",
                            f"Jacobian term `{t}' is neither a transformed parameter nor a tree model")
                        continue
                    val = e.get("auto")
                    if val is None and t in opt and isinstance(e.get("impl"), float):
                        val = e["impl"]       # no prior on it: scale is a convention
                    if not isinstance(val, float):
                        okk = False
                        continue
                    total += val
                if okk and not close(vals[tname] - vals["joint"], total, 1e-7, 1e-7):
                    add(f"C19:jacobian:{sub}:value",
                        f"{tname}() - joint() = {vals[tname] - vals['joint']!r} but the listed "
                        f"transforms' log|det J| (autograd) sum to {total!r}")
            for t in needs:
                e = ld.get(t)
                if e and isinstance(e.get("auto"), float) and isinstance(e.get("impl"), float) \
                        and not close(e["auto"], e["impl"], 1e-7, 1e-7):
                    add(f"C19:logdet:{e.get('note')}",
                        f"log_abs_det_jacobian of `{t}' ({e.get('note')}) is {e['impl']!r}, autograd "
                        f"gives {e['auto']!r}")
            # unit-Jacobian transforms skipped by the model really have log-det 0
            for t, e in ld.items():
                if e.get("note") in ("AffineTransform", "DifferenceNodeHeightTransform") and \
                        isinstance(e.get("auto"), float) and abs(e["auto"]) > 1e-9 and t not in terms:
                    add(f"C19:logdet:unit-assumption:{e.get('note')}",
                        f"`{t}' is treated as having log|det J| = 0 but autograd gives {e['auto']}")
    # ---- short actual run
    re_ = rec.get("run_error")
    if re_ is not None:
        if re_["kind"] == "JSONParseError":
            add(f"C19:run:{sub}:load:{_norm(re_['root'])}", f"2-iteration run failed to load: {re_}")
        elif re_["kind"] in NUMERIC_RUN_FAILURES:
            rec["numeric_run_failure"] = f"{re_['kind']}@{re_.get('site')}"
        else:
            add(f"C19:run:{sub}:{re_['kind']}:{re_.get('site', '?')}:{re_.get('nmsg', '')}",
                f"2-iteration run of the emitted {sub} configuration raises {re_['kind']}: "
                f"{re_['root']} in {re_.get('site')}")
    return out


# failures of the 2-iteration run that are numerical accidents of taking a step (validation of a
# distribution's arguments, eigendecomposition not converging), not structural defects of the
# emitted configuration: counted, not reported
NUMERIC_RUN_FAILURES = ("ValueError", "_LinAlgError", "FloatingPointError", "ZeroDivisionError")


def _count(xs):
    out = {}
    for x in xs:
        if x:
            out[x] = out.get(x, 0) + 1
    return out


def _norm(s):
    return re.sub(r"[^A-Za-z0-9_.`']+", "-", s)[:100]


def _index_types(j, out):
    if isinstance(j, list):
        for e in j:
            _index_types(e, out)
    elif isinstance(j, dict):
        if "id" in j and "type" in j:
            out.setdefault(j["id"], j["type"])
        for v in j.values():
            _index_types(v, out)


def _type_of(j, id_):
    t = {}
    _index_types(j, t)
    return t.get(id_, "?")


# --------------------------------------------------------------------------- pool

class Pool:
    """worker processes (forked before the parent ever touches torch), reused across rounds"""

    def __init__(self, workers):
        os.environ["PYTHONPATH"] = f"{C.REPO}:/verif:" + os.environ.get("PYTHONPATH", "")
        self.n = max(1, workers)
        self.ex = _cf.ProcessPoolExecutor(max_workers=self.n, mp_context=_mp.get_context("fork"))

    def run(self, cfgs):
        if not cfgs:
            return []
        size = max(1, min(6, (len(cfgs) + self.n - 1) // self.n))
        chunks = [(k, cfgs[k:k + size]) for k in range(0, len(cfgs), size)]
        out = [None] * len(cfgs)
        futs = {self.ex.submit(run_many, ch): k for k, ch in chunks}
        for fu in _cf.as_completed(futs):
            k = futs[fu]
            for i, r in enumerate(fu.result()):
                out[k + i] = r
        return out

    def close(self):
        self.ex.shutdown(wait=True, cancel_futures=True)


def sync():
    try:
        txt, info = t_cliclasses.translate()
    except t_cliclasses.TranslateError as e:
        return False, f"T-cliclasses translator: {e}"
    with C.CoqLock():
        C.write_if_changed(os.path.join(C.COQ, "gen", "G_cliclasses.v"), txt)
    return True, info


def run(tier, seed, replay=None):
    rep = C.Report(PID, tier, seed)
    rep.trusted = C.COMMON_TRUSTED + [
        "translator harness/translate/t_cliclasses.py (python ast, fail-closed): set of @register_class names",
        "per-class schema of model/M_config.v (which keys a class' from_json processes, in which order): "
        "validated on every run by comparing the model's registry-operation list with the real loader's",
        "JSON -> Coq term translation (harness/props/c19.py:to_coq): numbers abstracted to integral-or-not, "
        "values of keys newick/sequence abstracted, non-ASCII characters replaced",
        "semantics of JointDistributionModel (sum of its members) and of calling a TransformedParameter / "
        "tree model (its log|det J|): stated as the definition of the handed density in proof/P_config.v, "
        "checked numerically per configuration (target() - joint() vs autograd log-determinants)",
        "runnability (objects construct, finite density/gradient, 2-iteration run) is an execution fact "
        "observed on each enumerated configuration, not a theorem",
    ]
    rep.assumptions = [
        "a transformed parameter on which no prior at all is placed (e.g. K80 kappa, pinv, srd06.mu, node "
        "heights without a tree prior) has an implicit flat prior whose scale the property leaves open: its "
        "Jacobian may be listed at most once (optional), never required",
        "translation x + loc (AffineTransform scale 1) and the shift node-height transform have log|det J| = 0 "
        "(checked numerically on every configuration)",
        "option combinations for which the CLI exits with an error or raises (no JSON emitted) are not "
        "`accepted' and are only counted",
    ]
    ok_sync, info = sync()

    def search():
        return None

    if not ok_sync:
        rep.proof = dict(obligations=1, discharged=0, axioms={}, theorems=["T-cliclasses translation"], ok=False)
        rep.violation("C19:translator-failed", info, dict(error=info), False)
        return rep.finish()
    unreg = [t for t in info["cli_literals"] if t not in info["registered"] and "." not in t]
    proved = C.handle_proof(rep, PID, search)

    rng = random.Random(seed)
    workers = int(os.environ.get("VERIF_WORKERS", "16"))
    t0 = time.time()
    if replay:
        rp = json.load(open(replay))["replay"]
        cfgs = [dict(argv=rp["argv"], requests=rp.get("requests", {}), run=True)]
        universe = set()
    else:
        cfgs = probe_cfgs()
        universe = all_pairs(random.Random(seed + 1))
    results = []
    covered_pairs, tried = set(), {}
    n_rounds = 0
    pool = Pool(1 if replay else workers)
    if not replay:
        todo = set(universe)
        rounds = 2 if tier == "quick" else 3
        budget = 150 if tier == "quick" else 400
        extra = core_enumeration(rng) if tier != "quick" else []
        for rnd in range(rounds):
            n_rounds += 1
            batch = covering_set(rng, todo, max_n=budget if rnd == 0 else budget // 3)
            if rnd == 0:
                batch = batch + extra
            new = []
            for c in batch:
                argv, req = build_argv(c)
                new.append(dict(argv=argv, requests=req, run=True, cfg=c))
            if rnd == 0:
                new = cfgs + new
            res = pool.run(new)
            for cf_, r in zip(new, res):
                r["cfg"] = cf_.get("cfg")
                r["requests"] = cf_.get("requests", {})
                results.append(r)
                if cf_.get("cfg") is not None:
                    ps = pairs_of(cf_["cfg"])
                    if r["status"] == "ok":
                        covered_pairs |= ps
                    else:
                        for p in ps:
                            tried[p] = tried.get(p, 0) + 1
            todo = {p for p in universe if p not in covered_pairs and tried.get(p, 0) < 2}
            if not todo:
                break
    else:
        results = pool.run(cfgs)
        for r in results:
            r["requests"] = cfgs[0]["requests"]
    pool.close()
    rep.timings["impl"] = round(time.time() - t0, 2)

    # ---- Coq: verified checkers on every emitted configuration
    t0 = time.time()
    okrecs = [r for r in results if r["status"] == "ok"]
    reports = [None] * len(okrecs)
    try:
        reports = coq_reports(okrecs)
    except (RuntimeError, ValueError) as e:
        if proved:
            rep.violation("C19:model-eval-failed", str(e)[:300], dict(error=str(e)[-2000:]), False)
    rep.timings["coq_cases"] = round(time.time() - t0, 2)

    # ---- judge
    status_count = {}
    reject_classes, crash_classes = {}, {}
    n_clean = 0
    for r in results:
        status_count[r["status"]] = status_count.get(r["status"], 0) + 1
        if r["status"] == "rejected":
            k = re.sub(r"^.*error: ", "", r["msg"])[:90]
            reject_classes[k] = reject_classes.get(k, 0) + 1
        elif r["status"] == "crash":
            k = r["msg"].split(":")[0] + ":" + r["msg"].split(":")[1] if ":" in r["msg"] else r["msg"]
            crash_classes.setdefault(k, [0, " ".join(r["argv"][5:])])[0] += 1
        elif r["status"] == "harness-error":
            rep.violation("C19:harness-error", r.get("msg", ""), dict(argv=r["argv"]), False)
    for r, m in zip(okrecs, reports):
        found = judge(r, m)
        sample = None
        if len(rep.samples) < 6:
            sample = dict(cmd="torchtree-cli " + " ".join(r["argv"][5:]), sub=r["argv"][0],
                          registry_operations=len(r["trace"]),
                          jacobian_terms=(m or {}).get("terms"), needs=(m or {}).get("needs"),
                          optional=(m or {}).get("optional"), findings=[f[0] for f in found])
        rep.case(dict(argv=r["argv"]), nontrivial=True, sample=sample)
        if not found:
            n_clean += 1
        for key, what, rp in found:
            rp["requests"] = r.get("requests", {})
            rep.violation(key, what, rp, True)
    for r in results:
        if r["status"] != "ok":
            rep.case(dict(argv=r["argv"]), nontrivial=False)
    if unreg:
        for t in unreg:
            rep.violation(f"C19:cli-literal-unregistered:{t}",
                          f"the CLI source stores \"type\": \"{t}\" but no class of that name is registered",
                          dict(type=t, where="torchtree/cli/*.py"), True)
    n_pairs = len(universe)
    rep.rule = ("option combinations of advi/map/mcmc/hmc built from %d factors (%s); quick = greedy pairwise "
                "covering set (re-covered over %d rounds for pairs that only occurred in rejected combinations) "
                "+ fixed probes; thorough = additionally the full enumeration sub-command x substitution model "
                "x clock x heights x tree prior with the other factors random; non-trivial = the CLI emitted "
                "a configuration; distinct = distinct argv" % (len(FACTORS), ", ".join(FNAMES), n_rounds))
    rep.exhaustive = (tier != "quick" and not replay)
    rep.extra = dict(
        input_distribution=dict(status=status_count, pairwise_pairs=n_pairs,
                                pairs_covered_by_accepted=len(covered_pairs & universe),
                                pairs_only_in_rejected=len([p for p in universe if p not in covered_pairs])),
        configurations_clean=n_clean,
        run_failures_numeric_not_reported=_count([r.get("numeric_run_failure") for r in okrecs]),
        cli_rejections_clear_error=reject_classes,
        cli_uncaught_exceptions_no_json_emitted={k: dict(count=v[0], example=v[1]) for k, v in
                                                 sorted(crash_classes.items())},
        traces_validated_against_impl=len([m for m in reports if m is not None]),
        model_undefined="classes / transforms / distributions outside the schema tables of M_config.v make "
                        "wf_config false (fail closed)",
        translator_units=["@register_class names + CLI type literals -> gen/G_cliclasses.v"],
        cli_type_literals_dynamic_sites=info.get("cli_dynamic_sites"),
    )
    return rep.finish()
