"""C02 — invariance to how the same tree and data are written down.
A canonical (unrooted or time) tree with data keyed by taxon NAME / clade is realised as two
equivalent JSON specifications; impl(A) vs impl(B), and each against the model of C01."""
import json
import math
import random
import time

from harness import common as C
from harness import impl, trees
from harness.props import c01

PID = "C02"


# ------------------------------------------------------------------ canonical object

def clades(t):
    """dict: subtree (nested tuple) -> frozenset of leaf labels, for all nodes"""
    out = {}

    def rec(u):
        s = frozenset([u]) if isinstance(u, int) else rec(u[0]) | rec(u[1])
        out[id(u)] = s
        return s
    rec(t)
    return out


def split_key(clade, n):
    rest = frozenset(range(n)) - clade
    return min((tuple(sorted(clade)), tuple(sorted(rest))))


def node_index_map(tree, taxa_order):
    """clade -> node index, mirroring Tree.index_tree on the tree renamed to taxon positions."""
    pos = {lab: p for p, lab in enumerate(taxa_order)}
    n = len(taxa_order)
    counter = [n]
    out = {}

    def rec(u):
        if isinstance(u, int):
            out[frozenset([u])] = pos[u]
            return frozenset([u])
        a = rec(u[0])
        b = rec(u[1])
        c = a | b
        out[c] = counter[0]
        counter[0] += 1
        return c
    rec(tree)
    return out


def gen_canonical(rng, tier):
    n = rng.choice([3, 4, 5, 6, 7] if tier == "quick" else [3, 4, 5, 6, 7, 8, 10])
    tree = trees.random_tree(rng, n, rng.choice(["random", "caterpillar", "balanced"]))
    kind = rng.choice(["unrooted", "unrooted", "strict"])
    can = dict(n=n, tree=tree, kind=kind, names=[f"tx{j}" for j in range(n)])
    base = c01.gen_case(rng, 10**9, tier, [])       # borrow model / site / alignment generators
    can["seqs"] = c01.gen_alignment(rng, n, rng.randint(3, 9))
    can["subst"], can["site"] = base["subst"], base["site"]
    if kind == "unrooted":
        can["edge"] = {}      # bipartition -> length
        cl = clades(tree)

        def rec(u, is_root):
            if not is_root:
                can["edge"].setdefault(split_key(cl[id(u)], n), math.exp(rng.uniform(-4, 0)))
            if not isinstance(u, int):
                rec(u[0], False)
                rec(u[1], False)
        rec(tree, True)
    else:
        dates = [0.0] * n if rng.random() < 0.5 else [float(rng.randint(0, 3)) for _ in range(n)]
        if min(dates) != 0.0:
            dates[rng.randrange(n)] = 0.0
        can["dates"] = dates
        can["ratio"] = {}     # clade -> ratio
        cl = clades(tree)

        def rec(u):
            if not isinstance(u, int):
                can["ratio"][cl[id(u)]] = rng.uniform(0.1, 0.9)
                rec(u[0]); rec(u[1])
        rec(tree)
        can["root_height"] = max(dates) + math.exp(rng.uniform(-2, 1))
        can["rate"] = [math.exp(rng.uniform(-4, -1))]
    return can


def realise(can, tree, taxa_order, seq_order, seqs, tip):
    """A concrete specification (the dict format c01.build understands)."""
    n = can["n"]
    idx = node_index_map(tree, taxa_order)
    case = dict(tree=tree, n=n, names=can["names"], taxa_order=list(taxa_order), seq_order=list(seq_order),
                seqs=list(seqs), subst=can["subst"], site=can["site"], tip=tip)
    if can["kind"] == "unrooted":
        bl = [None] * (2 * n - 3)
        for clade, j in idx.items():
            if j == 2 * n - 2:
                continue
            if j == 2 * n - 3:
                continue            # the code gives this root child length 0: the other carries the root edge
            bl[j] = can["edge"][split_key(clade, n)]
        case["treem"] = dict(kind="unrooted", bl=bl)
    else:
        ratios = [None] * (n - 2)
        for clade, j in idx.items():
            if n <= j < 2 * n - 2:
                ratios[j - n] = can["ratio"][clade]
        case["treem"] = dict(kind="strict", dates=can["dates"], ratios=ratios, root_height=can["root_height"],
                             rate=can["rate"])
    return case


def timetree_newick(can, tree, heights_by_clade):
    """the time tree of `can` written with branch lengths = parent height - child height, plus a small excess
    per branch (keyed by clade) so that the lengths are not exactly clock-consistent: the node heights the
    library derives (oldest path below each node) cannot depend on the order in which children are written"""
    names = can["names"]
    cl = clades(tree)
    rep = lambda x: repr(float(x))

    def rec(u, hpar):
        c = cl[id(u)]
        h = heights_by_clade[c]
        ln = "" if hpar is None else ":" + rep((hpar - h) * (1.0 + can["excess"].setdefault(c, 0.0)))
        if isinstance(u, int):
            return names[u] + ln
        return "(" + rec(u[0], h) + "," + rec(u[1], h) + ")" + ln
    return rec(tree, None) + ";"


def newick_with_lengths(can, tree, frac, trifurcate):
    """The unrooted tree of `can` as a newick string carrying its branch lengths, rooted as `tree`:
    the root edge is split frac : 1-frac between the two root children; with trifurcate the first
    internal root child is dissolved (the usual way an unrooted tree is written)."""
    n, names = can["n"], can["names"]
    cl = clades(tree)
    rep = lambda x: repr(float(x))

    def rec(u, length):
        if isinstance(u, int):
            return f"{names[u]}:{rep(length)}"
        return "(" + ",".join(rec(ch, can["edge"][split_key(cl[id(ch)], n)]) for ch in u) + f"):{rep(length)}"
    a, b = tree
    e = can["edge"][split_key(cl[id(a)], n)]
    if trifurcate:
        inner, other = (a, b) if not isinstance(a, int) else (b, a)
        if isinstance(inner, int):
            return None
        kids = [rec(ch, can["edge"][split_key(cl[id(ch)], n)]) for ch in inner]
        parts = kids + [rec(other, e)] if inner is a else [rec(other, e)] + kids
        return "(" + ",".join(parts) + ");"
    return "(" + rec(a, frac * e) + "," + rec(b, (1.0 - frac) * e) + ");"


# ------------------------------------------------------------------ rerooting an unrooted tree

def reroot(tree, rng):
    """Another rooted representation of the same unrooted tree: root on a random branch."""
    adj = {}
    counter = [0]

    def rec(u):
        if isinstance(u, int):
            return ("L", u)
        me = ("I", counter[0])
        counter[0] += 1
        for ch in u:
            c = rec(ch)
            adj.setdefault(me, []).append(c)
            adj.setdefault(c, []).append(me)
        return me
    root = rec(tree)
    a, b = adj[root]            # suppress the degree-2 root
    adj[a] = [x for x in adj[a] if x != root] + [b]
    adj[b] = [x for x in adj[b] if x != root] + [a]
    del adj[root]
    edges = sorted({tuple(sorted((u, v))) for u in adj for v in adj[u]})
    u, v = rng.choice(edges)

    def build(node, parent):
        if node[0] == "L":
            return node[1]
        kids = [build(x, node) for x in adj[node] if x != parent]
        assert len(kids) == 2
        return (kids[0], kids[1])
    return (build(u, v), build(v, u))


def shared_pattern_findings(rng, tier):
    """Several likelihoods in ONE document sharing the site pattern (and everything else) by id, each with its
    own treatment of the tips (ambiguity codes as sets / as missing / tip states): every one must return what it
    returns when it is alone in its document, whatever the order in which they are built."""
    impl.load()
    from torchtree.evolution.tree_likelihood import TreeLikelihoodModel
    found, nrun = [], 0
    for _ in range(4 if tier == "quick" else 16):
        can = gen_canonical(rng, tier)
        n = can["n"]
        ident = list(range(n))
        # make sure partial ambiguity codes are present
        seqs = [sq[:1] + rng.choice("RYMKSWBDHVN") + sq[2:] if len(sq) > 1 else rng.choice("RYMK") for sq in can["seqs"]]
        modes = ["partials_amb", "partials_noamb", "states"]
        rng.shuffle(modes)
        alone = {}
        for m in modes:
            try:
                alone[m] = float(c01.build(realise(can, can["tree"], ident, ident, seqs, m))().detach())
            except Exception as e:
                alone[m] = e
        dic = {}
        together = {}
        for k, m in enumerate(modes):
            d = c01.spec(realise(can, can["tree"], ident, ident, seqs, m))
            d["id"] = f"like{k}"
            if k > 0:
                for key in ("tree_model", "site_model", "substitution_model", "site_pattern", "branch_model"):
                    if key in d:
                        d[key] = d[key]["id"]
            try:
                together[m] = float(TreeLikelihoodModel.from_json(d, dic)().detach())
            except Exception as e:
                together[m] = e
        nrun += 1
        for m in modes:
            a, b = alone[m], together[m]
            bad = isinstance(a, Exception) != isinstance(b, Exception) or (
                not isinstance(a, Exception) and not (math.isfinite(a) and math.isfinite(b) and abs(a - b) <= 1e-9 * max(1.0, abs(a))))
            if bad:
                found.append((f"C02:shared-site-pattern:{m}",
                              f"three likelihoods sharing one site pattern, built in the order {modes}: the one with "
                              f"tips as {m} returns {b!r}, alone in its document it returns {a!r}",
                              dict(kind="shared-site-pattern", order=modes, seqs=seqs, can={k: v for k, v in can.items() if k != "edge"})))
    return found, nrun


def constructor_findings(rng, tier):
    """The same data handed over through the PUBLIC CONSTRUCTORS instead of a specification: the alignment is a list
    of named sequences that can be filled in any order, also after it has been created (append / extend / insert /
    reverse are list operations of the class).  Whatever the order in which the sequences end up stored, the
    likelihood is the one of the specification."""
    impl.load()
    from torchtree.core.utils import process_object
    from torchtree.evolution.alignment import Alignment, Sequence
    from torchtree.evolution.site_pattern import SitePattern
    from torchtree.evolution.tree_likelihood import TreeLikelihoodModel
    found, nrun = [], 0
    for _ in range(6 if tier == "quick" else 30):
        can = gen_canonical(rng, tier)
        n = can["n"]
        ident = list(range(n))
        for tip in ("partials_noamb", "states", "partials_amb"):
            case = realise(can, can["tree"], ident, ident, can["seqs"], tip)
            try:
                want = float(c01.build(case)().detach())
                d = c01.spec(case)
                dic = {}
                tree_model = process_object(d["tree_model"], dic)
                site_model = process_object(d["site_model"], dic)
                subst_model = process_object(d["substitution_model"], dic)
                clock = process_object(d["branch_model"], dic) if "branch_model" in d else None
                taxa = dic["taxa"]
                aln_spec = d["site_pattern"]["alignment"]
                seqs = [Sequence(q["taxon"], q["sequence"]) for q in aln_spec["sequences"]]
                order = seqs[:]
                rng.shuffle(order)
                how = rng.choice(["extend", "append", "insert-front", "reverse"])
                dt = process_object(aln_spec["datatype"], dic) if aln_spec["datatype"] != "nucleotide" else None
                if dt is None:
                    from torchtree.evolution.datatype import NucleotideDataType
                    dt = NucleotideDataType(None)
                aln = Alignment(None, [order[0]], taxa, dt)
                if how == "extend":
                    aln.extend(order[1:])
                elif how == "append":
                    for q in order[1:]:
                        aln.append(q)
                elif how == "insert-front":
                    for q in order[1:]:
                        aln.insert(0, q)
                else:
                    aln = Alignment(None, list(seqs), taxa, dt)
                    aln.reverse()
                like = TreeLikelihoodModel(None, SitePattern(None, aln), tree_model, subst_model, site_model, clock,
                                           use_ambiguities=(tip == "partials_amb"), use_tip_states=(tip == "states"))
                got = float(like().detach())
            except Exception as e:      # noqa
                found.append((f"C02:constructors:raises:{type(e).__name__}", f"{type(e).__name__}: {str(e)[:160]}",
                              dict(kind="constructors", tip=tip)))
                continue
            nrun += 1
            if not (math.isfinite(got) and abs(got - want) <= 1e-9 * max(1.0, abs(want))):
                found.append((f"C02:constructors:sequence-order:{tip}",
                              f"the alignment filled through {how} (stored order {[q.taxon for q in aln]}, taxa "
                              f"{[t.id for t in taxa]}): likelihood {got!r}, from the specification {want!r}",
                              dict(kind="constructors", how=how, tip=tip, stored=[q.taxon for q in aln],
                                   can={k: v for k, v in can.items() if k != "edge"})))
    return found, nrun


def newick_writing_findings(rng, tier):
    """Ways of WRITING the same tree in the newick string itself (lengths read from the string): a zero-length internal
    branch written out or collapsed into a multifurcation (below a bifurcating or a trifurcating root), and the rooting
    comments `[&U]` / `[&R]` that tree-writing programs put in front of the string.  Every writing denotes the same
    unrooted tree with the same lengths: one likelihood."""
    impl.load()
    from torchtree.core.utils import process_object
    found, nrun = {}, 0
    rep = lambda x: repr(float(x))
    usable, tries = 0, 0
    while usable < (6 if tier == "quick" else 40) and tries < 400:
        tries += 1
        can = gen_canonical(rng, tier)
        n, names = can["n"], can["names"]
        if n < 5 or can["kind"] != "unrooted":
            continue
        usable += 1
        tree = can["tree"]
        cl = clades(tree)
        # internal nodes below the root children (collapsing one of them makes a multifurcation BELOW the root)
        inner = []

        def walk(u, depth):
            if isinstance(u, int):
                return
            if depth >= 2:
                inner.append(id(u))
            for ch in u:
                walk(ch, depth + 1)
        walk(tree, 0)
        if not inner:
            continue
        zero = set(rng.sample(inner, k=min(len(inner), rng.choice([1, 1, 2]))))

        def rec(u, length, collapse):
            if isinstance(u, int):
                return [f"{names[u]}:{rep(length)}"]
            kids = []
            for ch in u:
                kids += rec(ch, can["edge"][split_key(cl[id(ch)], n)], collapse)
            if id(u) in zero:
                if collapse:
                    return kids                       # the children hang directly on the parent
                return ["(" + ",".join(kids) + "):0.0"]
            return ["(" + ",".join(kids) + f"):{rep(length)}"]

        def write(collapse, trifurcate, prefix):
            a, b = tree
            e = can["edge"][split_key(cl[id(a)], n)]
            if trifurcate:
                innr, other = (a, b) if not isinstance(a, int) else (b, a)
                if isinstance(innr, int):
                    return None
                parts = []
                for ch in innr:
                    parts += rec(ch, can["edge"][split_key(cl[id(ch)], n)], collapse)
                parts += rec(other, e, collapse)
            else:
                fr = 0.5
                parts = rec(a, fr * e, collapse) + rec(b, (1 - fr) * e, collapse)
            return prefix + "(" + ",".join(parts) + ");"
        writings = {"written-out": write(False, False, ""), "collapsed": write(True, False, ""),
                    "collapsed,trifurcating-root": write(True, True, ""), "[&U]": write(False, True, "[&U] "),
                    "[&U],bifurcating": write(False, False, "[&U] "), "[&R]": write(False, False, "[&R] "),
                    "[&U],collapsed": write(True, True, "[&U] ")}
        ident = list(range(n))
        case = realise(can, tree, ident, ident, can["seqs"], rng.choice(["partials_noamb", "states", "partials_amb"]))
        vals = {}
        for how, nw in writings.items():
            if nw is None:
                continue
            d = c01.spec(case)
            tm = d["tree_model"]
            if tm.get("type") != "UnRootedTreeModel":
                break
            tm = dict(tm)
            tm["newick"] = nw
            tm["keep_branch_lengths"] = True
            d["tree_model"] = tm
            try:
                dic = {}
                vals[how] = float(process_object(d, dic)().detach())
                nrun += 1
            except Exception as e:      # noqa
                k = f"C02:newick-writing:{how.split(',')[0]}:raises:{type(e).__name__}"
                found.setdefault(k, (k, f"{how}: {type(e).__name__}: {str(e)[:160]} [{nw[:200]}]",
                                     dict(kind="newick-writing", how=how, newick=nw, names=names)))
        if "written-out" in vals:
            want = vals["written-out"]
            for how, got in vals.items():
                if not (math.isfinite(got) and abs(got - want) <= 1e-9 * max(1.0, abs(want))):
                    k = f"C02:newick-writing:{how}"
                    found.setdefault(k, (k, f"the same tree written `{how}` has log-likelihood {got!r}, with its zero-length "
                                            f"branches written out {want!r}: {writings[how][:300]}",
                                         dict(kind="newick-writing", how=how, newick=writings[how],
                                              reference_newick=writings["written-out"], names=names,
                                              seqs=can["seqs"], value=got, reference=want)))
    return list(found.values()), nrun


def large_tree_rooting_findings(rng, tier):
    """Root placement on a tree large enough for a site likelihood to fall into the SUBNORMAL range of a double
    (between 4.9e-324 and 2.2e-308: the plain recursion neither overflows to -inf nor keeps its precision there): the
    same unrooted tree with its lengths written in the newick string, rooted on several branches, must give the same
    value (the pairs above use small trees, where no intermediate quantity leaves the normal range)."""
    found, nrun = [], 0
    n = 470 if tier == "quick" else 520
    import sys
    sys.setrecursionlimit(20000)
    tree = trees.random_tree(rng, n, "random")
    can = dict(n=n, tree=tree, kind="unrooted", names=[f"tx{j}" for j in range(n)],
               subst=dict(type="HKY", kappa=2.5, freqs=[0.15, 0.35, 0.3, 0.2]), site=dict(type="constant"))
    can["seqs"] = ["ACGT"[(j * j + j // 3) % 4] for j in range(n)]          # one column
    cl = clades(tree)
    splits = []

    def rec(u, is_root):
        if not is_root:
            splits.append(split_key(cl[id(u)], n))
        if not isinstance(u, int):
            rec(u[0], False)
            rec(u[1], False)
    rec(tree, True)
    ident = list(range(n))

    def value(tr_, x, frac=0.5):
        can["edge"] = {sp: x * (1.0 if k % 2 == 0 else 1.6) for k, sp in enumerate(dict.fromkeys(splits))}
        v = realise(can, tr_, ident, ident, can["seqs"], "partials_noamb")
        v["treem"] = dict(kind="unrooted", newick=newick_with_lengths(can, tr_, frac, False), bl=None)
        return float(c01.build(v)().detach())
    try:
        # place the branch scale so that the site log-likelihood is in the middle of the subnormal band
        # (with pseudo-random tip states the log-likelihood RISES with the branch scale up to saturation near
        #  n ln(1/4): short branches make the observed differences improbable)
        lo, hi = 0.01, 0.5
        target = -739.0          # a likelihood of about 1e-321: a handful of significant bits left in a subnormal
        for _ in range(30):
            mid = math.sqrt(lo * hi)
            f = value(tree, mid)
            if not math.isfinite(f) or f < target:
                lo = mid
            else:
                hi = mid
        x = math.sqrt(lo * hi)
        base = value(tree, x)
        if not (-744.0 < base < -730.0):
            return found, nrun          # the band could not be hit with this tree: nothing to compare
        vals = [("as generated", base)]
        for k in range(3):
            rt = reroot(tree, rng)
            vals.append((f"re-rooted #{k + 1}", value(rt, x, rng.choice([0.5, 0.2, 0.9]))))
        nrun = len(vals)
        for tag, v in vals[1:]:
            if not (math.isfinite(v) and abs(v - base) <= 1e-9 * abs(base)):
                found.append(("C02:reroot:subnormal-site-likelihood",
                              f"{n}-taxon tree, one column, site log-likelihood {base!r} (subnormal as a likelihood): the "
                              f"same tree {tag} gives {v!r}", dict(kind="large-tree-rooting", n=n, branch_scale=x,
                                                                   values=vals)))
                break
    except Exception as e:      # noqa
        found.append((f"C02:reroot:large-tree:raises:{type(e).__name__}", f"{type(e).__name__}: {str(e)[:160]}",
                      dict(kind="large-tree-rooting")))
    return found, nrun


def perm_indices(rng, L):
    """an `indices` string selecting every column exactly once, in another order: pieces a:b and single
    positions, written with positive or negative numbers (the last column as -1 in particular)"""
    cuts = sorted(set([0, L] + [rng.randrange(1, L) for _ in range(rng.randint(1, 3))] + ([L - 1] if rng.random() < 0.6 else [])))
    pieces = list(zip(cuts[:-1], cuts[1:]))
    rng.shuffle(pieces)
    items = []
    for a, b in pieces:
        if b - a == 1:
            items.append(str(a - L) if rng.random() < 0.6 else str(a))
        else:
            sa = "" if a == 0 and rng.random() < 0.5 else (str(a - L) if a > 0 and rng.random() < 0.3 else str(a))
            sb = "" if b == L else (str(b - L) if rng.random() < 0.5 else str(b))
            items.append(f"{sa}:{sb}")
    return ",".join(items)


def variants(can, rng):
    n = can["n"]
    ident = list(range(n))
    A = realise(can, can["tree"], ident, ident, can["seqs"], "partials_noamb")
    out = []
    L = len(can["seqs"][0])
    if L >= 2:
        # the columns selected in another order through the site pattern's `indices` (a permutation of all columns)
        B = realise(can, can["tree"], ident, ident, can["seqs"], "partials_noamb")
        B["indices"] = perm_indices(rng, L)
        out.append(("indices_permutation", B))
        # a selection (repeats allowed) through `indices` vs the selected columns written out
        sel = c01.gen_indices(rng, L)
        Bx = realise(can, can["tree"], ident, ident, can["seqs"], "partials_noamb")
        Bx["indices"] = sel
        Ax = realise(can, can["tree"], ident, ident, [c01.select_columns(sq, sel) for sq in can["seqs"]], "partials_noamb")
        out.append(("indices_vs_written_out", Bx, Ax))
    p = ident[:]; rng.shuffle(p)
    out.append(("perm_taxa", realise(can, can["tree"], p, ident, can["seqs"], "partials_noamb")))
    q = ident[:]; rng.shuffle(q)
    out.append(("perm_sequences", realise(can, can["tree"], ident, q, can["seqs"], "partials_noamb")))
    out.append(("swap_children", realise(can, trees.swap_children(rng, can["tree"], 0.7), ident, ident, can["seqs"],
                                         "partials_noamb")))
    cols = list(range(len(can["seqs"][0]))); rng.shuffle(cols)
    out.append(("perm_columns", realise(can, can["tree"], ident, ident, ["".join(s[c] for c in cols) for s in can["seqs"]],
                                        "partials_noamb")))
    out.append(("states_vs_partials", realise(can, can["tree"], ident, ident, can["seqs"], "states")))
    if can["kind"] == "strict" and n >= 3:
        # the same time tree written with (slightly inconsistent) branch lengths in the newick string, in two
        # child orders: keep_branch_lengths must give the same heights, hence the same likelihood
        try:
            mA = c01.build(A)
            nh = [float(x) for x in mA.tree_model.node_heights.detach()]
            idx = node_index_map(can["tree"], ident)
            hb = {clade: nh[j] for clade, j in idx.items()}
            can.setdefault("excess", {})
            for clade in hb:
                can["excess"].setdefault(clade, rng.choice([0.0, rng.uniform(0.0, 0.08)]))
            sw = trees.swap_children(rng, can["tree"], 1.0)
            va = realise(can, can["tree"], ident, ident, can["seqs"], "partials_noamb")
            vb = realise(can, sw, ident, ident, can["seqs"], "partials_noamb")
            va["treem"] = dict(va["treem"], newick=timetree_newick(can, can["tree"], hb))
            vb["treem"] = dict(vb["treem"], newick=timetree_newick(can, sw, hb))
            out.append(("timetree_newick_swap", vb, va))
        except Exception:
            pass
    if can["kind"] == "unrooted" and n >= 3:
        rt = reroot(can["tree"], rng)
        p2 = ident[:]; rng.shuffle(p2)
        out.append(("reroot", realise(can, rt, p2, ident, can["seqs"], "partials_noamb")))
        # ... and with the lengths written in the newick string, for the original and the re-rooted form,
        # the root edge split anywhere between the two root children, or the root written as a trifurcation
        for tag, tr_ in (("newick_lengths", can["tree"]), ("newick_lengths_reroot", reroot(can["tree"], rng))):
            v = realise(can, tr_, ident, ident, can["seqs"], "partials_noamb")
            tri = rng.random() < 0.3
            nwk = newick_with_lengths(can, tr_, rng.choice([0.5, rng.uniform(0.05, 0.95)]), tri)
            if nwk is None:
                nwk = newick_with_lengths(can, tr_, 0.5, False)
            v["treem"] = dict(kind="unrooted", newick=nwk, bl=None)
            out.append((tag, v))
    return A, out


def with_matrix_exp(case):
    """The same specification evaluated with the transition matrices taken from torch.matrix_exp of the model's own
    normalised rate matrix instead of its eigendecomposition (used ONLY to attribute a disagreement between two
    writings: if both writings give the same number this way, what differs is the accuracy of the transition matrices
    the model computes, not what the writings denote)."""
    import types
    torch = impl.load()
    m = c01.build(case)
    sm = m.subst_model if hasattr(m, "subst_model") else m._subst_model

    def p_t(self, bl):
        Q = self.q()
        Q = Q / self.norm(Q).unsqueeze(-1).unsqueeze(-1)
        return torch.matrix_exp(Q.unsqueeze(-3).unsqueeze(-3) * bl.unsqueeze(-1).unsqueeze(-1))
    sm.p_t = types.MethodType(p_t, sm)
    return float(m().detach())


def run(tier, seed, replay=None):
    rep = C.Report(PID, tier, seed)
    rep.trusted = C.COMMON_TRUSTED + [
        "models and trusted base of C01 (M_like.v, M_like_data.v, M_data.v, Tree.v, T1 translator, oracle matrices)",
        "re-rooting: C02_reroot_any_branch (any number of root moves); that these moves generate every rooting of an "
        "unrooted tree is argued informally; root moves are additionally decided by pairs on the implementation",
        "generator of equivalent specifications (harness/props/c02.py: data keyed by taxon name / clade / bipartition)"]
    rng = random.Random(seed)
    npairs = 45 if tier == "quick" else 400
    c01.sync()
    pairs = []
    if replay:
        r = json.load(open(replay))["replay"]
        for k in ("A", "B"):
            r[k]["tree"] = c01._tuplify(r[k]["tree"])
        pairs = [(r["kind"], r["A"], r["B"])]
    else:
        for _ in range(npairs):
            can = gen_canonical(rng, tier)
            A, vs = variants(can, rng)
            for item in vs:
                if len(item) == 3:          # a pair of its own (both members differ from A)
                    pairs.append((item[0], item[2], item[1]))
                else:
                    pairs.append((item[0], A, item[1]))
    t0 = time.time()
    cache = {}

    def ev(case):
        k = json.dumps(case, sort_keys=True, default=str)
        if k not in cache:
            try:
                cache[k] = c01.run_impl(case)
            except Exception as e:
                cache[k] = e
        return cache[k]
    results = [(kind, A, B, ev(A), ev(B)) for kind, A, B in pairs]
    rep.timings["impl"] = round(time.time() - t0, 2)

    def search():
        found = {}
        for kind, A, B, oa, ob in results:
            for tag, c, o in (("A", A, oa), ("B", B, ob)):
                if isinstance(o, Exception):
                    k = f"C02:raises:{kind}:{type(o).__name__}"
                    found.setdefault(k, (k, f"{type(o).__name__}: {str(o)[:200]}", dict(kind=kind, A=A, B=B)))
            if isinstance(oa, Exception) or isinstance(ob, Exception):
                continue
            va, vb = oa["value"], ob["value"]
            if not (math.isfinite(va) and math.isfinite(vb)) or abs(va - vb) > 1e-9 * max(1.0, abs(va)):
                k = f"C02:{kind}:{A['treem']['kind']}"
                what = f"equivalent specifications ({kind}) give {va!r} and {vb!r}"
                extra = {}
                if math.isfinite(va) and math.isfinite(vb) and abs(va - vb) <= 1e-5 * max(1.0, abs(va)) \
                        and A.get("subst", {}).get("type") in ("GTR", "HKY"):
                    # a small disagreement: is it the writings, or the accuracy of the transition matrices?
                    try:
                        ea, eb = with_matrix_exp(A), with_matrix_exp(B)
                        if abs(ea - eb) <= 1e-11 * max(1.0, abs(ea)):
                            k = "C02:transition-matrix-accuracy:eigendecomposition"
                            what = (f"equivalent specifications ({kind}) give {va!r} and {vb!r}; with the transition "
                                    f"matrices taken from torch.matrix_exp of the model's own normalised rate matrix both "
                                    f"give {ea!r}: the eigendecomposition route of SymmetricSubstitutionModel.p_t is "
                                    f"accurate to {abs(va - ea) / abs(ea):.1e} / {abs(vb - ea) / abs(ea):.1e} relative "
                                    f"here (frequencies {A['subst'].get('freqs')})")
                            extra = dict(value_with_matrix_exp=ea)
                    except Exception:  # noqa
                        pass
                found.setdefault(k, (k, what, dict(kind=kind, A=A, B=B, value_A=va, value_B=vb, **extra)))
        return list(found.values())[:6]

    C.handle_proof(rep, PID, search)
    for f in search():
        rep.violation(*f)
    shared_fs, n_shared = ([], 0) if replay else shared_pattern_findings(rng, tier)
    for f in shared_fs[:3]:
        rep.violation(*f)
    big_fs, n_big = ([], 0) if replay else large_tree_rooting_findings(rng, tier)
    for f in big_fs:
        rep.violation(*f)
    nw_fs, n_nw = ([], 0) if replay else newick_writing_findings(rng, tier)
    for f in nw_fs[:4]:
        rep.violation(*f)
    cons_fs, n_cons = ([], 0) if replay else constructor_findings(rng, tier)
    seen_c = set()
    for f in cons_fs:
        if f[0] not in seen_c:
            seen_c.add(f[0])
            rep.violation(*f)

    # each specification against the model (the theorems give model(A) = model(B))
    t0 = time.time()
    uniq = {}
    for kind, A, B, oa, ob in results:
        for c, o in ((A, oa), (B, ob)):
            # (specifications with the lengths in the newick string are decided by the pair only: their
            #  node numbering is dendropy's, not the one the model is told about)
            if not isinstance(o, Exception) and not c["treem"].get("newick"):
                uniq.setdefault(json.dumps(c, sort_keys=True, default=str), (c, o))
    keys = list(uniq)
    exprs = [c01.coq_case(*uniq[k]) for k in keys]
    res = C.run_cases(PID, c01.HEADER, exprs, shard=max(2, len(exprs) // 32 + 1))
    rep.timings["model_eval"] = round(time.time() - t0, 2)
    model = {k: C.ival_to_fracs(v) for k, v in zip(keys, res)}
    dist = {}
    for kind, A, B, oa, ob in results:
        dist[kind] = dist.get(kind, 0) + 1
        ok = not isinstance(oa, Exception) and not isinstance(ob, Exception)
        rep.case(dict(kind=kind, A=A, B=B), nontrivial=A["n"] >= 3,
                 sample=dict(kind=kind, newick_A=trees.newick(A["tree"], A["names"]),
                             newick_B=trees.newick(B["tree"], B["names"]), taxa_order_B=B["taxa_order"],
                             value_A=oa["value"] if ok else None, value_B=ob["value"] if ok else None))
        if not ok:
            continue
        for tag, c, o in (("A", A, oa), ("B", B, ob)):
            if c["treem"].get("newick"):
                continue
            iv = model[json.dumps(c, sort_keys=True, default=str)]
            if iv is None or not c01.rel_close(o["value"], *iv):
                fs = search()
                for f in fs:
                    rep.violation(*f)
                if not fs:
                    rep.violation(f"C02:model-impl-differ:{kind}", f"spec {tag} ({kind}): impl {o['value']!r} vs model "
                                  f"{None if iv is None else float(iv[0])!r}", dict(kind=kind, A=A, B=B,
                                  broken="correspondence loglik_nuc vs TreeLikelihoodModel()"), False)
    rep.rule = ("canonical trees (3..7 / 3..10 taxa) with data keyed by taxon name, clade or bipartition, realised as "
                "pairs of equivalent JSON specifications: permuted taxa list, permuted sequence list, swapped children, "
                "permuted columns, tip states vs tip partials (ambiguous = missing), root moved to a random branch with "
                "the taxa permuted as well (unrooted, reversible models), the same unrooted tree with its lengths written in "
                "the newick string (keep_branch_lengths; root edge split anywhere, trifurcating root, re-rooted), columns selected in another order / written out through `indices`, three likelihoods sharing one site pattern in one document vs each alone; non-trivial = >= 3 taxa; distinct = distinct pair")
    rep.extra = dict(input_distribution=dist, traces_validated_against_impl=len(keys), pairs=len(results),
                     documents_with_three_likelihoods_sharing_one_site_pattern=n_shared,
                     likelihoods_built_with_the_public_constructors=n_cons,
                     likelihoods_of_trees_written_in_other_ways_in_the_newick_string=n_nw,
                     rootings_of_a_large_tree_in_the_subnormal_band=n_big)
    return rep.finish()
