"""C01 — tree log-likelihood = exact marginalisation.  M_like.v interval run vs TreeLikelihoodModel."""
import itertools
import json
import math
import os
import random
import time
from fractions import Fraction

from harness import common as C
from harness import history as H
from harness import impl, trees
from harness.translate import t1_datatype, t8_prune

PID = "C01"
HEADER = ("From Coq Require Import QArith ZArith List. Import ListNotations.\n"
          "From TT Require Import Num NumI Tree M_like M_data M_like_data.\n")
ALPHABET = "ACGTUKMRSWYBDHVN?-"
AA_ALPHABET = "ACDEFGHIKLMNPQRSTVWYBZX*?-"


def sync():
    try:
        txt = t1_datatype.translate()
    except t1_datatype.TranslateError as e:
        return False, f"T1 translator: {e}"
    try:
        txt8 = t8_prune.translate()
    except t8_prune.TranslateError as e:
        return False, f"T8 translator (pruning loop of tree_likelihood.py): {e}"
    with C.CoqLock():
        C.write_if_changed(os.path.join(C.COQ, "gen", "G_datatype.v"), txt)
        C.write_if_changed(os.path.join(C.COQ, "gen", "G_prune.v"), txt8)
    return True, txt


# ----------------------------------------------------------------------------- generation

def gen_alignment(rng, n, nsites):
    cols = []
    base = rng.choice(["clean", "ambiguous", "gappy"])
    for _ in range(nsites):
        if cols and rng.random() < 0.3:
            cols.append(rng.choice(cols))       # forced repeated column
            continue
        col = []
        anc = rng.choice("ACGT")
        for _ in range(n):
            r = rng.random()
            if base == "clean" or r < 0.6:
                ch = anc if rng.random() < 0.6 else rng.choice("ACGT")
            elif r < 0.9:
                ch = rng.choice(ALPHABET)
            else:
                ch = rng.choice(ALPHABET).lower()
            col.append(ch)
        cols.append(col)
    return ["".join(c[i] for c in cols) for i in range(n)]


def simplex(rng, k, skew=False):
    x = [rng.gammavariate(0.3 if skew else 2.0, 1.0) + 1e-3 for _ in range(k)]
    s = sum(x)
    return [v / s for v in x]


def gen_case(rng, i, tier, pool):
    if i < len(pool):
        t = trees.swap_children(rng, pool[i])
        n = trees.n_leaves(t)
    else:
        n = rng.choice([3, 4, 5, 6, 7, 8] if tier == "quick" else [3, 4, 5, 6, 8, 10, 12])
        t = trees.random_tree(rng, n, rng.choice(["random", "random", "caterpillar", "balanced"]))
    names = [f"tx{j}" for j in range(n)]
    taxa_order = list(range(n))
    rng.shuffle(taxa_order)                      # taxa list order != leaf labels order
    seq_order = list(range(n))
    rng.shuffle(seq_order)                       # sequence list order differs again
    seqs = gen_alignment(rng, n, rng.randint(2, 10))
    subst = rng.choice(["JC69", "HKY", "GTR"])
    sp = dict(type=subst)
    if subst != "JC69":
        sp["freqs"] = simplex(rng, 4, rng.random() < 0.3)
        if subst == "HKY":
            sp["kappa"] = math.exp(rng.uniform(-2, 3))
        else:
            sp["rates"] = [math.exp(rng.uniform(-3, 3)) for _ in range(6)]
    site = rng.choice(["constant", "invariant", "weibull", "weibull+inv", "constant+mu"])
    sm = dict(type=site)
    if "weibull" in site:
        sm["K"] = rng.randint(2, 4)
        sm["shape"] = math.exp(rng.uniform(-2, 2))
    if "inv" in site:
        sm["pinv"] = rng.uniform(0.01, 0.8)
    if site == "constant+mu":
        sm["mu"] = math.exp(rng.uniform(-1, 1))
    treekind = rng.choice(["unrooted", "unrooted", "strict", "simple"])
    tr = dict(kind=treekind)
    if treekind == "unrooted":
        tr["bl"] = [math.exp(rng.uniform(-5, 0.5)) for _ in range(2 * n - 3)]
        if rng.random() < 0.25:      # some very short branches (1e-7 .. 1e-5; see DESIGN for what happens below 1e-8)
            for j in rng.sample(range(2 * n - 3), rng.randint(1, max(1, n - 2))):
                tr["bl"][j] = 10 ** rng.uniform(-7, -5)
    else:
        dates = [0.0] * n if rng.random() < 0.5 else [float(rng.randint(0, 3)) for _ in range(n)]
        if min(dates) != 0.0:
            dates[rng.randrange(n)] = 0.0
        tr["dates"] = dates                        # by taxon label index
        tr["ratios"] = [rng.uniform(0.1, 0.9) for _ in range(n - 2)]
        tr["root_height"] = max(dates) + math.exp(rng.uniform(-2, 1))
        if treekind == "strict":
            tr["rate"] = [math.exp(rng.uniform(-4, -1))]
        else:
            tr["rate"] = [math.exp(rng.uniform(-4, -1)) for _ in range(2 * n - 2)]
    if treekind == "unrooted" and n >= 3 and rng.random() < 0.3:
        # the same tree written with its lengths in the newick string (keep_branch_lengths), the root edge split
        tr["newick"] = newick_with_lengths(t, names, tr["bl"], rng.choice([0.5, rng.uniform(0.05, 0.95)]), taxa_order)
    tip = rng.choice(["partials_amb", "partials_noamb", "states"])
    case = dict(tree=t, n=n, names=names, taxa_order=taxa_order, seq_order=seq_order, seqs=seqs,
                subst=sp, site=sm, treem=tr, tip=tip)
    if rng.random() < 0.3:
        # the site pattern selects columns of a longer alignment (`indices`: positions and slices, repeats count)
        L = rng.randint(4, 12)
        case["seqs"] = gen_alignment(rng, n, L)
        if rng.random() < 0.5:      # make some selected columns equal: a pattern met in two ranges must add up
            col = rng.randrange(L)
            case["seqs"] = [sq[:-1] + sq[col] for sq in case["seqs"]]
        case["indices"] = gen_indices(rng, L)
    if n <= 5 and rng.random() < (0.04 if tier == "quick" else 0.12):
        # amino-acid alignment with an empirical model (20 states): few, they are expensive
        case["subst"] = dict(type=rng.choice(["LG", "WAG"]))
        case.pop("indices", None)
        nsites = rng.randint(2, 4)
        case["seqs"] = ["".join(rng.choice(AA_ALPHABET if rng.random() < 0.25 else AA_ALPHABET[:20])
                                for _ in range(nsites)) for _ in range(n)]
        if sm["type"].startswith("weibull"):
            sm["K"] = 2
    return case


def gen_indices(rng, L):
    """A column selection in the syntax of SitePattern's `indices` option: comma separated single positions
    (negative ones count from the end) and slices start:stop:step with optional parts.  At least one column."""
    for _ in range(50):
        items = []
        for _k in range(rng.randint(1, 4)):
            kind = rng.random()
            if kind < 0.3:
                items.append(str(rng.choice([-1, -1, -L, 0, L - 1, rng.randrange(-L, L)])))
            elif kind < 0.55:
                step = rng.choice([2, 3])
                items.append(f"{rng.choice(['', str(rng.randrange(0, step))])}::{step}")      # codon positions
            else:
                a = rng.choice(["", str(rng.randrange(-L, L))])
                b = rng.choice(["", str(rng.randrange(-L, L + 1))])
                c = rng.choice(["", "", "2"])
                items.append(f"{a}:{b}" + (f":{c}" if c else ""))
        txt = ",".join(items)
        if 1 <= len(select_columns("x" * L, txt)) <= 14:
            return txt
    return "0"


def select_columns(seq, indices):
    """the columns of one sequence selected by an `indices` string (own parser, python indexing semantics);
    columns selected several times count several times"""
    if not indices:
        return seq
    out = ""
    for item in indices.split(","):
        parts = item.split(":")
        if len(parts) == 1:
            out += seq[int(parts[0])]
        else:
            a = int(parts[0]) if parts[0] != "" else None
            b = int(parts[1]) if len(parts) > 1 and parts[1] != "" else None
            c = int(parts[2]) if len(parts) > 2 and parts[2] != "" else None
            out += seq[slice(a, b, c)]
    return out


def used_seqs(case):
    """the alignment the likelihood is about: the sequences restricted to the selected columns"""
    return [select_columns(sq, case.get("indices")) for sq in case["seqs"]]


# ----------------------------------------------------------------------------- implementation

def build(case):
    impl.load()
    from torchtree.evolution.tree_likelihood import TreeLikelihoodModel
    return H.tracked(TreeLikelihoodModel, spec(case))


def spec(case):
    """the JSON specification of the TreeLikelihoodModel of a case"""
    n, names = case["n"], case["names"]
    to = case["taxa_order"]
    tr = case["treem"]
    dates = tr.get("dates", [0.0] * n)
    taxa = {"id": "taxa", "type": "Taxa", "taxa": [
        {"id": names[j], "type": "Taxon", "attributes": {"date": dates[j]}} for j in to]}
    nwk = trees.newick(case["tree"], names)
    if tr["kind"] == "unrooted" and tr.get("newick"):
        # the same tree written down with its lengths in the newick string (keep_branch_lengths)
        tree = {"id": "tree", "type": "UnRootedTreeModel", "newick": tr["newick"], "taxa": taxa,
                "keep_branch_lengths": True,
                "branch_lengths": impl.param_json("bl", [0.5] * (2 * n - 3))}
    elif tr["kind"] == "unrooted":
        tree = {"id": "tree", "type": "UnRootedTreeModel", "newick": nwk, "taxa": taxa,
                "branch_lengths": impl.param_json("bl", tr["bl"])}
    elif tr["kind"] != "unrooted" and tr.get("newick"):
        # a time tree written with its branch lengths in the newick string (keep_branch_lengths)
        tree = {"id": "tree", "type": "ReparameterizedTimeTreeModel", "newick": tr["newick"], "taxa": taxa,
                "keep_branch_lengths": True,
                "ratios": impl.param_json("ratios", [0.5] * (n - 2)),
                "root_height": impl.param_json("root_height", [max(dates) + 1.0])}
    elif tr.get("plain_heights") is not None:
        # the same time tree held by a plain TimeTreeModel (internal heights are the parameter)
        tree = {"id": "tree", "type": "TimeTreeModel", "newick": nwk, "taxa": taxa,
                "internal_heights": impl.param_json("heights", tr["plain_heights"])}
    else:
        tree = {"id": "tree", "type": "ReparameterizedTimeTreeModel", "newick": nwk, "taxa": taxa,
                "ratios": impl.param_json("ratios", tr["ratios"]),
                "root_height": impl.param_json("root_height", [tr["root_height"]])}
    sp = case["subst"]
    if sp["type"] in ("LG", "WAG"):
        subst = {"id": "m", "type": "torchtree.evolution.substitution_model.amino_acid." + sp["type"]}
    elif sp["type"] == "JC69":
        subst = {"id": "m", "type": "JC69"}
    elif sp["type"] == "HKY":
        subst = {"id": "m", "type": "HKY", "kappa": impl.param_json("kappa", [sp["kappa"]]),
                 "frequencies": impl.param_json("freqs", sp["freqs"])}
    else:
        subst = {"id": "m", "type": "GTR", "rates": impl.param_json("rates", sp["rates"]),
                 "frequencies": impl.param_json("freqs", sp["freqs"])}
    sm = case["site"]
    if sm["type"].startswith("weibull"):
        site = {"id": "sm", "type": "WeibullSiteModel", "categories": sm["K"],
                "shape": impl.param_json("shape", [sm["shape"]])}
    elif sm["type"] == "invariant":
        site = {"id": "sm", "type": "InvariantSiteModel"}
    else:
        site = {"id": "sm", "type": "ConstantSiteModel"}
    if "pinv" in sm:
        site["invariant"] = impl.param_json("pinv", [sm["pinv"]])
    if "mu" in sm:
        site["mu"] = impl.param_json("mu", [sm["mu"]])
    aln = {"id": "aln", "type": "Alignment",
           "datatype": {"id": "dt", "type": "AminoAcidDataType"} if sp["type"] in ("LG", "WAG") else "nucleotide",
           "taxa": "taxa",
           "sequences": [{"taxon": names[j], "sequence": case["seqs"][j]} for j in case["seq_order"]]}
    d = {"id": "like", "type": "TreeLikelihoodModel", "tree_model": tree, "site_model": site,
         "substitution_model": subst, "site_pattern": {"id": "sp", "type": "SitePattern", "alignment": aln}}
    if case.get("indices"):
        d["site_pattern"]["indices"] = case["indices"]
    if tr["kind"] != "unrooted":
        d["branch_model"] = {"id": "clock", "type": "StrictClockModel" if tr["kind"] == "strict" else "SimpleClockModel",
                             "tree_model": "tree", "rate": impl.param_json("rate", tr["rate"])}
    if case["tip"] == "partials_amb":
        d["use_ambiguities"] = True
    elif case["tip"] == "states":
        d["use_tip_states"] = True
    return d


def newick_with_lengths(tree, names, bl, frac, taxa_order):
    """the unrooted tree of the case with its lengths written in the newick string: node j carries bl[j];
    the root edge bl[other] is split frac : 1 - frac between the two root children"""
    n = len(names)
    it = trees.index_tree(tree)
    rep = lambda x: repr(float(x))
    ix = lambda u: taxa_order.index(u) if isinstance(u, int) else u[0]     # leaves are indexed by taxon position

    def rec(u, length):
        if isinstance(u, int):
            return f"{names[u]}:{rep(length)}"
        return "(" + rec(u[1], bl[ix(u[1])]) + "," + rec(u[2], bl[ix(u[2])]) + f"):{rep(length)}"
    a, b = it[1], it[2]
    ia, ib = ix(a), ix(b)
    e = bl[ia] if ia < 2 * n - 3 else bl[ib]       # the child with the last index has no entry: the other carries the edge
    return "(" + rec(a, frac * e if ia < ib else (1 - frac) * e) + "," + rec(b, (1 - frac) * e if ia < ib else frac * e) + ");"


def ref_site_model(sm):
    """category rates and proportions from the definition (median-quantile discretised Weibull, optional invariant
    category, optional relative rate mu), written independently of the implementation -> (rates, props)"""
    mu = sm.get("mu", 1.0)
    pinv = sm.get("pinv")
    if sm["type"].startswith("weibull"):
        K, shape = sm["K"], sm["shape"]
        q = [(-math.log(1.0 - (2 * k + 1) / (2.0 * K))) ** (1.0 / shape) for k in range(K)]
        if pinv is None:
            mean = math.fsum(q) / K
            return [mu * x / mean for x in q], [1.0 / K] * K
        mean = math.fsum(q) * (1.0 - pinv) / K
        return [0.0] + [mu * x / mean for x in q], [pinv] + [(1.0 - pinv) / K] * K
    if sm["type"] == "invariant":
        return [0.0, mu / (1.0 - pinv)], [pinv, 1.0 - pinv]
    return [mu], [1.0]


def ref_rate_matrix(sp):
    """normalised nucleotide rate matrix from the definition (states A C G T)"""
    if sp["type"] == "JC69":
        pi, ex = [0.25] * 4, {}
    else:
        pi = sp["freqs"]
        if sp["type"] == "HKY":
            k = sp["kappa"]
            ex = {(0, 1): 1.0, (0, 2): k, (0, 3): 1.0, (1, 2): 1.0, (1, 3): k, (2, 3): 1.0}
        else:
            r = sp["rates"]
            ex = {(0, 1): r[0], (0, 2): r[1], (0, 3): r[2], (1, 2): r[3], (1, 3): r[4], (2, 3): r[5]}
    Q = [[0.0] * 4 for _ in range(4)]
    for i in range(4):
        for j in range(4):
            if i != j:
                Q[i][j] = ex.get((min(i, j), max(i, j)), 1.0) * pi[j]
        Q[i][i] = -math.fsum(Q[i])
    norm = -math.fsum(pi[i] * Q[i][i] for i in range(4))
    return [[v / norm for v in row] for row in Q]


def ref_expm(Q, t):
    """exp(Q t) by scaling and squaring of a Taylor series, every entry to relative round-off (the off-diagonal entries
    of a tiny t included: no subtraction of nearly equal numbers happens for them)"""
    n = len(Q)
    s = 0
    nrm = max(abs(Q[i][i]) for i in range(n)) * t
    while nrm / (2 ** s) > 0.25:
        s += 1
    A = [[Q[i][j] * t / (2 ** s) for j in range(n)] for i in range(n)]
    I = [[1.0 if i == j else 0.0 for j in range(n)] for i in range(n)]
    mul = lambda X, Y: [[math.fsum(X[i][k] * Y[k][j] for k in range(n)) for j in range(n)] for i in range(n)]
    # E = exp(A) - I, accumulated without the identity so that small off-diagonal entries keep their relative accuracy
    term, E = [row[:] for row in A], [row[:] for row in A]
    for m in range(2, 26):
        term = [[v / m for v in row] for row in mul(term, A)]
        E = [[E[i][j] + term[i][j] for j in range(n)] for i in range(n)]
    for _ in range(s):      # (I + E)^2 - I = 2E + E^2
        E2 = mul(E, E)
        E = [[2 * E[i][j] + E2[i][j] for j in range(n)] for i in range(n)]
    return [[(1.0 if i == j else 0.0) + E[i][j] for j in range(n)] for i in range(n)]


def oracle_tables_check(case, rates, props, lengths, mats):
    """The tables the model is fed with are read from the implementation's public API (that they are right is C04 / C05);
    they are nevertheless compared with the definitions here: category rates / proportions of the site model in closed
    form (relative 1e-9), and every entry of every transition matrix with an independent exp(Q t r_k), to relative 1e-9
    plus an absolute floor set ten times above the round-off the unchanged code shows (the eigendecomposition route
    has absolute, not relative, accuracy on tiny entries: measured <= 2.2e-14; the Jukes-Cantor closed form <= 1e-15)."""
    sm, sp = case["site"], case["subst"]
    wr, wp = ref_site_model(sm)
    close = lambda a, b, rt: abs(a - b) <= rt * max(abs(a), abs(b)) + 1e-300
    if len(wr) != len(rates) or not all(close(a, b, 1e-9) for a, b in zip(rates, wr)) or \
            not all(close(a, b, 1e-9) for a, b in zip(props, wp)):
        raise ValueError(f"site model: rates {rates} / proportions {props} but the definition gives {wr} / {wp}")
    if sp["type"] in ("LG", "WAG"):
        return
    Q = ref_rate_matrix(sp)
    floor = 1e-14 if sp["type"] == "JC69" else 2e-13
    for k, rk in enumerate(rates):
        for j, t in enumerate(lengths[:len(mats[k])]):
            if t * rk <= 0.0:
                continue
            R = ref_expm(Q, t * rk)
            M = mats[k][j]
            for a in range(4):
                for b in range(4):
                    if abs(M[a][b] - R[a][b]) > 1e-9 * abs(R[a][b]) + floor:
                        raise ValueError(f"transition probabilities of branch {j} (length x rate = {t * rk!r}): entry "
                                         f"({a},{b}) is {M[a][b]!r} but exp(Q t) has {R[a][b]!r}")


def run_impl(case):
    torch = impl.load()
    like = build(case)
    value = float(like().detach())
    n = case["n"]
    bl = like.tree_model.branch_lengths().detach()
    if case["treem"].get("newick") and case["treem"].get("bl") is not None:
        want = case["treem"]["bl"]
        got = [float(x) for x in bl]
        if len(got) != len(want) or any(abs(g - w) > 1e-12 * max(1.0, abs(w)) for g, w in zip(got, want)):
            raise ValueError(f"keep_branch_lengths: branch_lengths() = {got} but the newick string says {want}")
    if like.clock_model is None:
        lengths = [float(x) for x in bl] + [0.0]
    else:
        lengths = [float(x) for x in (like.clock_model.rates.detach() * bl)]
    rates = [float(x) for x in like.site_model.rates().detach().reshape(-1)]
    props = [float(x) for x in like.site_model.probabilities().detach().reshape(-1)]
    freqs = [float(x) for x in like.subst_model.frequencies.detach().reshape(-1)]
    mats = []
    S = len(freqs)
    for rk in rates:
        per_node = []
        for j in range(2 * n - 1):
            if j < len(lengths):
                tt = torch.tensor([lengths[j]]) * torch.tensor(rk)
                P = like.subst_model.p_t(tt).detach().reshape(S, S)
                per_node.append([[float(v) for v in row] for row in P])
            else:
                per_node.append([[1.0 if a == b else 0.0 for b in range(S)] for a in range(S)])
        mats.append(per_node)
    oracle_tables_check(case, rates, props, lengths, mats)
    return dict(value=value, freqs=freqs, props=props, mats=mats, rates=rates, lengths=lengths)


def coq_case(case, out):
    n = case["n"]
    I = lambda v: f"ofQ NumI {C.qlit(v)}"
    mats = C.coq_list(out["mats"], lambda per: C.coq_list(per, lambda M: C.coq_list(M, lambda row: C.coq_list(row, I))))
    tip = {"partials_amb": "(TipPartials true)", "partials_noamb": "(TipPartials false)", "states": "TipStates"}[case["tip"]]
    taxa = C.coq_list(case["taxa_order"], C.natlit)
    sel = used_seqs(case)
    seqs = C.coq_list(case["seq_order"], lambda j: f"({C.natlit(j)}, {C.coq_list([ord(ch) for ch in sel[j]], C.natlit)})")
    fn = "loglik_aa" if case["subst"]["type"] in ("LG", "WAG") else "loglik_nuc"
    return (f"show_i ({fn} NumI {tip} {taxa} {seqs} {trees.coq_tree(case['tree'])} "
            f"{C.coq_list(out['freqs'], I)} {mats} {C.coq_list(out['props'], I)})")


# ----------------------------------------------------------------------------- property on impl

SETS = {"A": [0], "C": [1], "G": [2], "T": [3], "U": [3], "R": [0, 2], "Y": [1, 3], "M": [0, 1], "W": [0, 3],
        "S": [1, 2], "K": [2, 3], "B": [1, 2, 3], "D": [0, 2, 3], "H": [0, 1, 3], "V": [0, 1, 2]}


def tip_set(ch, mode):
    s = SETS.get(ch.upper(), [0, 1, 2, 3])
    if mode != "partials_amb" and len(s) > 1:
        return [0, 1, 2, 3]          # ambiguous symbols treated as missing
    return s


def brute_force(case, out):
    """Explicit sum over all assignments of states to internal nodes (floats), n <= 6."""
    n = case["n"]
    it = trees.index_tree(case["tree"])  # leaves = name index j; need taxon position
    pos = {j: p for p, j in enumerate(case["taxa_order"])}

    def relabel(u):
        return pos[u] if isinstance(u, int) else (u[0], relabel(u[1]), relabel(u[2]))
    it = relabel(it)
    internals = []

    def collect(u):
        if not isinstance(u, int):
            collect(u[1]); collect(u[2]); internals.append(u[0])
    collect(it)
    edges = trees.edges(it)
    sel = used_seqs(case)
    seq_by_pos = {pos[j]: sel[j] for j in range(n)}
    total = 0.0
    nsites = len(sel[0])
    for site in range(nsites):
        lik = 0.0
        for k, pk in enumerate(out["props"]):
            M = out["mats"][k]
            for assign in itertools.product(range(4), repeat=len(internals)):
                st = dict(zip(internals, assign))
                w = out["freqs"][st[internals[-1]]]
                for p, c in edges:
                    if c < n:
                        w *= sum(M[c][st[p]][x] for x in tip_set(seq_by_pos[c][site], case["tip"]))
                    else:
                        w *= M[c][st[p]][st[c]]
                    if w == 0.0:
                        break
                lik += pk * w
        total += math.log(lik) if lik > 0 else float("-inf")
    return total


def rel_close(x, lo, hi, rtol=1e-9):
    fx = Fraction(x)
    # relative, with the absolute floor of a sum of logarithms of numbers near one (a log-likelihood of -1e-15 — every
    # column missing or every branch of length ~0 — is known to a few units of round-off, not to 1e-9 of itself)
    tol = Fraction(rtol) * max(abs(lo), abs(hi), Fraction(1, 10**4))
    return lo - tol <= fx <= hi + tol


def run(tier, seed, replay=None):
    rep = C.Report(PID, tier, seed)
    rep.trusted = C.COMMON_TRUSTED + [
        "hand-written models M_like.v / M_like_data.v / M_data.v + Tree.v (tied by interval-run correspondence "
        "at the value returned by a TreeLikelihoodModel built from JSON)",
        "translator T1 (datatype tables regenerated; partial/encoding method sources pinned)",
        "transition matrices, frequencies, category rates/probabilities are oracle tables read from the "
        "implementation's public API (subst_model.p_t on scalars, site_model.rates/probabilities, "
        "tree_model.branch_lengths, clock rates): that P = exp(Qt) is C04, that rates are normalised is C05",
        "modelled not verified: torch matmul/log rounding (relative 1e-9), dendropy Newick parsing",
        "Paramcoq output and Interval correctness lemmas are kernel-checked"]
    rng = random.Random(seed)
    pool = []
    for n in ((3, 4) if tier == "quick" else (3, 4, 5, 6)):
        pool += list(trees.all_trees(range(n)))
    if tier == "thorough":
        rng.shuffle(pool)
    ncases = len(pool) + (70 if tier == "quick" else 400)
    cases = [gen_case(rng, i, tier, pool) for i in range(ncases)]
    if replay:
        c = json.load(open(replay))["replay"]["case"]
        c["tree"] = _tuplify(c["tree"])
        cases = [c]
    t0 = time.time()
    outs = []
    for c in cases:
        try:
            outs.append(run_impl(c))
        except Exception as e:
            outs.append(e)
    rep.timings["impl"] = round(time.time() - t0, 2)

    def key_of(c):
        return f"{c['subst']['type']}/{c['site']['type']}/{c['treem']['kind']}/{c['tip']}"

    def search(limit=40):
        found = {}
        tried = 0
        for c, o in zip(cases, outs):
            if isinstance(o, Exception):
                f = (f"C01:raises:{key_of(c)}:{type(o).__name__}", f"{type(o).__name__}: {str(o)[:200]}", dict(case=c))
                found.setdefault(f[0], f)
                continue
            if c["n"] > 5 or tried >= limit or c["subst"]["type"] in ("LG", "WAG"):
                continue
            tried += 1
            ref = brute_force(c, o)
            if not (math.isfinite(ref) and abs(o["value"] - ref) <= 1e-9 * max(1.0, abs(ref))):
                f = (f"C01:not-marginal:{key_of(c)}",
                     f"TreeLikelihoodModel() = {o['value']!r} but explicit marginalisation over all ancestral "
                     f"states gives {ref!r}", dict(case=c, impl=o["value"], marginalisation=ref))
                found.setdefault(f[0], f)
        return list(found.values())[:4]

    ok_sync, info = sync()
    if not ok_sync:
        rep.proof = dict(obligations=1, discharged=0, axioms={}, theorems=["T1 translation"], ok=False)
        fs = search()
        for f in fs:
            rep.violation(*f)
        if not fs:
            rep.violation("C01:translator-failed", info[:300], dict(error=info), False)
    else:
        C.handle_proof(rep, PID, search)
    for c, o in zip(cases, outs):       # exceptions are violations in their own right
        if isinstance(o, Exception):
            rep.violation(f"C01:raises:{key_of(c)}:{type(o).__name__}", f"{type(o).__name__}: {str(o)[:200]}", dict(case=c))

    t0 = time.time()
    idx = [i for i, o in enumerate(outs) if not isinstance(o, Exception)]
    exprs = [coq_case(cases[i], outs[i]) for i in idx]
    res = C.run_cases(PID, HEADER, exprs, shard=max(2, len(exprs) // 32 + 1))
    rep.timings["model_eval"] = round(time.time() - t0, 2)
    dist, undefined, mism = {}, 0, []
    for i, flat in zip(idx, res):
        c, o = cases[i], outs[i]
        dist[key_of(c)] = dist.get(key_of(c), 0) + 1
        rep.case(dict(c=c), nontrivial=c["n"] >= 3,
                 sample=dict(newick=trees.newick(c["tree"], c["names"]), taxa_order=c["taxa_order"], seqs=c["seqs"],
                             config=key_of(c), impl_value=o["value"]))
        iv = C.ival_to_fracs(flat)
        if iv is None:
            undefined += 1
            if math.isfinite(o["value"]):
                mism.append((c, o, "model undefined (site likelihood not positive) but implementation finite"))
            continue
        if not (math.isfinite(o["value"]) and rel_close(o["value"], *iv)):
            mism.append((c, o, f"impl {o['value']!r} vs model [{float(iv[0])!r}, {float(iv[1])!r}]"))
    if mism:
        fs = search(limit=10**9)
        for f in fs:
            rep.violation(*f)
        if not fs:
            c, o, what = mism[0]
            rep.violation(f"C01:model-impl-differ:{key_of(c)}", what,
                          dict(case=c, broken="correspondence M_like(loglik_nuc) vs TreeLikelihoodModel()"), False)
    # ---- same-object histories: evaluate, assign parameters, evaluate again == freshly built object
    t0 = time.time()
    nh, hist_found = 0, {}
    hrng = random.Random(seed + 17)
    ok_cases = [c for c, o in zip(cases, outs) if not isinstance(o, Exception)]
    hrng.shuffle(ok_cases)
    for c in ok_cases[:(60 if tier == "quick" else 400)]:
        variants = [c]
        if c["treem"]["kind"] != "unrooted":
            try:     # the same tree as a plain TimeTreeModel
                hts = [float(x) for x in build(c).tree_model.node_heights.detach()[c["n"]:]]
                variants.append(dict(c, treem=dict(c["treem"], plain_heights=hts)))
            except Exception:
                pass
        for v in variants:
            try:
                like = build(v)
            except Exception:
                continue
            reads = [("branch_lengths", lambda o: o.tree_model.branch_lengths()),
                     ("site_rates", lambda o: o.site_model.rates()), ("q", lambda o: o.subst_model.q()),
                     ("node_heights", lambda o: getattr(o.tree_model, "node_heights", None)),
                     ("site_probs", lambda o: o.site_model.probabilities())]
            # (with keep_branch_lengths a rebuilt object takes its lengths from the newick string again)
            fs = H.run(like, lambda o: float(o().detach()), hrng, reads=reads, steps=2,
                       frozen=("bl",) if v["treem"].get("newick") else ())
            nh += 1
            tk = "TimeTreeModel" if v["treem"].get("plain_heights") is not None else v["treem"]["kind"]
            for f in fs:
                k = f"C01:history:{tk}:{'+'.join(sorted(set(x.split('.')[0] for x in f['assigned'])))}"
                hist_found.setdefault(k, (k, f"after the history {f['history']} the same TreeLikelihoodModel returns "
                                             f"{f['on_same_object']} but a freshly built one returns {f['fresh_object']}",
                                          dict(case=v, history=f)))
    for f in hist_found.values():
        rep.violation(*f)
    rep.timings["histories"] = round(time.time() - t0, 2)
    # ---- large trees: the plain recursion underflows, the evaluation that detects it and the following
    #      ones take other code paths; repeated columns (pattern weight 2); reference = interval run
    t0 = time.time()
    from harness.props import c03
    torch = impl.load()
    big, nbig = [], (560 if tier == "quick" else 640)
    brng = random.Random(seed + 29)
    for shape, sub, x in (("random", dict(type="HKY", kappa=2.5, freqs=[0.15, 0.35, 0.3, 0.2]), 1.2),
                          ("caterpillar", dict(type="JC69"), 1.0)):
        try:
            tb = c03.make_tree(shape, nbig, brng)
            lkb, _ = c03.build(shape, nbig, tb, sub, x)
            vals = [float(lkb().detach()), float(lkb().detach())]
            if not lkb.rescale:      # the case is only worth something if the plain recursion underflowed
                rep.violation("C01:large-tree-did-not-underflow", f"{shape} tree with {nbig} taxa at branch scale {x}: "
                              f"the plain recursion did not underflow, the case does not exercise the other code paths",
                              dict(shape=shape, n=nbig, x=x), False)
            Ms = [lkb.subst_model.p_t(torch.tensor([x * f])).detach().reshape(4, 4).tolist() for f in (1.0, 1.75)]
            fr = [float(v) for v in lkb.subst_model.frequencies.detach().reshape(-1)]
            big.append((shape, sub, x, tb, vals, c03.coq_case(shape, nbig, tb, Ms, fr)))
        except Exception as e:  # noqa
            rep.violation(f"C01:raises:large-tree:{type(e).__name__}", f"{shape} tree with {nbig} taxa: "
                          f"{type(e).__name__}: {str(e)[:160]}", dict(shape=shape, n=nbig, subst=sub, x=x))
    if big:
        resb = C.run_cases(PID + "big", c03.HEADER, [b[5] for b in big], shard=1, timeout=1500)
        for (shape, sub, x, tb, vals, _), flat in zip(big, resb):
            iv = C.ival_to_fracs(flat)
            for k, v in enumerate(vals):
                rep.case(dict(big=shape, k=k), nontrivial=True)
                if iv is None or not (math.isfinite(v) and rel_close(v, *iv)):
                    rep.violation(f"C01:not-marginal:large-tree:{'first' if k == 0 else 'later'}-evaluation",
                                  f"{shape} tree, {nbig} taxa, {sub['type']}, 3 columns (one repeated): evaluation {k + 1} "
                                  f"returns {v!r}, the marginalisation (interval run of the proved model) gives "
                                  f"{None if iv is None else float(iv[0])!r}",
                                  dict(shape=shape, n=nbig, subst=sub, branch_scale=x, evaluation=k + 1, value=v))
    # ... and trees on which it does NOT underflow to zero but only into the subnormal range (a few significant bits left)
    try:
        band_fs, n_band = c03.band_findings(random.Random(seed + 31), tier, "C01")
    except Exception as e:  # noqa
        band_fs, n_band = [(f"C01:raises:subnormal-band:{type(e).__name__}", f"{type(e).__name__}: {str(e)[:160]}", dict())], 0
    for f in band_fs:
        rep.violation(*f)
    rep.timings["large_trees"] = round(time.time() - t0, 2)
    rep.rule = ("all rooted binary topologies for 3..4 (quick) / 3..6 (thorough) taxa with random child order + random/"
                "caterpillar/balanced trees to 8 (12) taxa; alignments over the 18-symbol alphabet (both cases) with "
                "forced repeated columns; taxa list and sequence list independently permuted; {JC69,HKY,GTR} x "
                "{constant,+mu,invariant,Weibull(K),Weibull(K)+inv} x {unrooted, time tree + strict/simple clock} x "
                "{tip partials with/without ambiguities, tip states}; + same-object histories (evaluate, assign 1-2 parameters, "
                "read cached intermediates in random order, evaluate) against freshly built objects, time trees also as "
                "plain TimeTreeModel; two trees with 560 / 640 taxa on which the plain recursion underflows (first and second "
                "evaluation); non-trivial = >= 3 taxa; distinct = distinct case")
    rep.extra = dict(input_distribution=dist, model_undefined=undefined, exhaustive_topologies=len(pool),
                     traces_validated_against_impl=len(idx), mismatches=len(mism), histories=nh,
                     trees_with_site_likelihoods_in_the_subnormal_band=n_band,
                     translator_units=["datatype tables -> gen/G_datatype.v",
                                       "pruning loop update + returned expression (tip partials, tip states) -> gen/G_prune.v"])
    return rep.finish()


def _tuplify(t):
    return t if isinstance(t, int) else (_tuplify(t[0]), _tuplify(t[1]))
