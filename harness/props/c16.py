"""C16 — the leapfrog integrator is reversible and volume preserving; Hastings term = K0 - K1.

Model model/M_leapfrog.v run exactly (NumQ) against HMCOperator.step() / LeapfrogIntegrator.__call__:
positions written into the parameters (every one of them), returned momentum, returned Hastings term.
Gaussian targets: the gradient is part of the model (linear, exact).  Other targets (gamma via
transforms, small phylogenetic posteriors): the gradient enters the model as an oracle table recorded
per call from the implementation and validated against autograd on a freshly built model.
The geometric identities (forward-flip-forward, unit Jacobian determinant, second-order energy error,
conserved shadow energy for Gaussian targets) are also evaluated directly on the implementation."""
import json
import math
import random
import sys
import time
from fractions import Fraction

from harness import common as C
from harness import impl

from harness.translate import t9_leapfrog

PID = "C16"


def sync():
    """gen/G_leapfrog.v: the arithmetic of LeapfrogIntegrator.__call__ regenerated from the source (T9)"""
    import os
    try:
        txt = t9_leapfrog.translate()
    except t9_leapfrog.TranslateError as e:
        return False, f"T9 translator (LeapfrogIntegrator.__call__): {e}"
    with C.CoqLock():
        C.write_if_changed(os.path.join(C.COQ, "gen", "G_leapfrog.v"), txt)
    return True, txt

# exact dyadic mantissas after 30 steps have more than 4300 decimal digits (python's default parsing limit)
sys.set_int_max_str_digits(0)
HEADER = ("From Coq Require Import QArith ZArith List. Import ListNotations.\n"
          "From TT Require Import Num M_leapfrog M_lf_oracle.\n")


# ----------------------------------------------------------------------------- generators

def logu(rng, lo, hi):
    return math.exp(rng.uniform(math.log(lo), math.log(hi)))


def rand_spd(rng, n, lo, hi):
    """Random symmetric positive definite matrix with eigenvalues log-uniform in [lo, hi]."""
    d = [logu(rng, lo, hi) for _ in range(n)]
    M = [[d[i] if i == j else 0.0 for j in range(n)] for i in range(n)]
    for _ in range(2 if n > 1 else 0):
        v = [rng.gauss(0, 1) for _ in range(n)]
        nv = math.sqrt(sum(x * x for x in v))
        v = [x / nv for x in v]
        HM = [[M[i][j] - 2 * v[i] * sum(v[k] * M[k][j] for k in range(n)) for j in range(n)] for i in range(n)]
        M = [[HM[i][j] - 2 * sum(HM[i][k] * v[k] for k in range(n)) * v[j] for j in range(n)] for i in range(n)]
    return [[(M[i][j] + M[j][i]) / 2 for j in range(n)] for i in range(n)]


def split_dims(rng, n):
    k = min(n, rng.choice([1, 2, 2, 3]))
    cuts = sorted(rng.sample(range(1, n), k - 1)) if k > 1 else []
    return [b - a for a, b in zip([0] + cuts, cuts + [n])]


def gen_mass(rng, n):
    kind = rng.choice(["diag", "dense"])
    if kind == "diag":
        return kind, [logu(rng, 0.1, 10.0) for _ in range(n)]
    return kind, rand_spd(rng, n, 0.2, 5.0)


NEWICKS = {
    3: ["(t0:{},t1:{},t2:{});"],
    4: ["((t0:{},t1:{}):{},t2:{},t3:{});"],
    5: ["(((t0:{},t1:{}):{},t2:{}):{},t3:{},t4:{});", "((t0:{},t1:{}):{},(t2:{},t3:{}):{},t4:{});"],
}


def gen_case(rng, i, tier):
    kind = ["mvn", "normal", "gamma", "phylo", "mvn", "gamma", "mvn", "normal"][i % 8]
    eps = logu(rng, 1e-3, 0.5)
    L = rng.choice([1, 2, 3, 5, 8, 13, 21, 30]) if rng.random() < 0.7 else rng.randint(1, 30)
    case = dict(kind=kind, eps=eps, L=L, draw_seed=rng.randrange(2 ** 31))
    if kind == "phylo":
        nt = rng.choice([3, 3, 4, 5])
        model = rng.choice(["JC69", "HKY"]) if nt <= 3 else rng.choice(["JC69", "JC69", "HKYk"]) if nt == 4 else "JC69"
        nb = 2 * nt - 3
        ns = rng.randint(12, 30)
        root = [rng.choice("ACGT") for _ in range(ns)]
        seqs = ["".join(c if rng.random() > 0.25 else rng.choice("ACGT") for c in root) for _ in range(nt)]
        nwk = rng.choice(NEWICKS[nt]).format(*["0.1"] * nb)
        sizes = [nb] + ([1, 3] if model == "HKY" else [1] if model == "HKYk" else [])
        q0 = [math.log(logu(rng, 0.01, 0.5)) for _ in range(nb)]
        if model in ("HKY", "HKYk"):
            q0 += [rng.gauss(1.0, 0.5)]
        if model == "HKY":
            q0 += [rng.gauss(0.0, 0.3) for _ in range(3)]
        # HKY with fixed frequencies; piR = piY makes the kappa-gradient NaN at many positions (a defect of
        # the substitution model, outside this property): kept in a few cases because it exercises
        # HMCOperator's restore-and-retry path with real failures
        freqs = [0.3, 0.2, 0.2, 0.3] if rng.random() < 0.4 else [0.35, 0.15, 0.2, 0.3]
        case.update(target=dict(ntaxa=nt, model=model, newick=nwk, seqs=seqs, freqs=freqs), sizes=sizes, q0=q0)
        case["L"] = min(L, 12 if tier == "quick" else 30)
        case["eps"] = min(eps, 0.2)
    else:
        n = rng.randint(1, 8)
        sizes = split_dims(rng, n)
        if kind == "mvn":
            par = rng.choice(["precision_matrix", "covariance_matrix"])
            mat = rand_spd(rng, n, 0.1, 10.0)
            loc = [rng.uniform(-2, 2) for _ in range(n)]
            perm = list(range(len(sizes)))
            rng.shuffle(perm)           # order of the parameter blocks inside the distribution's x
            case.update(target=dict(param=par, mat=mat, loc=loc, perm=perm))
            q0 = [rng.uniform(-3, 3) for _ in range(n)]
        elif kind == "normal":
            loc = [rng.uniform(-2, 2) for _ in range(n)]
            scale = ([rng.choice([0.25, 0.5, 1.0, 2.0, 4.0]) for _ in range(n)] if rng.random() < 0.5
                     else [logu(rng, 0.2, 5.0) for _ in range(n)])
            case.update(target=dict(loc=loc, scale=scale, how=rng.choice(["one", "per-parameter"])))
            q0 = [rng.uniform(-3, 3) for _ in range(n)]
        else:  # gamma on exp(z), one density per parameter block
            shape = [logu(rng, 0.5, 8.0) for _ in range(n)]
            rate = [logu(rng, 0.3, 5.0) for _ in range(n)]
            case.update(target=dict(shape=shape, rate=rate))
            q0 = [rng.uniform(-1.5, 1.5) for _ in range(n)]
        case.update(sizes=sizes, q0=q0)
    n = sum(case["sizes"])
    mk, mass = gen_mass(rng, n)
    case.update(n=n, mass_kind=mk, mass=mass, mass_update=rng.random() < 0.3)
    return case


# ----------------------------------------------------------------------------- building the objects

def blocks(vec, sizes):
    out, s = [], 0
    for k in sizes:
        out.append(list(vec[s:s + k]))
        s += k
    return out


def spec_of(case, q=None, with_operator=True):
    """JSON specification (list of objects, as torchtree's command line tools write them)."""
    sizes, n = case["sizes"], case["n"]
    q = case["q0"] if q is None else q
    qb = blocks(q, sizes)
    t = case["target"]
    spec = []
    kind = case["kind"]
    if kind in ("mvn", "normal"):
        pids = [f"x{i}" for i in range(len(sizes))]
        spec += [impl.param_json(pid, b) for pid, b in zip(pids, qb)]
        if kind == "mvn":
            xs = [pids[j] for j in t["perm"]]
            spec.append({"id": "joint", "type": "JointDistributionModel", "distributions": [
                {"id": "mvn", "type": "MultivariateNormal", "x": xs if len(xs) > 1 else xs[0],
                 "parameters": {"loc": impl.param_json("mvn.loc", t["loc"]),
                                t["param"]: impl.param_json("mvn.mat", t["mat"])}}]})
        else:
            lb, sb = blocks(t["loc"], sizes), blocks(t["scale"], sizes)
            if t["how"] == "one":
                ds = [{"id": "norm", "type": "Distribution", "distribution": "torch.distributions.Normal",
                       "x": pids if len(pids) > 1 else pids[0],
                       "parameters": {"loc": impl.param_json("norm.loc", t["loc"]),
                                      "scale": impl.param_json("norm.scale", t["scale"])}}]
            else:
                ds = [{"id": f"norm{i}", "type": "Distribution", "distribution": "torch.distributions.Normal",
                       "x": pids[i], "parameters": {"loc": impl.param_json(f"norm{i}.loc", lb[i]),
                                                    "scale": impl.param_json(f"norm{i}.scale", sb[i])}}
                      for i in range(len(pids))]
            spec.append({"id": "joint", "type": "JointDistributionModel", "distributions": ds})
        joint = "joint"
    elif kind == "gamma_raw":
        # a positive parameter sampled WITHOUT a transform: a trajectory that leaves the support fails
        # numerically and the operator tries again with a new momentum
        pids = [f"x{i}" for i in range(len(sizes))]
        ab, rb = blocks(t["shape"], sizes), blocks(t["rate"], sizes)
        spec.append({"id": "joint", "type": "JointDistributionModel", "distributions": [
            {"id": f"gamma{i}", "type": "Distribution", "distribution": "torch.distributions.Gamma",
             "x": impl.param_json(pid, qb[i]),
             "parameters": {"concentration": impl.param_json(f"gamma{i}.shape", ab[i]),
                            "rate": impl.param_json(f"gamma{i}.rate", rb[i])}} for i, pid in enumerate(pids)]})
        joint = "joint"
    elif kind == "gamma":
        pids = [f"z{i}" for i in range(len(sizes))]
        ab, rb = blocks(t["shape"], sizes), blocks(t["rate"], sizes)
        ds = []
        for i, pid in enumerate(pids):
            ds.append({"id": f"gamma{i}", "type": "Distribution", "distribution": "torch.distributions.Gamma",
                       "x": {"id": f"x{i}", "type": "TransformedParameter",
                             "transform": "torch.distributions.ExpTransform", "x": impl.param_json(pid, qb[i])},
                       "parameters": {"concentration": impl.param_json(f"gamma{i}.shape", ab[i]),
                                      "rate": impl.param_json(f"gamma{i}.rate", rb[i])}})
        spec.append({"id": "joint", "type": "JointDistributionModel", "distributions": ds})
        spec.append({"id": "joint.jacobian", "type": "JointDistributionModel",
                     "distributions": ["joint"] + [f"x{i}" for i in range(len(pids))]})
        joint = "joint.jacobian"
    else:  # phylo, laid out as `torchtree-cli hmc` does
        nt = t["ntaxa"]
        names = [f"t{i}" for i in range(nt)]
        spec.append({"id": "taxa", "type": "Taxa", "taxa": [{"id": nm, "type": "Taxon"} for nm in names]})
        spec.append({"id": "alignment", "type": "Alignment",
                     "datatype": {"id": "data_type", "type": "NucleotideDataType"}, "taxa": "taxa",
                     "sequences": [{"taxon": nm, "sequence": s} for nm, s in zip(names, t["seqs"])]})
        pids = ["tree.blens.unres"]
        if t["model"] == "JC69":
            subst = {"id": "substmodel", "type": "JC69"}
        else:
            pids.append("substmodel.kappa.unres")
            if t["model"] == "HKY":
                pids.append("substmodel.frequencies.unres")
                freqs = {"id": "substmodel.frequencies", "type": "TransformedParameter",
                         "transform": "torch.distributions.StickBreakingTransform",
                         "x": impl.param_json("substmodel.frequencies.unres", qb[2])}
            else:
                freqs = impl.param_json("substmodel.frequencies", t["freqs"])
            subst = {"id": "substmodel", "type": "HKY",
                     "kappa": {"id": "substmodel.kappa", "type": "TransformedParameter",
                               "transform": "torch.distributions.ExpTransform",
                               "x": impl.param_json("substmodel.kappa.unres", qb[1])},
                     "frequencies": freqs}
        like = {"id": "like", "type": "TreeLikelihoodModel",
                "tree_model": {"id": "tree", "type": "UnRootedTreeModel", "newick": t["newick"], "taxa": "taxa",
                               "branch_lengths": {"id": "tree.blens", "type": "TransformedParameter",
                                                  "transform": "torch.distributions.ExpTransform",
                                                  "x": impl.param_json("tree.blens.unres", qb[0])}},
                "site_model": {"id": "sitemodel", "type": "ConstantSiteModel"},
                "substitution_model": subst,
                "site_pattern": {"id": "patterns", "type": "SitePattern", "alignment": "alignment"}}
        priors = [{"id": "tree.blens.prior", "type": "Distribution",
                   "distribution": "torch.distributions.Exponential", "x": "tree.blens",
                   "parameters": {"rate": 10.0}}]
        jac = ["joint", "tree.blens"]
        if t["model"] != "JC69":
            priors.append({"id": "substmodel.kappa.prior", "type": "Distribution",
                           "distribution": "torch.distributions.LogNormal", "x": "substmodel.kappa",
                           "parameters": {"loc": 1.0, "scale": 1.25}})
            jac.append("substmodel.kappa")
        if t["model"] == "HKY":
            priors.append({"id": "substmodel.frequencies.prior", "type": "Distribution",
                           "distribution": "torch.distributions.Dirichlet", "x": "substmodel.frequencies",
                           "parameters": {"concentration": [1.0, 1.0, 1.0, 1.0]}})
            jac.append("substmodel.frequencies")
        spec.append({"id": "joint", "type": "JointDistributionModel", "distributions": [
            like, {"id": "prior", "type": "JointDistributionModel", "distributions": priors}]})
        spec.append({"id": "joint.jacobian", "type": "JointDistributionModel", "distributions": jac})
        joint = "joint.jacobian"
    if with_operator:
        if case["mass_update"]:       # as cli/hmc.py writes it; the real matrix is assigned afterwards
            mm = {"id": "hmc.mass.matrix", "type": "Parameter"}
            mm["ones" if case["mass_kind"] == "diag" else "eye"] = n
        else:
            mm = impl.param_json("hmc.mass.matrix", case["mass"])
        spec.append({"id": "hmc.operator", "type": "HMCOperator", "joint": joint,
                     "parameters": pids if len(pids) > 1 else pids[0], "weight": 1.0,
                     "integrator": {"id": "hmc.leapfrog", "type": "LeapfrogIntegrator",
                                    "steps": case["L"], "step_size": case["eps"]},
                     "mass_matrix": mm, "adaptors": []})
    return spec, pids, joint


class Built:
    pass


def build(case, q=None, with_operator=True):
    torch = impl.load()
    from torchtree.core.utils import process_objects
    spec, pids, joint = spec_of(case, q, with_operator)
    dic = {}
    for el in json.loads(json.dumps(spec)):
        process_objects(el, dic)
    b = Built()
    b.dic, b.params, b.joint = dic, [dic[p] for p in pids], dic[joint]
    if with_operator:
        b.op = dic["hmc.operator"]
        if case["mass_update"]:
            dic["hmc.mass.matrix"].tensor = torch.tensor(case["mass"])
    return b


class Recorder:
    """Parameter listener: every tensor object written into the operator's parameters, in order."""

    def __init__(self, params):
        self.params = params
        self.events = []
        for i, p in enumerate(params):
            p.add_parameter_listener(_L(self, i))

    def rounds(self):
        """Group the events into rounds of one assignment per parameter; merge the rounds that only
        toggled requires_grad on the same tensor objects."""
        k = len(self.params)
        ev = self.events
        if len(ev) % k or any(ev[j][0] != j % k for j in range(len(ev))):
            raise RuntimeError("parameters were not written block by block")
        out = []
        for r in range(len(ev) // k):
            ts = [ev[r * k + i][1] for i in range(k)]
            if out and all(a is b for a, b in zip(out[-1], ts)):
                continue
            out.append(ts)
        return out


class _L:
    def __init__(self, rec, i):
        self.rec, self.i = rec, i

    def handle_parameter_changed(self, variable, index, event):
        self.rec.events.append((self.i, variable.tensor))


def flat(ts):
    return [float(v) for t in ts for v in t.detach().reshape(-1)]


def set_params(b, q, sizes):
    torch = impl.load()
    for p, blk in zip(b.params, blocks(q, sizes)):
        p.tensor = torch.tensor(blk)


def run_step(case):
    """HMCOperator.step() on a freshly built operator.  Returns everything observable."""
    torch = impl.load()
    b = build(case)
    op = b.op
    rec = Recorder(b.params)
    draws, kin = [], []
    ham = op._hamiltonian
    orig_sample, orig_kin = ham.sample_momentum, ham.kinetic_energy

    def sample(mass_matrix):
        m = orig_sample(mass_matrix)
        draws.append((len(rec.events), [float(v) for v in m]))
        return m

    def kinetic(momentum, inverse_mass_matrix):
        k = orig_kin(momentum, inverse_mass_matrix)
        kin.append(([float(v) for v in momentum.detach()], float(k)))
        return k

    ham.sample_momentum, ham.kinetic_energy = sample, kinetic
    if case.get("fail_first"):
        # a target whose first `fail_first` evaluations by the INTEGRATOR (the ones made with gradients enabled) are
        # NaN: exactly that many trials of the step end in the documented numerical failure, the next one is ordinary
        joint = ham.joint
        orig_call = joint._call
        left = [int(case["fail_first"])]

        def failing(*a, **kw):
            v = orig_call(*a, **kw)
            if torch.is_grad_enabled() and left[0] > 0:
                left[0] -= 1
                return v * float("nan")
            return v
        joint._call = failing
    torch.manual_seed(case["draw_seed"])
    minv = op.inverse_mass_matrix.detach().clone()
    ret = op.step()
    out = dict(ret=float(ret), q1=flat([p.tensor for p in b.params]),
               requires_grad=[bool(p.requires_grad) for p in b.params],
               minv=minv.tolist(), mass=op.mass_matrix.detach().tolist(), draws=len(draws),
               eps=float(op._integrator.step_size), L=int(op._integrator.steps))
    # rounds of the last trial only (earlier trials ended in a ValueError and a restore)
    rec2 = Recorder.__new__(Recorder)
    rec2.params, rec2.events = b.params, rec.events[draws[-1][0]:]
    rounds = rec2.rounds()
    failed = math.isinf(out["ret"])
    out["failed"] = failed
    out["p0"] = draws[-1][1]
    if not failed:
        # rounds: L+1 gradient evaluations (the trailing requires_grad toggles are merged)
        trace, table = [], []
        for ts in rounds:
            if any(t.grad is None for t in ts):
                raise RuntimeError("a position written into the parameters has no gradient")
            pos = flat(ts)
            dU = [-float(v) for t in ts for v in t.grad.reshape(-1)]
            trace.append(pos)
            table.append((pos, dU))
        out["trace"], out["table"] = trace, table
        # kinetic_energy is called with the drawn momentum, then with the returned momentum
        out["p1"] = kin[-1][0]
        out["K0"], out["K1"] = kin[-2][1], kin[-1][1]
        out["p0_kin"] = kin[-2][0]
    return out


def fresh_gradients(case, positions):
    """dU = -grad(log joint) by autograd on a freshly built model, at the recorded positions."""
    torch = impl.load()
    b = build(case, with_operator=False)
    out = []
    for pos in positions:
        ts = [torch.tensor(blk, requires_grad=True) for blk in blocks(pos, case["sizes"])]
        for p, t in zip(b.params, ts):
            p.tensor = t
        lp = b.joint()
        gs = torch.autograd.grad(lp, ts)
        out.append([-float(v) for g in gs for v in g])
    return out


# ----------------------------------------------------------------------------- exact helpers

def F(x):
    return Fraction(x)


def mat_inv_exact(M):
    n = len(M)
    A = [[F(M[i][j]) for j in range(n)] + [F(int(i == j)) for j in range(n)] for i in range(n)]
    for c in range(n):
        piv = next(r for r in range(c, n) if A[r][c] != 0)
        A[c], A[piv] = A[piv], A[c]
        d = A[c][c]
        A[c] = [v / d for v in A[c]]
        for r in range(n):
            if r != c and A[r][c] != 0:
                f = A[r][c]
                A[r] = [a - f * b for a, b in zip(A[r], A[c])]
    return [row[n:] for row in A]


def gauss_target(case):
    """(A, mu) in operator order, exact rationals: potential 1/2 (q-mu)' A (q-mu)."""
    t, sizes, n = case["target"], case["sizes"], case["n"]
    if case["kind"] == "normal":
        A = [[(1 / (F(t["scale"][i]) ** 2)) if i == j else F(0) for j in range(n)] for i in range(n)]
        return A, [F(v) for v in t["loc"]]
    # mvn: the distribution sees the blocks in the order perm
    offs = [sum(sizes[:i]) for i in range(len(sizes))]
    order = [offs[j] + k for j in t["perm"] for k in range(sizes[j])]   # dist index -> operator index
    Md = [[F(v) for v in row] for row in t["mat"]]
    Ad = Md if t["param"] == "precision_matrix" else mat_inv_exact(t["mat"])
    A = [[F(0)] * n for _ in range(n)]
    mu = [F(0)] * n
    for a, ia in enumerate(order):
        mu[ia] = F(t["loc"][a])
        for c, ic in enumerate(order):
            A[ia][ic] = Ad[a][c]
    return A, mu


def minv_apply(minv, p):
    if minv and isinstance(minv[0], list):
        return [sum(F(a) * F(b) for a, b in zip(row, p)) for row in minv]
    return [F(a) * F(b) for a, b in zip(minv, p)]


def kinetic_exact(minv, p):
    return sum(F(a) * b for a, b in zip(p, minv_apply(minv, p))) / 2


# ----------------------------------------------------------------------------- Coq expressions

def clist(items, f=str):
    """(a :: b :: nil) — the [a; b] notation clashes with BigZ's [x] in the case files' scope."""
    return "(" + " :: ".join([f(i) for i in items] + ["nil"]) + ")"


def sqv(v):
    return clist(v, lambda x: f"sd {C.qlit(x)}")


def is_dyadic(x):
    d = F(x).denominator
    return d & (d - 1) == 0


def exact_gauss(case):
    """Gaussian target whose precision matrix is a matrix of doubles: the gradient is part of the model."""
    if case["kind"] not in ("mvn", "normal"):
        return False
    A, mu = gauss_target(case)
    return all(is_dyadic(v) for row in A for v in row)


def coq_mass(minv):
    if minv and isinstance(minv[0], list):
        return "(Dense " + clist(minv, sqv) + ")"
    return "(Diag " + sqv(minv) + ")"


def coq_case(case, out):
    eps, L = f"(sd {C.qlit(out['eps'])})", C.natlit(out["L"])
    M = coq_mass(out["minv"])
    q0, p0 = sqv(case["q0"]), sqv(out["p0"])
    if exact_gauss(case):
        A, mu = gauss_target(case)
        g = f"(gauss_grad NumDy {clist(A, sqv)} {sqv(mu)})"
    else:
        tab = clist(out["table"], lambda kv: f"({sqv(kv[0])}, {sqv(kv[1])})")
        g = f"(table_grad_d {tab})"
    return (f"let g := {g} in let M := {M} in let q0 := {q0} in let p0 := {p0} in "
            f"let st := hmc_step NumDy {eps} {L} M g q0 p0 in "
            f"let lf := leapfrog NumDy {eps} M g {L} (q0, p0) in "
            f"concat (map show_d (fst st ++ (snd st :: nil) ++ snd lf ++ "
            f"concat (leapfrog_trace NumDy {eps} M g {L} (q0, p0))))")


# ----------------------------------------------------------------------------- comparisons

def vec_close(impl_v, model_v, rtol, scale=None):
    """max-norm comparison: |a-b| <= rtol * max(1, |a|max, |b|max [, scale])"""
    if len(impl_v) != len(model_v):
        return f"length {len(impl_v)} vs {len(model_v)}"
    if any(not math.isfinite(a) for a in impl_v):
        return f"non-finite implementation value {impl_v}"
    s = max([1.0] + [abs(a) for a in impl_v] + [abs(float(b)) for b in model_v] + ([scale] if scale else []))
    for k, (a, b) in enumerate(zip(impl_v, model_v)):
        if abs(F(a) - b) > F(rtol) * F(s):
            return f"component {k}: implementation {a!r}, model {float(b)!r} (scale {s:.3g})"
    return None


def key_of(case, what):
    return f"C16:{what}:{case['kind']}:{case['mass_kind']}"


# ----------------------------------------------------------------------------- identities on the implementation

def integrate(b, case, q, p, eps=None, L=None):
    """LeapfrogIntegrator.__call__ on the built operator from (q, p); returns (q', p')."""
    torch = impl.load()
    set_params(b, q, case["sizes"])
    integ = b.op._integrator
    old = (integ.step_size, integ.steps)
    if eps is not None:
        integ.step_size, integ.steps = eps, L
    try:
        p1 = integ(b.op._hamiltonian.joint, b.op.parameters, torch.tensor(p), b.op.inverse_mass_matrix)
    except ValueError:      # documented numerical failure (NaN potential / gradient): no value
        for x in b.params:
            x.requires_grad = False
        return [math.nan] * len(q), [math.nan] * len(p)
    finally:
        integ.step_size, integ.steps = old
    return flat([x.tensor for x in b.params]), [float(v) for v in p1]


def hamiltonian(b, case, q, p):
    torch = impl.load()
    if not all(math.isfinite(v) for v in list(q) + list(p)):
        return math.nan
    set_params(b, q, case["sizes"])
    ham = b.op._hamiltonian
    try:
        with torch.no_grad():
            return float(ham.potential_energy() + ham.kinetic_energy(torch.tensor(p), b.op.inverse_mass_matrix))
    except ValueError:      # NaN potential / value outside the support: no energy
        return math.nan


def maxabs(v):
    return max([abs(x) for x in v] + [0.0])


def check_reversible(b, case, q0, p0, rng):
    """forward - flip - forward returns to (q0, -p0) up to round-off.  The admissible round-off is
    calibrated on the implementation itself: the backward pass is repeated from a turn-around point
    perturbed by a relative 1e-7, which measures how much the backward pass amplifies perturbations
    of that size; round-off perturbations are <= 1e-13 relative (hundreds of ulps)."""
    q1, p1 = integrate(b, case, q0, p0)
    if not all(math.isfinite(v) for v in q1 + p1):
        return "undefined", None
    q2, p2 = integrate(b, case, q1, [-v for v in p1])
    if not all(math.isfinite(v) for v in q2 + p2):
        return "undefined", None
    err = max(maxabs([a - c for a, c in zip(q2, q0)]), maxabs([a + c for a, c in zip(p2, p0)]))
    d = 1e-7
    s1 = max(1.0, maxabs(q1), maxabs(p1))
    q1p = [v + d * s1 * rng.choice([-1, 1]) for v in q1]
    p1p = [v + d * s1 * rng.choice([-1, 1]) for v in p1]
    q2p, p2p = integrate(b, case, q1p, [-v for v in p1p])
    amp = max(maxabs([a - c for a, c in zip(q2p, q2)]), maxabs([a - c for a, c in zip(p2p, p2)])) / d
    s0 = max(1.0, maxabs(q0), maxabs(p0))
    # forward round-off is itself amplified by the backward pass; (L+1) steps each way
    tol = 1e-13 * (case["L"] + 1) * max(amp, s0, s1) * 10
    if not math.isfinite(amp) or tol > 1e-5 * s0:
        return "undefined", None        # chaotic / unstable trajectory: the identity is not observable in doubles
    if not err <= tol:
        return "bad", (f"forward-flip-forward misses the start by {err:.3e} (admissible round-off {tol:.1e}; "
                       f"eps={case['eps']:.4g} L={case['L']})")
    return "ok", None


def check_changed_target(b, case, q0, p0, rng):
    """Two consecutive trajectories of the SAME operator, the second starting from the point the first
    one left in the parameters (as after an accepted move), with a hyper-parameter of the target changed
    in between by someone else: the second trajectory must be the leapfrog trajectory of the CURRENT
    target (reference: a freshly built operator on the changed target, started at the same point)."""
    torch = impl.load()
    from torchtree.core.parameter import Parameter
    if case["kind"] not in ("normal", "mvn", "gamma"):
        return "skipped", None
    q1, p1 = integrate(b, case, q0, p0)
    if not all(math.isfinite(v) for v in q1 + p1):
        return "undefined", None
    case2 = json.loads(json.dumps(case))
    t = case2["target"]
    if case["kind"] == "gamma":
        t["rate"] = [v * rng.uniform(1.2, 1.8) for v in t["rate"]]
    else:
        t["loc"] = [v + rng.uniform(0.4, 1.1) for v in t["loc"]]
    b2 = build(case2)
    moved = 0
    for pid, o2 in b2.dic.items():
        o1 = b.dic.get(pid)
        if isinstance(o2, Parameter) and isinstance(o1, Parameter) and o1 not in b.params \
                and o1.tensor.shape == o2.tensor.shape and not torch.equal(o1.tensor, o2.tensor):
            o1.tensor = o2.tensor.detach().clone()
            moved += 1
    if not moved:
        return "skipped", None
    pn = [rng.gauss(0.0, 1.0) for _ in p0]
    integ = b.op._integrator
    try:     # second trajectory from the kept point: the parameters are NOT assigned in between
        p2 = integ(b.op._hamiltonian.joint, b.op.parameters, torch.tensor(pn), b.op.inverse_mass_matrix)
    except ValueError:
        for x in b.params:
            x.requires_grad = False
        return "undefined", None
    q2, p2 = flat([x.tensor for x in b.params]), [float(v) for v in p2]
    for x in b.params:
        x.requires_grad = False
    q2r, p2r = integrate(b2, case2, q1, pn)
    if not all(math.isfinite(v) for v in q2 + p2 + q2r + p2r):
        return "undefined", None
    err = max(maxabs([a - c for a, c in zip(q2, q2r)]), maxabs([a - c for a, c in zip(p2, p2r)]))
    scale = max(1.0, maxabs(q2r), maxabs(p2r))
    if not err <= 1e-9 * scale:
        return "bad", (f"second trajectory of the same operator after a hyper-parameter of the target changed differs "
                       f"from the trajectory of a fresh operator on the changed target by {err:.3e} "
                       f"(eps={case['eps']:.4g} L={case['L']})")
    return "ok", None


def check_restored_mass(case, p0, rng):
    """An operator whose state is restored from a checkpoint holding ANOTHER mass matrix (as after adaptation) must
    integrate, and compute its Hastings term, with that matrix: reference = a fresh operator built with it."""
    torch = impl.load()
    if case["kind"] not in ("normal", "mvn", "gamma") or case.get("mass_update"):
        return "skipped", None
    n = case["n"]
    if case["mass_kind"] == "diag":
        new_mass = [m * rng.uniform(0.3, 3.0) for m in case["mass"]]
    else:
        new_mass = [[case["mass"][i][j] * (1.0 if i != j else rng.uniform(1.2, 3.0)) for j in range(n)] for i in range(n)]
    case2 = json.loads(json.dumps(case))
    case2["mass"] = new_mass
    b_ref = build(case2)                 # built with the new matrix
    b = build(case)                      # built with the specification's matrix, then restored
    sd = json.loads(json.dumps(b.op.state_dict(), default=lambda o: {"id": o.id, "type": "Parameter",
                                                                     "tensor": o.tensor.tolist()}))
    sd["mass_matrix"] = {"id": sd["mass_matrix"]["id"], "type": "Parameter", "tensor": new_mass}
    b.op.load_state_dict(sd)
    outs = []
    for bb in (b, b_ref):
        torch.manual_seed(case["draw_seed"] + 77)
        try:
            ret = float(bb.op.step())
        except Exception as e:  # noqa
            return "bad", f"step() after load_state_dict raises {type(e).__name__}: {str(e)[:120]}"
        outs.append((ret, flat([x.tensor for x in bb.params])))
        for x in bb.params:
            x.requires_grad = False
    (r1, q1), (r2, q2) = outs
    if not (math.isfinite(r1) and math.isfinite(r2)):
        return "undefined", None
    err = max(maxabs([a - c for a, c in zip(q1, q2)]), abs(r1 - r2))
    if not err <= 1e-9 * max(1.0, maxabs(q2), abs(r2)):
        return "bad", (f"after load_state_dict with another mass matrix the operator's step differs from that of an "
                       f"operator built with that matrix: positions / Hastings term off by {err:.3e} "
                       f"(Hastings {r1!r} vs {r2!r})")
    return "ok", None


def det(M):
    n = len(M)
    A = [row[:] for row in M]
    d = 1.0
    for c in range(n):
        piv = max(range(c, n), key=lambda r: abs(A[r][c]))
        if A[piv][c] == 0.0:
            return 0.0
        if piv != c:
            A[c], A[piv] = A[piv], A[c]
            d = -d
        d *= A[c][c]
        for r in range(c + 1, n):
            f = A[r][c] / A[c][c]
            if f:
                A[r] = [a - f * x for a, x in zip(A[r], A[c])]
    return d


def check_jacobian(b, case, q0, p0):
    """Jacobian of the implemented map (q,p) -> (q',p') by central differences; det must be 1.
    (The implementation detaches the positions at every step, so autograd cannot see through it; for
    Gaussian targets the map is affine and the differences are exact up to round-off.)"""
    n = case["n"]
    z0 = q0 + p0
    lin = case["kind"] in ("mvn", "normal")
    h = 1e-2 if lin else 1e-4
    cols = []
    for j in range(2 * n):
        zp, zm = z0[:], z0[:]
        hj = h * max(1.0, abs(z0[j]))
        zp[j] += hj
        zm[j] -= hj
        hj = (zp[j] - zm[j]) / 2
        a = integrate(b, case, zp[:n], zp[n:])
        c = integrate(b, case, zm[:n], zm[n:])
        col = [(x - y) / (2 * hj) for x, y in zip(a[0] + a[1], c[0] + c[1])]
        if not all(math.isfinite(v) for v in col):
            return "undefined", None
        cols.append(col)
    J = [[cols[j][i] for j in range(2 * n)] for i in range(2 * n)]
    big = max(maxabs(r) for r in J)
    if big > 50.0:
        return "undefined", None         # determinant = 1 by cancellation of huge terms: not observable
    dj = det(J)
    tol = (1e-8 if lin else 1e-5) * max(1.0, big) ** 2 * n
    if not abs(dj - 1.0) <= tol:
        return "bad", f"Jacobian determinant of the implemented map is {dj!r} (tolerance {tol:.1e}; max entry {big:.3g})"
    return "ok", None


def check_energy_order(b, case, q0, rng):
    """|H(end) - H(start)| summed over three momentum draws, at step sizes h, h/2, h/4, ... over the same
    integration time.  The observed orders r_k = log2(E(h/2^k) / E(h/2^(k+1))) are followed until two
    consecutive ones agree (asymptotic regime): a second-order scheme shows 2, a scheme with a dropped or
    mis-sized half step 1, a wrong sign 0.  'bad' needs three consecutive levels agreeing on an order <= 1.4."""
    n = case["n"]
    L0 = min(case["L"], 4)
    maxsteps = 160 if case["kind"] == "phylo" else 640
    diag = case["mass"] if case["mass_kind"] == "diag" else [case["mass"][i][i] for i in range(n)]
    ps = [[rng.gauss(0, 1) * math.sqrt(m) for m in diag] for _ in range(3)]
    H0 = [hamiltonian(b, case, q0, p) for p in ps]
    if not all(math.isfinite(x) for x in H0):
        return "undefined", None
    scale = max(1.0, sum(abs(x) for x in H0) / 3)
    cache = {}

    def E(k):
        if k not in cache:
            tot = 0.0
            for p, h0 in zip(ps, H0):
                q1, p1 = integrate(b, case, q0, p, case["eps"] / 2 ** k, L0 * 2 ** k)
                tot += abs(hamiltonian(b, case, q1, p1) - h0)
            cache[k] = tot
        return cache[k]

    def order(k):
        a, c = E(k), E(k + 1)
        if not (math.isfinite(a) and math.isfinite(c)) or a <= 0 or c <= 0:
            return None
        return math.log2(a / c)

    k = 0
    while L0 * 2 ** (k + 2) <= maxsteps:
        r1, r2 = order(k), order(k + 1)
        floor = 1e-11 * scale * L0 * 2 ** (k + 2)
        if r1 is not None and r2 is not None:
            if E(k + 2) < 100 * floor:
                return "undefined", None          # round-off level reached before the orders settle
            if abs(r1 - r2) <= 0.2:
                r = (r1 + r2) / 2
                if r >= 1.7:
                    return "ok", None
                if r <= 1.4 and L0 * 2 ** (k + 3) <= maxsteps:
                    r3 = order(k + 2)
                    if r3 is not None and r3 <= 1.4 and abs(r3 - r2) <= 0.2 and E(k + 3) >= 100 * floor:
                        return "bad", ("energy error does not shrink quadratically with the step size: |dH| = "
                                       + ", ".join(f"{E(j):.3e}" for j in range(k, k + 4))
                                       + f" at h = {case['eps'] / 2 ** k:.4g}, h/2, h/4, h/8 over {L0 * 2 ** k} steps "
                                       f"(observed orders {r1:.2f}, {r2:.2f}, {r3:.2f}; expected 2)")
        k += 1
    return "undefined", None


def check_hamiltonian_call(b, case, q0, p_a):
    """Hamiltonian.__call__(momentum=p) must be U(q) + K(p) for the momentum it is given, also when it is
    called twice in a row with different momenta at the same position (as find_reasonable_step_size does)."""
    torch = impl.load()
    set_params(b, q0, case["sizes"])
    ham, minv = b.op._hamiltonian, b.op.inverse_mass_matrix
    p_b = [2.0 * v + 1.0 for v in p_a]
    with torch.no_grad():
        for i, p in enumerate((p_a, p_b)):
            t = torch.tensor(p)
            got = float(ham(momentum=t, inverse_mass_matrix=minv))
            want = float(ham.potential_energy() + ham.kinetic_energy(t, minv))
            if not abs(got - want) <= 1e-9 * max(1.0, abs(want)):
                return (f"Hamiltonian(momentum=p) returned {got!r} on call {i + 1} at an unchanged position, but "
                        f"potential + kinetic energy of that momentum is {want!r}"
                        + (" (the value cached for the previous momentum is returned)" if i else ""))
    return None


def check_shadow(case, out):
    """Gaussian targets: the modified energy 1/2 p'Minv p + 1/2 x'(A - eps^2/4 A Minv A)x, x = q - mu, is
    conserved EXACTLY by the scheme (theorem energy_error_harmonic in one dimension; simultaneous
    diagonalisation in general), for every number of steps: checked on the positions and momenta the
    implementation produced, up to round-off relative to the size of the terms."""
    A, mu = gauss_target(case)
    minv = out["minv"]
    eps = F(out["eps"])

    def terms(q, p):
        x = [F(a) - m for a, m in zip(q, mu)]
        Ax = [sum(a * v for a, v in zip(row, x)) for row in A]
        MAx = minv_apply(minv, Ax)
        k = kinetic_exact(minv, p)
        u = sum(a * v for a, v in zip(x, Ax)) / 2
        c = eps * eps / 8 * sum(a * v for a, v in zip(Ax, MAx))
        return k, u, c
    k0, u0, c0 = terms(case["q0"], out["p0"])
    k1, u1, c1 = terms(out["q1"], out["p1"])
    diff = abs((k1 + u1 - c1) - (k0 + u0 - c0))
    size = max(abs(v) for v in (k0, u0, c0, k1, u1, c1, F(1)))
    if diff > Fraction(1, 10 ** 9) * size:
        return (f"shadow energy changes by {float(diff):.3e} (terms of size {float(size):.3g}) over {out['L']} steps "
                f"of size {out['eps']:.4g}")
    return None


def check_step_outputs(case, out):
    """Identities on what HMCOperator.step() itself returned / left behind -> list of (what, text)."""
    bad = []
    minv, mass = out["minv"], case["mass"]
    n = case["n"]
    # the inverse mass matrix in force is the inverse of the mass matrix
    if case["mass_kind"] == "diag":
        if not (isinstance(minv, list) and len(minv) == n and not isinstance(minv[0], list)):
            bad.append(("inverse-mass", f"inverse mass matrix has the wrong shape: {minv}"))
        elif any(abs(F(a) * F(m) - 1) > Fraction(1, 10 ** 12) for a, m in zip(minv, mass)):
            bad.append(("inverse-mass", f"inverse mass {minv} is not 1/{mass}"))
    else:
        prod = [[sum(F(mass[i][k]) * F(minv[k][j]) for k in range(n)) for j in range(n)] for i in range(n)]
        if any(abs(prod[i][j] - int(i == j)) > Fraction(1, 10 ** 8) for i in range(n) for j in range(n)):
            bad.append(("inverse-mass", "inverse_mass_matrix is not the inverse of the mass matrix"))
    if any(out["requires_grad"]):
        bad.append(("requires-grad", "parameters are left with requires_grad=True after step()"))
    if out["failed"]:
        return bad
    if out["p0_kin"] != out["p0"]:
        bad.append(("hastings", "the initial kinetic energy is not computed from the drawn momentum"))
    # returned value = K0 - K1 computed exactly from the drawn and the returned momentum
    k0, k1 = kinetic_exact(minv, out["p0"]), kinetic_exact(minv, out["p1"])
    want = k0 - k1
    tol = Fraction(1, 10 ** 10) * max(abs(k0), abs(k1), 1)
    if not math.isfinite(out["ret"]) or abs(F(out["ret"]) - want) > tol:
        bad.append(("hastings", f"step() returned {out['ret']!r} but K0 - K1 = {float(k0)!r} - {float(k1)!r} "
                                f"= {float(want)!r}"))
    if len(out["trace"]) != out["L"] + 1:
        bad.append(("positions", f"{len(out['trace'])} positions were written into the parameters for "
                                 f"{out['L']} steps (expected {out['L'] + 1})"))
    elif out["trace"][-1] != out["q1"]:
        bad.append(("positions", "the parameters do not hold the last position of the trajectory"))
    elif out["trace"][0] != [float(v) for v in case["q0"]]:
        bad.append(("positions", "the first gradient is not taken at the current position"))
    return bad


# ----------------------------------------------------------------------------- failure path

def check_failure_path(seed):
    """Restore on numerical failure: a target whose potential becomes NaN after the first move."""
    torch = impl.load()
    case = dict(kind="gamma", eps=0.5, L=3, draw_seed=seed, sizes=[1, 1], n=2, q0=[700.0, 0.3],
                target=dict(shape=[2.0, 3.0], rate=[1.0, 2.0]), mass_kind="diag", mass=[1.0, 1.0],
                mass_update=False)
    b = build(case)
    torch.manual_seed(seed)
    before = flat([p.tensor for p in b.params])
    ret = float(b.op.step())
    after = flat([p.tensor for p in b.params])
    if not (math.isinf(ret) and ret > 0):
        return case, f"step() returned {ret!r} although every trial hit a NaN potential (expected +inf)"
    if after != before:
        return case, f"parameters not restored after failed trials: {before} -> {after}"
    if any(p.requires_grad for p in b.params):
        return case, "parameters left with requires_grad=True after failed trials"
    return case, None


def check_retry_path(seed, want=4, tries=200):
    """A trial that fails numerically followed by one that succeeds: the value returned must be the
    kinetic-energy change of the LAST trial (drawn momentum -> returned momentum)."""
    found = 0
    for t in range(tries):
        case = dict(kind="gamma_raw", eps=0.3, L=2, draw_seed=seed * 1000 + t, sizes=[1, 1], n=2, q0=[0.15, 0.3],
                    target=dict(shape=[2.0, 3.0], rate=[1.0, 2.0]), mass_kind="diag", mass=[1.0, 1.0],
                    mass_update=False)
        try:
            out = run_step(case)
        except Exception as e:  # noqa
            return case, f"step() raises {type(e).__name__}: {str(e)[:160]}", found
        if out["failed"] or out["draws"] < 2:
            continue
        found += 1
        bad = check_step_outputs(case, out)
        if bad:
            return case, f"after {out['draws'] - 1} failed trial(s): " + "; ".join(t_ for _, t_ in bad), found
        if found >= want:
            break
    return None, None, found


def check_exact_failure_counts(seed):
    """Exactly k failed trials followed by an ordinary one, k = 1, 8, 9 (the last allowed trial succeeds) and 10 (all
    of them fail): the value returned is the kinetic-energy change of the trial that ran, +inf only when none did."""
    g = random.Random(seed * 7919 + 5)
    for k in (1, 8, 9, 10):
        n = g.randint(1, 3)
        case = dict(kind="normal", eps=0.1, L=g.choice([1, 3]), draw_seed=g.randrange(2 ** 31), sizes=[n], n=n,
                    q0=[g.uniform(-1, 1) for _ in range(n)],
                    target=dict(loc=[0.0] * n, scale=[1.0] * n, how="one"), mass_kind="diag", mass=[1.0] * n,
                    mass_update=False, fail_first=k)
        try:
            out = run_step(case)
        except Exception as e:  # noqa
            return case, f"{k} failed trials then an ordinary one: step() raises {type(e).__name__}: {str(e)[:160]}"
        if k < 10:
            if out["failed"]:
                return case, (f"{k} trials failed and trial {k + 1} ran an ordinary trajectory, yet step() returned "
                              f"{out['ret']!r} (parameters now {out['q1']}, started at {case['q0']})")
            if out["draws"] != k + 1:
                return case, f"{k} failing evaluations but {out['draws']} momentum draws"
            bad = check_step_outputs(case, out)
            if bad:
                return case, f"after exactly {k} failed trials: " + "; ".join(t_ for _, t_ in bad)
        else:
            if not out["failed"]:
                return case, f"all ten trials failed yet step() returned {out['ret']!r}"
            if out["q1"] != [float(v) for v in case["q0"]]:
                return case, f"all ten trials failed but the parameters moved: {case['q0']} -> {out['q1']}"
    return None, None


# ----------------------------------------------------------------------------- per-case work (worker processes)

def work(args):
    """Everything that touches the implementation for one case (runs in a worker process):
    step(), the identities on its outputs, oracle validation, the geometric identities."""
    ci, case, tier, seed = args
    import contextlib
    import io
    torch = impl.load()
    torch.set_num_threads(1)
    findings, stats = [], {}

    def add(what, text, replay):
        findings.append((key_of(case, what), text, replay))

    def stat(k):
        stats[k] = stats.get(k, 0) + 1

    t0 = time.time()
    with contextlib.redirect_stdout(io.StringIO()):
        try:
            out = run_step(case)
        except Exception as e:  # noqa
            add(f"raises:{type(e).__name__}", f"step(): {type(e).__name__}: {str(e)[:200]}", dict(case=case))
            return dict(ci=ci, out=None, findings=findings, stats=stats, validated=0, t=time.time() - t0)
        for what, text in check_step_outputs(case, out):
            add(what, text, dict(case=case, impl=_slim(out)))
        validated = 0
        if not out["failed"]:
            # recorded gradients vs autograd on a freshly built model
            try:
                fresh = fresh_gradients(case, [pos for pos, _ in out["table"]])
                for r, ((pos, dU), fr) in enumerate(zip(out["table"], fresh)):
                    bad = vec_close(dU, [F(v) for v in fr], 1e-9)
                    validated += 1
                    if bad:
                        add("oracle-gradient", f"gradient used at step {r} is not the gradient of the target at the "
                            f"position written into the parameters: {bad}",
                            dict(case=case, step=r, position=pos, used=dU, autograd=fr))
                        break
            except Exception as e:  # noqa
                add("oracle-gradient", f"fresh model: {type(e).__name__}: {str(e)[:200]}", dict(case=case))
            if case["kind"] in ("mvn", "normal"):
                # the gradient the integrator used is the linear map A (q - mu) of the specified Gaussian
                A, mu = gauss_target(case)
                for r, (pos, dU) in enumerate(out["table"]):
                    x = [F(a) - m for a, m in zip(pos, mu)]
                    bad = vec_close(dU, [sum(a * v for a, v in zip(row, x)) for row in A], 1e-9)
                    if bad:
                        add("gauss-gradient", f"gradient used at step {r} is not A (q - mu): {bad}",
                            dict(case=case, step=r, position=pos, used=dU))
                        break
                text = check_shadow(case, out)
                stat("shadow-energy:" + ("bad" if text else "ok"))
                if text:
                    add("shadow-energy", text, dict(case=case, impl=_slim(out)))
            g = random.Random(seed * 1000003 + ci)
            heavy = case["kind"] == "phylo"
            c, o = case, out
            tests = [("reversible", lambda b: check_reversible(b, c, c["q0"], o["p0"], g))]
            tests.append(("changed-target", lambda b: check_changed_target(build(c), c, c["q0"], o["p0"], g)))
            tests.append(("restored-mass-matrix", lambda b: check_restored_mass(c, o["p0"], g)))
            if tier == "thorough" or (not heavy and c["n"] * (c["L"] + 1) <= 100) or (heavy and c["L"] <= 5):
                tests.append(("jacobian-det", lambda b: check_jacobian(b, c, c["q0"], o["p0"])))
            if tier == "thorough" or not heavy or ci % 2 == 0:
                tests.append(("energy-order", lambda b: check_energy_order(b, c, c["q0"], g)))
            try:
                b = build(c)
                text = check_hamiltonian_call(b, c, c["q0"], o["p0"])
                stat("hamiltonian-call:" + ("bad" if text else "ok"))
                if text:
                    findings.append(("C16:hamiltonian-call:stale-momentum", text, dict(case=c, p_a=o["p0"])))
                for what, fn in tests:
                    st, text = fn(b)
                    stat(f"{what}:{st}")
                    if st == "bad":
                        add(what, text, dict(case=c, check=what))
            except Exception as e:  # noqa
                add(f"raises:{type(e).__name__}", f"integrator: {type(e).__name__}: {str(e)[:200]}", dict(case=c))
    return dict(ci=ci, out=out, findings=findings, stats=stats, validated=validated, t=time.time() - t0)


def work_failure(seed):
    import contextlib
    import io
    torch = impl.load()
    torch.set_num_threads(1)
    with contextlib.redirect_stdout(io.StringIO()):
        try:
            c, text = check_failure_path(seed)
            if text is None:
                c, text = check_exact_failure_counts(seed)
                if text is not None:
                    return c, "exact number of failed trials: " + text
                text = None
            if text is None:
                c2, text2, n_retry = check_retry_path(seed)
                if text2 is not None:
                    return c2, "retry path: " + text2
                if n_retry == 0:
                    return None, None
            return c, text
        except Exception as e:  # noqa
            return None, f"{type(e).__name__}: {str(e)[:200]}"


# ----------------------------------------------------------------------------- run

def run(tier, seed, replay=None):
    import concurrent.futures as cf
    import multiprocessing as mp
    import os
    rep = C.Report(PID, tier, seed)
    rep.trusted = C.COMMON_TRUSTED + [
        "hand-written model model/M_leapfrog.v (leapfrog, kinetic energy, Hastings term) tied by exact-rational "
        "correspondence on every position written into the parameters, the returned momentum and step()'s "
        "return value",
        "model/M_lf_oracle.v: nearest-key lookup turning the recorded gradient table into a function of the "
        "position (harness adaptor, not verified); the table itself is validated against autograd on a fresh model",
        "autograd (gradients of the shipped densities / tree likelihood) and torch tensor arithmetic are modelled, "
        "not verified (compared under relative 1e-9 in max-norm)",
        "volume preservation for nonlinear gradients in dimension > 1 rests on the chain rule for Jacobians "
        "(classical, not formalised) on top of the machine-checked shear decomposition and shear determinants",
        "recording: parameter listeners, wrappers around Hamiltonian.sample_momentum / kinetic_energy"]
    rng = random.Random(seed)
    n = 96 if tier == "quick" else 1200
    cases = [gen_case(rng, i, tier) for i in range(n)]
    if replay:
        cases = [json.load(open(replay))["replay"]["case"]]

    # ---- everything on the implementation, in worker processes (started now, collected after the proofs)
    t_impl = time.time()
    ex = cf.ProcessPoolExecutor(max_workers=min(16, os.cpu_count() or 1, max(1, len(cases))),
                                mp_context=mp.get_context("spawn"))
    futs = [ex.submit(work, (ci, c, tier, seed)) for ci, c in enumerate(cases)]
    fut_fail = ex.submit(work_failure, seed % 1000)
    cache = {}

    def collect():
        if "r" not in cache:
            cache["r"] = [f.result() for f in futs]
            cache["fail"] = fut_fail.result()
            ex.shutdown()
            rep.timings["impl_wall"] = round(time.time() - t_impl, 2)
            rep.timings["impl_cpu"] = round(sum(r["t"] for r in cache["r"]), 2)
        return cache["r"]

    def search():
        """The property evaluated directly on the implementation -> list of findings."""
        found = {}
        for r in collect():
            for f in r["findings"]:
                found.setdefault(f[0], f)
        fc, text = cache["fail"]
        if text:
            found.setdefault("C16:restore-on-failure", ("C16:restore-on-failure", text, dict(case=fc)))
        return list(found.values())

    # a broken proof must not hide behind an already listed finding: only NEW failing inputs explain it
    known = {k["key"] for k in C.load_known() if k["property"] == PID and k.get("status") == "known"}
    ok_sync, info = sync()
    if not ok_sync:
        # the source no longer has the shape the regenerated arithmetic is read from: the theorem that ties the model
        # to it is not re-checked; search the implementation for a failing input, report either way
        rep.proof = dict(obligations=1, discharged=0, axioms={}, theorems=["T9 translation"], ok=False)
        fs = [f for f in search() if f[0] not in known]
        for f in fs:
            rep.violation(*f)
        if not fs:
            rep.violation("C16:translator-failed", str(info)[:400], dict(error=str(info), broken="T9 / prop/C16.v:C16_integrator_source_is_model"), False)
    else:
        C.handle_proof(rep, PID, lambda: [f for f in search() if f[0] not in known])
    for f in search():
        rep.violation(*f)
    results = collect()
    outs = [r["out"] for r in results]
    geo_stats = {}
    for r in results:
        for k, v in r["stats"].items():
            geo_stats[k] = geo_stats.get(k, 0) + v

    # ---- correspondence with the exact run of the model
    t0 = time.time()
    exprs, index = [], []
    for ci, (c, o) in enumerate(zip(cases, outs)):
        if o is None or o["failed"]:
            continue
        exprs.append(coq_case(c, o))
        index.append(ci)
    res = C.run_cases(PID, HEADER, exprs, shard=max(2, len(exprs) // 16 + 1)) if exprs else []
    rep.timings["model_eval"] = round(time.time() - t0, 2)
    dist, undefined = {}, 0
    for ci, flatv in zip(index, res):
        c, o = cases[ci], outs[ci]
        nn, Ls = c["n"], o["L"]
        dk = f"{c['kind']}/{c['mass_kind']}/" + ("exact-gradient" if exact_gauss(c) else "oracle-gradient")
        dist[dk] = dist.get(dk, 0) + 1
        rep.case(dict(c=c), nontrivial=True,
                 sample=dict(kind=c["kind"], n=nn, sizes=c["sizes"], eps=c["eps"], L=c["L"], mass_kind=c["mass_kind"],
                             q0=c["q0"], p0=o["p0"], impl_q1=o["q1"], impl_p1=o["p1"], impl_return=o["ret"]))
        mod = [flatv[k:k + 3] for k in range(0, len(flatv), 3)]
        if any(m[0] != 1 for m in mod):
            undefined += 1
            continue
        vals = [Fraction(m[1]) * Fraction(2) ** m[2] for m in mod]
        want = nn + 1 + nn + (Ls + 1) * nn
        bad = None
        if len(vals) != want or len(o["trace"]) != Ls + 1:
            bad = ("positions", f"model produced {len(vals)} numbers for {Ls} steps, implementation wrote "
                                f"{len(o['trace'])} positions")
        else:
            mq1, mret, mp1, mtr = vals[:nn], vals[nn], vals[nn + 1:2 * nn + 1], vals[2 * nn + 1:]
            scale = max(maxabs(o["q1"]), maxabs(o["p1"]), max(maxabs(t) for t in o["trace"]))
            e = vec_close(o["q1"], mq1, 1e-9, scale)
            if e:
                bad = ("positions", f"positions left in the parameters differ from the model: {e}")
            if not bad:
                e = vec_close(o["p1"], mp1, 1e-9, scale)
                if e:
                    bad = ("momentum", f"returned momentum differs from the model: {e}")
            if not bad:
                for r in range(Ls + 1):
                    e = vec_close(o["trace"][r], mtr[r * nn:(r + 1) * nn], 1e-9, scale)
                    if e:
                        bad = ("positions", f"position written at step {r} differs from the model: {e}")
                        break
            if not bad:
                ks = max(1.0, abs(o["K0"]), abs(o["K1"]))
                if abs(F(o["ret"]) - mret) > F(1e-9) * F(ks) * F(max(1.0, scale)):
                    bad = ("hastings", f"step() returned {o['ret']!r}, model K0 - K1 = {float(mret)!r}")
        if bad:
            rep.violation(key_of(c, "model-differs:" + bad[0]), f"{bad[1]} (eps={c['eps']:.4g}, L={c['L']}, n={nn})",
                          dict(case=c, impl=_slim(o), broken="correspondence M_leapfrog vs integrator.py/operator.py"),
                          True)
    rep.rule = ("random HMC operators built from JSON as cli/hmc.py lays them out: target in {MultivariateNormal "
                "(precision or covariance, blocks permuted), independent Normal, Gamma on exp-transformed parameters "
                "(+Jacobian), JC69/HKY tree likelihood on 3..5 taxa with exponential/log-normal/Dirichlet priors "
                "(+Jacobians)}; dimension 1..8 split over 1..3 parameters; step size log-uniform 1e-3..0.5; 1..30 "
                "steps; diagonal or dense random SPD mass matrix, given at construction or assigned afterwards; one "
                "step() per operator with the momentum draw recorded; every case is non-trivial; distinct = distinct "
                "configuration")
    rep.extra = dict(input_distribution=dist, model_undefined=undefined,
                     traces_validated_against_impl=len(index),
                     oracle_gradients_validated=sum(r["validated"] for r in results),
                     identities_on_implementation=geo_stats,
                     retried_steps=sum(1 for o in outs if o and o["draws"] > 1),
                     failed_steps=sum(1 for o in outs if o and o["failed"]))
    return rep.finish()


def _slim(o):
    return {k: v for k, v in o.items() if k not in ("table", "trace")}
