"""C15 — reconstruction of the per-iteration transition record of MCMC.run by wrapping
operator.step/accept/reject/tune, the target model handed to MCMC, torch.rand/randint/randn and the
kinetic-energy function of HMC operators.  Nothing in /repo is modified."""
import contextlib
import copy
import io
import math
import os
import re

from harness import impl


def bits(xs):
    return [float(x).hex() for x in xs]


def build(objs, extra=()):
    """Fresh object graph from the JSON list.  Returns the id -> object dictionary."""
    torch = impl.load()
    from torchtree.core.utils import process_object
    dic = {}
    for d in copy.deepcopy(list(objs)) + copy.deepcopy(list(extra)):
        process_object(d, dic)
    return dic


def flat(t):
    return [float(v) for v in t.detach().reshape(-1).tolist()]


def set_leaves(dic, leaves, values):
    torch = impl.load()
    for pid in leaves:
        p = dic[pid]
        p.tensor = torch.tensor(values[pid], dtype=p.tensor.dtype).reshape(p.tensor.shape)


def fresh_density(target, values):
    """The target evaluated from scratch: new object graph, leaves set, one evaluation."""
    torch = impl.load()
    dic = build(target["objs"])
    set_leaves(dic, target["leaves"], values)
    with torch.no_grad():
        v = dic[target["joint"]]()
    return float(v)


class _JointProxy:
    def __init__(self, joint, rec):
        self._joint, self._rec = joint, rec

    def __call__(self, *a, **kw):
        v = self._joint(*a, **kw)
        self._rec._joint_called(v)
        return v

    def __getattr__(self, k):
        return getattr(self._joint, k)


class Recorder:
    def __init__(self, target, dic, mcmc):
        self.torch = impl.load()
        self.target, self.dic, self.mcmc = target, dic, mcmc
        self.records = []
        self.cur = None
        self.phase = "idle"
        self.init_joint = []
        self.anomalies = []

    # -- snapshots ---------------------------------------------------------------------------
    def snap(self):
        s = {pid: flat(self.dic[pid].tensor) for pid in self.target["leaves"]}
        w = {pid: flat(self.dic[pid].tensor) for pid in self.target["watch"]}
        return s, w

    @staticmethod
    def op_state(op):
        st = dict(field=float(op.tuning_parameter), count=int(op._adapt_count), acc=int(op._accept),
                  rej=int(op._reject))
        ads = []
        for ad in getattr(op, "_adaptors", []):
            a = dict(type=type(ad).__name__, call_counter=int(ad._call_counter))
            if hasattr(ad, "_accepted"):
                a["accepted"] = int(ad._accepted)
            if hasattr(ad, "_dual_avg"):
                da = ad._dual_avg
                a.update(s_bar=float(da.s_bar), x_bar=float(da.x_bar), counter=int(da._counter),
                         mu=float(da._mu), gamma=float(da._gamma), kappa=float(da._kappa), t0=float(da._t0),
                         delta=float(ad._delta))
            if hasattr(ad, "target_acceptance_probability"):
                a["target"] = float(ad.target_acceptance_probability)
            for k in ("_start", "_end"):
                if hasattr(ad, k):
                    a[k[1:]] = float(getattr(ad, k))
            if hasattr(ad, "_acceptance_rate"):
                a["use_rate"] = bool(ad._acceptance_rate)
            ads.append(a)
        st["adaptors"] = ads
        return st

    # -- callbacks ---------------------------------------------------------------------------
    def _joint_called(self, v):
        v = float(v)
        if self.cur is None:
            self.init_joint.append(v)
        else:
            self.cur["joint_calls"].append(v)
            self.phase = "after_joint"

    def _rand(self, kind, val):
        if self.cur is None:
            self.anomalies.append(f"{kind} draw outside an iteration")
            return
        if self.phase == "step":
            self.cur["draws"].append((kind, val))
        elif self.phase == "after_joint":
            self.cur["uacc"].append((kind, val))
        else:
            self.cur["other_draws"].append((self.phase, kind, val))

    def install(self):
        torch = self.torch
        rec = self
        self._saved = dict(rand=torch.rand, randint=torch.randint, randn=torch.randn)

        def rand(*a, **kw):
            v = rec._saved["rand"](*a, **kw)
            rec._rand("rand", flat(v))
            return v

        def randint(*a, **kw):
            v = rec._saved["randint"](*a, **kw)
            rec._rand("randint", [int(x) for x in v.reshape(-1).tolist()])
            return v

        def randn(*a, **kw):
            v = rec._saved["randn"](*a, **kw)
            rec._rand("randn", flat(v))
            return v

        torch.rand, torch.randint, torch.randn = rand, randint, randn
        self.mcmc.joint = _JointProxy(self.mcmc.joint, self)
        for k, op in enumerate(self.mcmc._operators):
            self._wrap(k, op)

    def uninstall(self):
        torch = self.torch
        torch.rand, torch.randint, torch.randn = (self._saved["rand"], self._saved["randint"],
                                                  self._saved["randn"])

    def _wrap(self, k, op):
        rec = self
        o_step, o_acc, o_rej, o_tune = op.step, op.accept, op.reject, op.tune

        def step():
            if rec.cur is not None:
                rec.anomalies.append("step() while the previous iteration is still open")
            before, wbefore = rec.snap()
            rec.cur = dict(op=k, op_id=op.id, kind=type(op).__name__, before=before, wbefore=wbefore,
                           state_before=rec.op_state(op), draws=[], uacc=[], other_draws=[],
                           joint_calls=[], kin=[], decision=None)
            rec.phase = "step"
            h = o_step()
            rec.phase = "after_step"
            rec.cur["hastings"] = float(h)
            rec.cur["hastings_shape"] = list(h.shape)
            rec.cur["proposed"], rec.cur["wproposed"] = rec.snap()
            return h

        def accept():
            rec.phase = "decide"
            o_acc()
            rec._decided("accept", op)

        def reject():
            rec.phase = "decide"
            o_rej()
            rec._decided("reject", op)

        def tune(acceptance_prob, sample, accepted):
            c = rec.cur
            if c is None or c["decision"] is None:
                rec.anomalies.append("tune() before accept()/reject()")
                return o_tune(acceptance_prob, sample, accepted)
            c["ap"] = float(acceptance_prob)
            c["sample"] = int(sample)
            c["tune_accepted"] = bool(accepted)
            rec.phase = "tune"
            o_tune(acceptance_prob, sample, accepted)
            c["state_after"] = rec.op_state(op)
            c["after_tune"], c["wafter_tune"] = rec.snap()
            rec.records.append(c)
            rec.cur = None
            rec.phase = "idle"

        op.step, op.accept, op.reject, op.tune = step, accept, reject, tune
        if hasattr(op, "_hamiltonian"):
            ham = op._hamiltonian
            o_kin = ham.kinetic_energy

            def kinetic_energy(momentum, inverse_mass_matrix):
                v = o_kin(momentum, inverse_mass_matrix)
                if rec.cur is not None and rec.phase == "step":
                    rec.cur["kin"].append(float(v))
                return v

            ham.kinetic_energy = kinetic_energy

    def _decided(self, what, op):
        c = self.cur
        c["decision"] = what
        c["after"], c["wafter"] = self.snap()
        c["state_decided"] = self.op_state(op)
        self.phase = "decided"


def run_recorded(target, operators, iterations, seed, log_every, workdir, tag):
    """Build target + MCMC from JSON, run MCMC.run() under the recorder.
    Returns dict(records, init_joint, init_state, log_rows, printed, anomalies, error, ops)."""
    torch = impl.load()
    from harness.props import c15_targets as TG
    os.makedirs(workdir, exist_ok=True)
    log_file = os.path.join(workdir, f"log_{tag}.tsv")
    log_ids = [target["joint"]] + list(target["leaves"])
    mj = TG.mcmc_json(target, operators, iterations, log_file, log_every, log_ids)
    dic = build(target["objs"])
    from torchtree.core.utils import process_object
    mcmc = process_object(copy.deepcopy(mj), dic)
    rec = Recorder(target, dic, mcmc)
    init_state, init_watch = rec.snap()
    ops = []
    for op in mcmc._operators:
        ops.append(dict(id=op.id, kind=type(op).__name__, weight=float(op.weight),
                        target=float(op.target_acceptance_probability),
                        adapt=not op._disable_adaptation, state=Recorder.op_state(op),
                        params=[p.id for p in op.parameters],
                        steps=getattr(getattr(op, "_integrator", None), "steps", None)))
    torch.manual_seed(seed)
    out = io.StringIO()
    err = None
    rec.install()
    try:
        with contextlib.redirect_stdout(out):
            mcmc.run()
    except ZeroDivisionError as e:
        # MCMC.run's final summary divides by the number of moves of each operator (0 when an
        # operator was never drawn): after the last iteration, outside the property
        err = None if len(rec.records) == iterations else f"ZeroDivisionError: {e}"
    except Exception as e:  # noqa
        err = f"{type(e).__name__}: {e}"
    finally:
        rec.uninstall()
    printed = {}
    for line in out.getvalue().split("\n"):
        m = re.match(r"^\s+(\d+)\s+(-?[\d.]+|-?inf|nan)(\s|$)", line)
        if m:
            try:
                printed[int(m.group(1))] = float(m.group(2))
            except ValueError:
                pass
    rows = []
    try:
        with open(log_file) as f:
            lines = [l.rstrip("\n").split("\t") for l in f if l.strip()]
        header, body = lines[0], lines[1:]
        for r in body:
            rows.append(dict(sample=int(r[0]), values=[float(v) for v in r[1:]]))
    except Exception as e:  # noqa
        header = None
        rec.anomalies.append(f"log file unreadable: {e}")
    return dict(records=rec.records, init_joint=rec.init_joint, init_state=init_state,
                init_watch=init_watch, log_header=header, log_rows=rows, printed=printed,
                anomalies=rec.anomalies, error=err, ops=ops, open_record=rec.cur)
