"""C17 — a checkpoint restores the whole run state; resuming continues the same run.

sync   : T5 (harness/translate/t5_state.py) regenerates coq/gen/G_state.v (state_dict/load_state_dict key
         tables, mutable-field tables, run-loop shapes) from the anchored sources.
prove  : coq/prop/C17.v (generic round-trip / resume theorems + the finite per-class table theorems).
impl   : every case is driven through the real command-line entry point torchtree.torchtree.main
         (in-process): run A = uninterrupted run of N+K iterations writing a checkpoint at N,
         run C = restart of the same configuration with `-c <checkpoint written at N>`.
         Observed: state_dict() + parameter tensors at the moment the checkpoint is written and on
         entry to run() after the restart, the exception raised by the restart (if any), and the
         sequence of parameter states visited after N in both runs.
corr   : the model's executable definitions (vm_compute) on the recorded states: JSON round trip,
         restore∘save from the generated tables, run-loop labels; compared with the implementation.
"""
import contextlib
import copy
import io
import json
import math
import os
import random
import shutil
import sys
import time
import traceback

from harness import common as C
from harness.translate import t5_state

PID = "C17"
WORK = os.path.join(C.WORKROOT, PID)

# --------------------------------------------------------------------------- driving the real code


def _torch():
    import torch
    return torch


class _Hooks:
    """Harness-side observation points (the repository is not modified): wraps run() and
    save_full_state() of Optimizer and MCMC while a case executes."""

    def __init__(self, reseed):
        self.reseed = reseed          # int or None: torch.manual_seed at the checkpoint / at run() entry
        self.saved = {}               # label -> snapshot taken right after save_full_state
        self.entry = None             # snapshot on entry to run()
        self.capture_at = None        # epoch whose checkpoint is the interruption point
        self.copy_to = None           # where to copy the checkpoint written at capture_at
        self.saves = []               # labels (self._epoch at save time, and the file written)

    def install(self):
        import torchtree.inference.mcmc.mcmc as M
        import torchtree.optim.optimizer as O
        torch = _torch()
        hooks = self
        self._orig = []

        def wrap_run(cls):
            orig = cls.run

            def run(obj):
                hooks.entry = snapshot(obj)
                if hooks.reseed is not None:
                    torch.manual_seed(hooks.reseed)
                return orig(obj)
            cls.run = run
            self._orig.append((cls, "run", orig))

        def wrap_save(cls):
            orig = cls.save_full_state

            def save_full_state(obj, *a, **kw):
                r = orig(obj, *a, **kw)
                fn = a[0] if a else kw.get("checkpoint", getattr(obj, "checkpoint", None))
                hooks.saves.append(fn)
                if hooks.copy_to is not None and hooks.capture_at is not None and \
                        len(hooks.saves) == hooks.capture_at:
                    shutil.copyfile(fn, hooks.copy_to)
                    hooks.saved = snapshot(obj)
                    if hooks.reseed is not None:
                        torch.manual_seed(hooks.reseed)
                return r
            cls.save_full_state = save_full_state
            self._orig.append((cls, "save_full_state", orig))

        for cls in (O.Optimizer, M.MCMC):
            wrap_run(cls)
            wrap_save(cls)

    def remove(self):
        for cls, name, orig in self._orig:
            setattr(cls, name, orig)


def canon(v):
    """Canonical, JSON-serialisable picture of a live state value.  Keeps what the property is
    about: key types (int vs str), container kinds (tuple vs list), tensor dtype / nn flag / shape."""
    torch = _torch()
    from torchtree.core.abstractparameter import AbstractParameter
    if isinstance(v, AbstractParameter):
        t = v.tensor
        return {"$": "param", "id": v.id, "dtype": str(t.dtype), "nn": isinstance(t, torch.nn.Parameter),
                "shape": list(t.shape), "v": _floats(t)}
    if isinstance(v, torch.Tensor):
        return {"$": "tensor", "dtype": str(v.dtype), "nn": isinstance(v, torch.nn.Parameter),
                "shape": list(v.shape), "v": _floats(v)}
    if isinstance(v, dict):
        return {"$": "dict", "items": [[_ckey(k), canon(x)] for k, x in v.items()]}
    if isinstance(v, tuple):
        return {"$": "tuple", "items": [canon(x) for x in v]}
    if isinstance(v, (list,)) or type(v).__name__ == "deque":
        return {"$": "list", "items": [canon(x) for x in v]}
    if isinstance(v, bool):
        return {"$": "bool", "v": v}
    if isinstance(v, int):
        return {"$": "int", "v": v}
    if isinstance(v, float):
        return {"$": "float", "v": float(v).hex()}
    if v is None:
        return {"$": "none"}
    if isinstance(v, str):
        return {"$": "str", "v": v}
    return {"$": "other", "v": f"{type(v).__name__}:{v!r}"}


def _ckey(k):
    if isinstance(k, bool):
        return ["bool", k]
    if isinstance(k, int):
        return ["int", k]
    if isinstance(k, str):
        return ["str", k]
    return ["other", repr(k)]


def _floats(t):
    t = t.detach().cpu()
    if t.is_floating_point():
        return [float(x).hex() for x in t.double().reshape(-1).tolist()]
    return [int(x) for x in t.reshape(-1).tolist()]


def snapshot(obj):
    sd = obj.state_dict()
    return dict(cls=type(obj).__name__, epoch=obj._epoch, state=canon(sd),
                params=[canon(p) for p in obj.parameters])


def run_main(argv):
    """torchtree.torchtree.main(argv) in-process; returns captured stdout."""
    import torchtree.torchtree as T
    old = sys.argv
    sys.argv = ["torchtree"] + list(argv)
    buf = io.StringIO()
    try:
        with contextlib.redirect_stdout(buf), contextlib.redirect_stderr(buf):
            T.main()
    finally:
        sys.argv = old
    return buf.getvalue()


# --------------------------------------------------------------------------- configurations

def _normal(id_, xid, loc, scale, x, **xkw):
    xp = {"id": xid, "type": "Parameter", "tensor": x}
    xp.update(xkw)
    return {"id": id_, "type": "Distribution", "distribution": "torch.distributions.Normal",
            "parameters": {"loc": loc, "scale": scale}, "x": xp}


def opt_model(case):
    """A smooth deterministic target over parameters of several shapes / kinds."""
    r = random.Random(case["pseed"])
    f = lambda: round(r.uniform(-2, 2), 3)
    s = lambda: round(r.uniform(0.4, 2.5), 3)
    ds = [_normal("d1", "x", [f(), f(), f()], [s(), s(), s()], [f(), f(), f()]),
          _normal("d2", "y", [f()], [s()], [f()], nn=True),
          _normal("d3", "z", [[f(), f()], [f(), f()]], [[s(), s()], [s(), s()]], [[f(), f()], [f(), f()]])]
    if case.get("explicit32"):
        # a parameter with an explicit dtype that differs from the run's default, and one that
        # inherits it through full_like
        ds.append(_normal("d4", "w", [f(), f()], [s(), s()], [f(), f()], dtype="torch.float32"))
        ds.append({"id": "d5", "type": "Distribution", "distribution": "torch.distributions.Normal",
                   "parameters": {"loc": [f(), f()], "scale": [s(), s()]},
                   "x": {"id": "v", "type": "Parameter", "full_like": "w", "tensor": 0.25}})
    return {"id": "joint", "type": "JointDistributionModel", "distributions": ds}


def opt_config(case, ck, iters, freq):
    pars = ["x", "y", "z"] + (["w", "v"] if case.get("explicit32") else [])
    if case.get("groups"):
        pj = [{"params": ["x"], "lr": case["lr"] * 0.5}, {"params": pars[1:]}]
    else:
        pj = pars
    options = dict(case.get("options", {}))
    if case["algorithm"] != "torch.optim.Adafactor" or "lr" in options:
        options.setdefault("lr", case["lr"])
    opt = {"id": "opt", "type": "Optimizer", "algorithm": case["algorithm"], "options": options,
           "maximize": True, "iterations": iters, "checkpoint": ck, "checkpoint_frequency": freq,
           "checkpoint_all": True, "loss": "joint", "parameters": pj}
    if case.get("scheduler"):
        sc = {"id": "sched", "type": "Scheduler"}
        sc.update(case["scheduler"])
        opt["scheduler"] = sc
    return [opt_model(case), opt]


def mcmc_model(case):
    r = random.Random(case["pseed"])
    f = lambda: round(r.uniform(-1, 1), 3)
    s = lambda: round(r.uniform(0.5, 2.0), 3)
    ds = [{"id": "d1", "type": "Distribution", "distribution": "torch.distributions.LogNormal",
           "parameters": {"loc": [f(), f(), f()], "scale": [s(), s(), s()]},
           "x": {"id": "x", "type": "Parameter", "tensor": [round(r.uniform(0.2, 3), 3) for _ in range(3)]}},
          _normal("d2", "y", [f(), f()], [s(), s()], [f(), f()]),
          {"id": "d3", "type": "Distribution", "distribution": "torch.distributions.Dirichlet",
           "parameters": {"concentration": [2.0, 3.0, 1.5, 2.5]},
           "x": {"id": "p", "type": "Parameter", "tensor": [0.1, 0.2, 0.3, 0.4]}}]
    return {"id": "joint", "type": "JointDistributionModel", "distributions": ds}


def _hmc(case, adaptors, mass="diag", **kw):
    mm = {"id": "mm", "type": "Parameter"}
    mm.update({"ones": 2} if mass == "diag" else {"eye": 2})
    op = {"id": "hmc", "type": "HMCOperator", "joint": "joint", "parameters": ["y"], "weight": 1.0,
          "integrator": {"id": "lf", "type": "LeapfrogIntegrator", "steps": 3, "step_size": 0.1},
          "mass_matrix": mm}
    if adaptors:
        op["adaptors"] = adaptors
    op.update(kw)
    return op


ADAPTORS = {
    "adaptive": lambda: {"id": "ad.step", "type": "AdaptiveStepSize", "integrator": "lf"},
    "adaptive_rate": lambda: {"id": "ad.step", "type": "AdaptiveStepSize", "integrator": "lf",
                              "use_acceptance_rate": True, "start": 2},
    "dual": lambda: {"id": "ad.dual", "type": "DualAveragingStepSize", "integrator": "lf"},
    "mass": lambda: {"id": "ad.mass", "type": "MassMatrixAdaptor", "parameters": ["y"], "mass_matrix": "mm",
                     "update_frequency": 2},
    "mass_window": lambda: {"id": "ad.mass", "type": "MassMatrixAdaptor", "parameters": ["y"],
                            "mass_matrix": "mm", "update_frequency": 2, "variance_window": 1},
    "mass_swap": lambda: {"id": "ad.mass", "type": "MassMatrixAdaptor", "parameters": ["y"],
                          "mass_matrix": "mm", "update_frequency": 2, "swap_every": 5},
}


def mcmc_ops(case):
    out = []
    for o in case["operators"]:
        k = o["kind"]
        extra = {x: o[x] for x in ("acceptance_window_length", "disable_adaptation", "weight") if x in o}
        if k == "scaler":
            d = {"id": "op.scaler", "type": "ScalerOperator", "parameters": ["x"], "weight": 1.0, "scaler": 0.5}
        elif k == "slide":
            d = {"id": "op.slide", "type": "SlidingWindowOperator", "parameters": ["y"], "weight": 2.0, "width": 0.5}
        elif k == "slide_xy":
            d = {"id": "op.slide2", "type": "SlidingWindowOperator", "parameters": ["x", "y"], "weight": 1.0,
                 "width": 0.1}
        elif k == "dirichlet":
            d = {"id": "op.dir", "type": "DirichletOperator", "parameters": ["p"], "weight": 1.0, "scaler": 50.0}
        elif k == "hmc":
            ads = []
            for a in o.get("adaptors", []):
                ad = ADAPTORS[a]()
                if "swap_every" in ad:
                    ad["swap_every"] = o.get("swap_every", ad["swap_every"])
                ads.append(ad)
            d = _hmc(case, ads, o.get("mass", "diag"),
                     **({"find_reasonable_step_size": True} if o.get("frss") else {}))
        else:
            raise ValueError(k)
        d.update(extra)
        out.append(d)
    return out


def mcmc_config(case, ck, log, iters, freq):
    if case.get("tree"):
        return tree_config(case, ck, log, iters, freq)
    return [mcmc_model(case),
            {"id": "mcmc", "type": "MCMC", "joint": "joint", "iterations": iters, "checkpoint": ck,
             "checkpoint_frequency": freq, "every": 0, "operators": mcmc_ops(case),
             "loggers": [{"id": "lg", "type": "Logger", "parameters": ["x", "y", "p"], "file_name": log,
                          "every": 1, "delimiter": "\t"}]}]


_TREE_BASE = None


def tree_config(case, ck, log, iters, freq):
    """The configuration `torchtree-cli mcmc --coalescent skygrid` emits for data/tiny.* (time tree,
    GMRF block-updating operator + sliding windows), produced by the real CLI."""
    global _TREE_BASE
    if _TREE_BASE is None:
        from torchtree.cli import cli as tcli
        old = sys.argv
        sys.argv = ["torchtree-cli", "mcmc", "-i", os.path.join(C.REPO, "data/tiny.fa"), "-t",
                    os.path.join(C.REPO, "data/tiny.nwk"), "--coalescent", "skygrid", "--grid", "3",
                    "--cutoff", "0.05", "--dates", "0", "--clock", "strict", "--rate", "0.01", "--iter", "10",
                    "--stem", os.path.join(WORK, "skg")]
        buf, err = io.StringIO(), io.StringIO()
        try:
            with contextlib.redirect_stdout(buf), contextlib.redirect_stderr(err):
                tcli.main()
        finally:
            sys.argv = old
        _TREE_BASE = json.loads(buf.getvalue())
    j = copy.deepcopy(_TREE_BASE)
    m = [o for o in j if isinstance(o, dict) and o.get("id") == "mcmc"][0]
    m.update(iterations=iters, checkpoint=ck, checkpoint_frequency=freq, every=0)
    for op in m["operators"]:
        op["weight"] = 1.0
    m["loggers"] = [{"id": "lg", "type": "Logger",
                     "parameters": ["tree.ratios.unres", "tree.root_height.unres", "coalescent.theta.log",
                                    "gmrf.precision.unres"],
                     "file_name": log, "every": 1, "delimiter": "\t"}]
    return j


def config_for(case, ck, log, iters, freq):
    if case["algo"] == "optimizer":
        return opt_config(case, ck, iters, freq)
    return mcmc_config(case, ck, log, iters, freq)


# --------------------------------------------------------------------------- one case = runs A and C

def read_log(fn):
    """Logger output -> [(label, [hex floats])]"""
    rows = []
    with open(fn) as f:
        lines = f.read().strip().split("\n")
    for ln in lines[1:]:
        c = ln.split("\t")
        rows.append((int(c[0]), [float(x).hex() for x in c[1:]]))
    return rows


def read_ckpts(d, stem):
    """checkpoint_all files stem-<label>.json -> [(label, {param id: [hex floats]}, algorithm state)]"""
    out = []
    for fn in os.listdir(d):
        if fn.startswith(stem + "-") and fn.endswith(".json"):
            lab = int(fn[len(stem) + 1:-5])
            j = json.load(open(os.path.join(d, fn)))
            ps = {p["id"]: [float(x).hex() for x in _flat(p["tensor"])] + [p["dtype"]] for p in j[1:]}
            out.append((lab, ps, j[0]))
    return sorted(out, key=lambda r: r[0])


def _flat(v):
    if isinstance(v, list):
        return [y for x in v for y in _flat(x)]
    return [v]


def run_case(case):
    """-> observation dict (JSON-serialisable)."""
    N, K = case["N"], case["K"]
    d = os.path.join(WORK, "runs", case["name"])
    shutil.rmtree(d, ignore_errors=True)
    os.makedirs(os.path.join(d, "A"))
    os.makedirs(os.path.join(d, "C"))
    is_opt = case["algo"] == "optimizer"
    reseed = None if is_opt else case["seed"] + 7919
    args = ["--dtype", case["dtype"], "-s", str(case["seed"])]
    obs = dict(name=case["name"], N=N, K=K)
    ck_at_n = os.path.join(d, "at_N.json")
    # ---- run A: uninterrupted
    cfgA = os.path.join(d, "A", "config.json")
    json.dump(config_for(case, os.path.join(d, "A", "ck.json"), os.path.join(d, "A", "log.tsv"), N + K,
                         1 if is_opt else N), open(cfgA, "w"))
    h = _Hooks(reseed)
    h.capture_at = N if is_opt else 1
    h.copy_to = ck_at_n
    h.install()
    try:
        try:
            run_main([cfgA] + args)
        except Exception as e:
            obs["plain_run_error"] = f"{type(e).__name__}: {e}"
            obs["trace"] = traceback.format_exc()[-1500:]
    finally:
        h.remove()
    if "plain_run_error" in obs:
        # an exception after the last iteration was logged (e.g. the closing statistics of MCMC.run
        # divide by zero for an operator that was never drawn) does not concern checkpointing
        done = h.saved and (is_opt or (os.path.exists(os.path.join(d, "A", "log.tsv"))
                                       and read_log(os.path.join(d, "A", "log.tsv"))[-1][0] == N + K))
        if not done:
            return obs
        obs["plain_run_tail_error"] = obs.pop("plain_run_error")
    if not h.saved:
        obs["plain_run_error"] = "no checkpoint written at N"
        return obs
    obs["saved"] = h.saved
    obs["A_saves"] = [os.path.basename(s) for s in h.saves]
    if is_opt:
        obs["A_traj"] = [(lab, ps) for lab, ps, _ in read_ckpts(os.path.join(d, "A"), "ck")]
        obs["A_final_state"] = read_ckpts(os.path.join(d, "A"), "ck")[-1][2]
    else:
        obs["A_traj"] = read_log(os.path.join(d, "A", "log.tsv"))
    obs["checkpoint_text"] = open(ck_at_n).read()
    # ---- run C: restart from the checkpoint written at N
    cfgC = os.path.join(d, "C", "config.json")
    json.dump(config_for(case, os.path.join(d, "C", "ck.json"), os.path.join(d, "C", "log.tsv"), N + K,
                         1 if is_opt else 10 ** 6), open(cfgC, "w"))
    h = _Hooks(reseed)
    h.install()
    try:
        try:
            run_main([cfgC, "-c", ck_at_n] + args)
        except Exception as e:
            tb = traceback.extract_tb(e.__traceback__)
            site = next((f"{os.path.basename(fr.filename)}:{fr.name}" for fr in reversed(tb)
                         if "/torchtree/" in fr.filename), "?")
            obs["restart_error"] = dict(type=type(e).__name__, msg=str(e)[:200], site=site,
                                        before_run=h.entry is None)
    finally:
        h.remove()
    obs["restored"] = h.entry
    obs["C_saves"] = [os.path.basename(s) for s in h.saves]
    if is_opt:
        obs["C_traj"] = [(lab, ps) for lab, ps, _ in read_ckpts(os.path.join(d, "C"), "ck")]
        cks = read_ckpts(os.path.join(d, "C"), "ck")
        obs["C_final_state"] = cks[-1][2] if cks else None
    elif os.path.exists(os.path.join(d, "C", "log.tsv")):
        obs["C_traj"] = [r for r in read_log(os.path.join(d, "C", "log.tsv"))]
    else:
        obs["C_traj"] = []
    return obs


# --------------------------------------------------------------------------- case lists

OPTIMISERS = [
    ("Adam", "torch.optim.Adam", {}),
    ("Adam-amsgrad", "torch.optim.Adam", {"amsgrad": True}),
    ("AdamW", "torch.optim.AdamW", {"weight_decay": 0.01}),
    ("SGD", "torch.optim.SGD", {}),
    ("SGD-momentum", "torch.optim.SGD", {"momentum": 0.9, "nesterov": True}),
    ("Adagrad", "torch.optim.Adagrad", {}),
    ("RMSprop", "torch.optim.RMSprop", {"momentum": 0.5, "centered": True}),
    ("Adadelta", "torch.optim.Adadelta", {}),
    ("Adamax", "torch.optim.Adamax", {}),
    ("NAdam", "torch.optim.NAdam", {}),
    ("RAdam", "torch.optim.RAdam", {}),
    ("ASGD", "torch.optim.ASGD", {}),
    ("Rprop", "torch.optim.Rprop", {}),
    ("Adafactor", "torch.optim.Adafactor", {}),
    ("LBFGS", "torch.optim.LBFGS", {"max_iter": 2, "history_size": 3}),
]
# not driven: SparseAdam (needs sparse gradients, torchtree has none), Muon (2-D parameters only)

_S = "torch.optim.lr_scheduler."


def schedulers(N, K):
    return [
        ("StepLR", {"scheduler": _S + "StepLR", "step_size": 2, "gamma": 0.7}),
        ("MultiStepLR", {"scheduler": _S + "MultiStepLR", "milestones": [2, N + 2], "gamma": 0.5}),
        ("ExponentialLR", {"scheduler": _S + "ExponentialLR", "gamma": 0.9}),
        ("CosineAnnealingLR", {"scheduler": _S + "CosineAnnealingLR", "T_max": N + K + 3}),
        ("LinearLR", {"scheduler": _S + "LinearLR", "total_iters": N + 2}),
        ("ConstantLR", {"scheduler": _S + "ConstantLR", "total_iters": N + 2, "factor": 0.5}),
        ("PolynomialLR", {"scheduler": _S + "PolynomialLR", "total_iters": N + K + 3, "power": 2.0}),
        ("OneCycleLR", {"scheduler": _S + "OneCycleLR", "max_lr": 0.2, "total_steps": N + K + 6}),
        ("CyclicLR", {"scheduler": _S + "CyclicLR", "base_lr": 0.01, "max_lr": 0.2, "step_size_up": 3,
                      "cycle_momentum": False}),
        ("CosineAnnealingWarmRestarts", {"scheduler": _S + "CosineAnnealingWarmRestarts", "T_0": 3}),
        ("LambdaLR", {"scheduler": _S + "LambdaLR", "lr_lambda": "lambda epoch: 0.9 ** epoch"}),
        ("MultiplicativeLR", {"scheduler": _S + "MultiplicativeLR", "lr_lambda": "lambda epoch: 0.95"}),
    ]
# not driven: ReduceLROnPlateau (step() needs a metric, Optimizer._run passes none), SequentialLR /
# ChainedScheduler (take scheduler objects, not expressible in the JSON specification)


def make_cases(tier, seed):
    rng = random.Random(seed)
    cases = []

    def add(c):
        c.setdefault("dtype", "float64")
        c["seed"] = rng.randrange(1, 10 ** 6)
        c["pseed"] = rng.randrange(1, 10 ** 6)
        c["name"] = c["family"] + "-" + c["dtype"]
        cases.append(c)

    N = rng.choice([4, 5, 6])
    K = rng.choice([4, 5])
    sch = schedulers(N, K)
    for i, (nm, alg, opts) in enumerate(OPTIMISERS):
        lr = 1.0 if nm in ("LBFGS", "Adadelta") else 0.05
        add(dict(algo="optimizer", family=f"opt:{nm}", algorithm=alg, options=opts, lr=lr, N=N, K=K))
        if nm == "LBFGS":
            continue
        # every optimiser meets one scheduler (rotating), every scheduler meets Adam and SGD-momentum
        snm, sc = sch[(i + seed) % len(sch)]
        if tier == "thorough" or i % 2 == 0:
            add(dict(algo="optimizer", family=f"opt:{nm}+{snm}", algorithm=alg, options=opts, lr=lr, N=N, K=K,
                     scheduler=sc))
    for snm, sc in sch:
        add(dict(algo="optimizer", family=f"opt:Adam+{snm}", algorithm="torch.optim.Adam", options={}, lr=0.05,
                 N=N, K=K, scheduler=sc))
        if tier == "thorough":
            add(dict(algo="optimizer", family=f"opt:SGD-momentum+{snm}", algorithm="torch.optim.SGD",
                     options={"momentum": 0.9}, lr=0.05, N=N, K=K, scheduler=sc))
    add(dict(algo="optimizer", family="opt:Adam[param_groups]", algorithm="torch.optim.Adam", options={}, lr=0.05,
             N=N, K=K, groups=True, scheduler=sch[0][1]))
    add(dict(algo="optimizer", family="opt:Adam[explicit-float32-parameter]", algorithm="torch.optim.Adam",
             options={}, lr=0.05, N=N, K=K, explicit32=True))
    f32 = ["Adam", "SGD-momentum", "LBFGS", "RMSprop"] if tier == "quick" else [o[0] for o in OPTIMISERS]
    for nm, alg, opts in OPTIMISERS:
        if nm in f32:
            lr = 1.0 if nm in ("LBFGS", "Adadelta") else 0.05
            add(dict(algo="optimizer", family=f"opt:{nm}", algorithm=alg, options=opts, lr=lr, N=N, K=K,
                     dtype="float32", scheduler=None if nm == "LBFGS" else sch[2][1]))

    Nm = rng.choice([10, 12, 14])
    Km = rng.choice([6, 8])
    H = lambda *ad, **kw: dict(kind="hmc", adaptors=list(ad), **kw)
    mc = [
        ("scaler", [dict(kind="scaler", acceptance_window_length=5)]),
        ("slide", [dict(kind="slide")]),
        ("dirichlet", [dict(kind="dirichlet", acceptance_window_length=4)]),
        ("scaler+slide+dirichlet", [dict(kind="scaler"), dict(kind="slide_xy"), dict(kind="dirichlet")]),
        ("scaler[no-adaptation]", [dict(kind="scaler", disable_adaptation=True)]),
        ("hmc", [H()]),
        ("hmc[find_reasonable_step_size]", [H(frss=True)]),
        ("hmc[AdaptiveStepSize]", [H("adaptive")]),
        ("hmc[AdaptiveStepSize(use_acceptance_rate)]", [H("adaptive_rate")]),
        ("hmc[DualAveragingStepSize]", [H("dual")]),
        ("hmc[MassMatrixAdaptor]", [H("mass")]),
        ("hmc[MassMatrixAdaptor,dense]", [H("mass", mass="dense")]),
        # the second estimator must hold samples at the checkpoint: N not a multiple of swap_every
        ("hmc[MassMatrixAdaptor(swap_every)]",
         [H("mass_swap", swap_every=next(s for s in (5, 4, 6, 7) if Nm % s >= 2))]),
        ("hmc[AdaptiveStepSize+MassMatrixAdaptor]", [H("adaptive", "mass")]),
        ("hmc[DualAveragingStepSize+MassMatrixAdaptor]", [H("dual", "mass")]),
        ("hmc[AdaptiveStepSize]+scaler", [H("adaptive"), dict(kind="scaler")]),
    ]
    for nm, ops in mc:
        add(dict(algo="mcmc", family=f"mcmc:{nm}", operators=ops, N=Nm, K=Km + (6 if "swap" in nm else 0)))
    # the sliding variance window only starts dropping samples after 100 of them
    add(dict(algo="mcmc", family="mcmc:hmc[MassMatrixAdaptor(variance_window)]", operators=[H("mass_window")],
             N=104 + rng.choice([0, 1, 2]), K=Km))
    add(dict(algo="mcmc", family="mcmc:skygrid[GMRFBlockUpdating+slide]", tree=True, operators=[],
             N=rng.choice([24, 30]), K=10))
    for nm, ops in mc:
        if tier == "thorough" or nm in ("scaler+slide+dirichlet", "hmc[AdaptiveStepSize+MassMatrixAdaptor]",
                                       "hmc[DualAveragingStepSize]"):
            add(dict(algo="mcmc", family=f"mcmc:{nm}", operators=ops, N=Nm, K=Km, dtype="float32"))
    return cases


# --------------------------------------------------------------------------- the property on observations

def id_types(cfg, out=None):
    out = {} if out is None else out
    if isinstance(cfg, dict):
        if isinstance(cfg.get("id"), str) and isinstance(cfg.get("type"), str):
            out[cfg["id"]] = cfg["type"].split(".")[-1]
        for v in cfg.values():
            id_types(v, out)
    elif isinstance(cfg, list):
        for v in cfg:
            id_types(v, out)
    return out


def _item_id(c):
    if c.get("$") == "dict":
        for k, v in c["items"]:
            if k == ["str", "id"] and v.get("$") == "str":
                return v["v"]
    return None


def diff_state(a, b, path, types, out):
    """Differences between two canon() pictures.  out: list of (kind, path, detail)."""
    ka, kb = a.get("$"), b.get("$")
    if {ka, kb} == {"tuple", "list"}:
        out.append(("tuple-to-list", path, ""))
        ka = kb = "list"
    if ka != kb:
        out.append(("kind", path, f"{ka} -> {kb}"))
        return
    if ka == "dict":
        da = {tuple(k): v for k, v in a["items"]}
        db = {tuple(k): v for k, v in b["items"]}
        for k, v in da.items():
            if k in db:
                diff_state(v, db[k], f"{path}.{k[1]}" if path else str(k[1]), types, out)
            elif k[0] == "int" and ("str", str(k[1])) in db:
                out.append(("int-key-to-str", path, f"key {k[1]!r} came back as {str(k[1])!r}"))
                diff_state(v, db[("str", str(k[1]))], f"{path}[*]", types, out)
            else:
                out.append(("missing", f"{path}.{k[1]}" if path else str(k[1]), "key absent after restart"))
        for k in db:
            if k not in da and not (k[0] == "str" and ("int", _int(k[1])) in da):
                out.append(("extra", f"{path}.{k[1]}" if path else str(k[1]), "key only present after restart"))
    elif ka == "list":
        if len(a["items"]) != len(b["items"]):
            out.append(("length", path, f"{len(a['items'])} -> {len(b['items'])}"))
            return
        for x, y in zip(a["items"], b["items"]):
            i = _item_id(x)
            comp = f"[{types.get(i, i)}]" if i is not None else "[*]"
            diff_state(x, y, path + comp, types, out)
    elif ka in ("tensor", "param"):
        for f in ("dtype", "nn", "shape", "id"):
            if a.get(f) != b.get(f):
                out.append((f, path, f"{a.get(f)} -> {b.get(f)}"))
        if a["v"] != b["v"] and a["shape"] == b["shape"]:
            out.append(("value", path, f"{_show(a['v'])} -> {_show(b['v'])}"))
    elif a != b:
        out.append(("value", path, f"{_show(a.get('v'))} -> {_show(b.get('v'))}"))


def _int(s):
    try:
        return int(s)
    except ValueError:
        return None


def _show(v):
    def one(x):
        if isinstance(x, str):
            try:
                return repr(float.fromhex(x))
            except ValueError:
                return x
        return repr(x)
    if isinstance(v, list):
        return "[" + ", ".join(one(x) for x in v[:4]) + (", ..." if len(v) > 4 else "") + "]"
    return one(v)


def _close(a, b, dtype):
    """two rows of hex floats (or of mixed values) agree"""
    if len(a) != len(b):
        return False
    tol = 1e-12 if dtype == "float64" else 1e-6
    for x, y in zip(a, b):
        if x == y:
            continue
        try:
            fx, fy = float.fromhex(x), float.fromhex(y)
        except (ValueError, TypeError):
            return False
        if math.isnan(fx) and math.isnan(fy):
            continue
        if not abs(fx - fy) <= tol * max(1.0, abs(fx), abs(fy)):
            return False
    return True


def _rows(traj):
    """trajectory entry -> comparable flat row"""
    out = []
    for lab, r in traj:
        if isinstance(r, dict):
            flat = []
            for pid in sorted(r):
                flat += r[pid][:-1]
            out.append((lab, flat))
        else:
            out.append((lab, r))
    return out


def loop_name(case):
    if case["algo"] == "mcmc":
        return "MCMC.run"
    return "Optimizer._run_closure" if case["algorithm"].endswith("LBFGS") else "Optimizer._run"


def evaluate(case, obs):
    """-> (violations [(key, what, replay)], notes dict)"""
    fam = case["family"]
    rp = dict(case=case)
    v, notes = [], dict(benign_tuple_to_list=0)
    if "plain_run_error" in obs:
        v.append((f"C17:cannot-run:{fam}", f"the uninterrupted run of {case['name']} fails: {obs['plain_run_error']}", rp))
        return v, notes
    N, K = case["N"], case["K"]
    types = id_types(config_for(case, "ck", "log", N + K, 1))
    explained = []
    err = obs.get("restart_error")
    if err and err["before_run"]:
        key = f"C17:restart-raises:{err['site']}:{err['type']}:{err['msg'][:40]}"
        v.append((key, f"restarting {case['name']} from its own checkpoint raises {err['type']}({err['msg']}) in "
                       f"{err['site']}", rp))
        return v, notes
    saved, rest = obs["saved"], obs["restored"]
    # ---- state_dict() before saving vs after restart (iteration counter: judged on behaviour below)
    diffs = []
    diff_state(saved["state"], rest["state"], "", types, diffs)
    for kind, path, detail in diffs:
        if path == "iteration" or path.startswith("iteration"):
            continue
        if kind == "tuple-to-list":
            notes["benign_tuple_to_list"] += 1
            continue
        if kind == "int-key-to-str":
            key = f"C17:int-keys-become-strings:{saved['cls']}:{path}"
            what = (f"{case['name']}: after the restart {saved['cls']}.state_dict()['{path}'] is keyed by strings "
                    f"({detail}); the entries no longer belong to their parameters")
        else:
            key = f"C17:state-not-restored:{saved['cls']}:{path}:{kind}"
            what = f"{case['name']}: {saved['cls']}.state_dict() differs after the restart at {path} ({kind}): {detail}"
        explained.append(key)
        v.append((key, what, rp))
    # ---- parameter tensors
    pa = {p["id"]: p for p in saved["params"]}
    pb = {p["id"]: p for p in rest["params"]}
    for pid in pa:
        if pid not in pb:
            v.append((f"C17:parameter-not-restored:{saved['cls']}:missing", f"{case['name']}: parameter {pid} missing", rp))
            continue
        d = []
        diff_state(pa[pid], pb[pid], pid, {}, d)
        for kind, path, detail in d:
            key = f"C17:parameter-not-restored:{fam}:{kind}:{_spec_kind(case, pid)}"
            explained.append(key)
            v.append((key, f"{case['name']}: parameter {pid} differs after the restart ({kind}): {detail}", rp))
    # ---- the run continued from the checkpoint
    A = dict(_rows(obs["A_traj"]))
    Cr = [r for r in _rows(obs["C_traj"]) if r[0] > 0]
    want = [A[N + 1 + i] for i in range(K)]
    labels = [r[0] for r in Cr]
    depart = None
    for i, (lab, row) in enumerate(Cr):
        ref = A.get(N + 1 + i)
        if ref is None:
            break
        if not _close(row, ref, case["dtype"]):
            depart = i
            break
    loop = loop_name(case)
    if err and not err.get("before_run") and labels[-1:] != [N + K]:
        key = f"C17:resumed-run-raises:{err['site']}:{err['type']}"
        if explained:
            notes["consequence"] = f"the resumed run then raises {err['type']}({err['msg']})"
        else:
            v.append((key, f"{case['name']}: the resumed run raises {err['type']}({err['msg']}) in {err['site']} "
                           f"after {len(labels)} iterations", rp))
            explained.append(key)
    if depart is not None:
        msg = (f"{case['name']}: state number {depart + 1} after the restart is {_show(Cr[depart][1])} but the "
               f"uninterrupted run visits {_show(A[N + 1 + depart])} at iteration {N + 1 + depart}")
        if explained:
            notes["consequence"] = msg
        else:
            v.append((f"C17:resumed-trajectory-differs:{fam}", msg, rp))
    if not (err and not err.get("before_run")):
        if labels == list(range(N, N + K + 1)):
            v.append((f"C17:resume-repeats-iteration:{loop}",
                      f"{case['name']}: the checkpoint written at the end of iteration {N} stores iteration={N} and "
                      f"{loop} restarts AT {N}: the resumed run executes {K + 1} iterations ({N}..{N + K}) where the "
                      f"uninterrupted run executes {K}" + ("" if depart is not None else
                      f"; its states are those of iterations {N + 1}..{N + K + 1}"), rp))
        elif labels != list(range(N + 1, N + K + 1)):
            v.append((f"C17:resume-iteration-labels:{loop}",
                      f"{case['name']}: resumed run executes iterations {labels[:3]}..{labels[-1:]}, expected "
                      f"{N + 1}..{N + K}", rp))
    notes["explained_by"] = explained
    notes["depart"] = depart
    return v, notes


def _spec_kind(case, pid):
    cfg = config_for(case, "ck", "log", 1, 1)

    def find(o):
        if isinstance(o, dict):
            if o.get("id") == pid and o.get("type", "").endswith("Parameter"):
                return o
            for x in o.values():
                r = find(x)
                if r:
                    return r
        elif isinstance(o, list):
            for x in o:
                r = find(x)
                if r:
                    return r
        return None
    spec = find(cfg) or {}
    ks = [k for k in ("full_like", "full", "zeros_like", "zeros", "ones_like", "ones", "eye_like", "eye", "arange")
          if k in spec]
    return (ks[0] if ks else "tensor") + ("+dtype" if "dtype" in spec else "")
