"""C17 — a checkpoint restores the whole run state; resuming continues the same run.

sync   : T5 (harness/translate/t5_state.py) regenerates coq/gen/G_state.v (state_dict/load_state_dict key
         tables, mutable-field tables, run-loop shapes) from the anchored sources.
prove  : coq/prop/C17.v (generic round-trip / resume theorems + the finite per-class table theorems).
impl   : every case is driven through the real command-line entry point torchtree.torchtree.main
         (in-process): run A = uninterrupted run of N+K iterations writing a checkpoint at N,
         run C = restart of the same configuration with `-c <checkpoint written at N>`.
         Observed: state_dict() + parameter tensors at the moment the checkpoint is written and on
         entry to run() after the restart, the exception raised by the restart (if any), and the
         sequence of parameter states visited after N in both runs.
corr   : the model's executable definitions (vm_compute) on the recorded states: JSON round trip,
         restore∘save from the generated tables, run-loop labels; compared with the implementation.
"""
import contextlib
import copy
import io
import json
import math
import os
import random
import shutil
import sys
import time
import traceback

from harness import common as C
from harness.translate import t5_state

PID = "C17"
WORK = os.path.join(C.WORKROOT, PID)

# --------------------------------------------------------------------------- driving the real code


def _torch():
    import torch
    return torch


class _Hooks:
    """Harness-side observation points (the repository is not modified): wraps run() and
    save_full_state() of Optimizer and MCMC while a case executes."""

    def __init__(self, reseed):
        self.reseed = reseed          # int or None: torch.manual_seed at the checkpoint / at run() entry
        self.saved = {}               # label -> snapshot taken right after save_full_state
        self.entry = None             # snapshot on entry to run()
        self.capture_at = None        # epoch whose checkpoint is the interruption point
        self.copy_to = None           # where to copy the checkpoint written at capture_at
        self.saves = []               # labels (self._epoch at save time, and the file written)

    def install(self):
        import torchtree.inference.mcmc.mcmc as M
        import torchtree.optim.optimizer as O
        torch = _torch()
        hooks = self
        self._orig = []

        def wrap_run(cls):
            orig = cls.run

            def run(obj):
                hooks.entry = snapshot(obj)
                if hooks.reseed is not None:
                    torch.manual_seed(hooks.reseed)
                return orig(obj)
            cls.run = run
            self._orig.append((cls, "run", orig))

        def wrap_save(cls):
            orig = cls.save_full_state

            def save_full_state(obj, *a, **kw):
                r = orig(obj, *a, **kw)
                fn = a[0] if a else kw.get("checkpoint", getattr(obj, "checkpoint", None))
                hooks.saves.append(fn)
                if hooks.copy_to is not None and hooks.capture_at is not None and \
                        len(hooks.saves) == hooks.capture_at:
                    shutil.copyfile(fn, hooks.copy_to)
                    hooks.saved = snapshot(obj)
                    if hooks.reseed is not None:
                        torch.manual_seed(hooks.reseed)
                return r
            cls.save_full_state = save_full_state
            self._orig.append((cls, "save_full_state", orig))

        for cls in (O.Optimizer, M.MCMC):
            wrap_run(cls)
            wrap_save(cls)

    def remove(self):
        for cls, name, orig in self._orig:
            setattr(cls, name, orig)


def canon(v):
    """Canonical, JSON-serialisable picture of a live state value.  Keeps what the property is
    about: key types (int vs str), container kinds (tuple vs list), tensor dtype / nn flag / shape."""
    torch = _torch()
    from torchtree.core.abstractparameter import AbstractParameter
    if isinstance(v, AbstractParameter):
        t = v.tensor
        return {"$": "param", "id": v.id, "dtype": str(t.dtype), "nn": isinstance(t, torch.nn.Parameter),
                "shape": list(t.shape), "v": _floats(t)}
    if isinstance(v, torch.Tensor):
        return {"$": "tensor", "dtype": str(v.dtype), "nn": isinstance(v, torch.nn.Parameter),
                "shape": list(v.shape), "v": _floats(v)}
    if isinstance(v, dict):
        return {"$": "dict", "items": [[_ckey(k), canon(x)] for k, x in v.items()]}
    if isinstance(v, tuple):
        return {"$": "tuple", "items": [canon(x) for x in v]}
    if isinstance(v, (list,)) or type(v).__name__ == "deque":
        return {"$": "list", "items": [canon(x) for x in v]}
    if isinstance(v, bool):
        return {"$": "bool", "v": v}
    if isinstance(v, int):
        return {"$": "int", "v": v}
    if isinstance(v, float):
        return {"$": "float", "v": float(v).hex()}
    if v is None:
        return {"$": "none"}
    if isinstance(v, str):
        return {"$": "str", "v": v}
    return {"$": "other", "v": f"{type(v).__name__}:{v!r}"}


def _ckey(k):
    if isinstance(k, bool):
        return ["bool", k]
    if isinstance(k, int):
        return ["int", k]
    if isinstance(k, str):
        return ["str", k]
    return ["other", repr(k)]


def _floats(t):
    t = t.detach().cpu()
    if t.is_floating_point():
        return [float(x).hex() for x in t.double().reshape(-1).tolist()]
    return [int(x) for x in t.reshape(-1).tolist()]


def snapshot(obj):
    sd = obj.state_dict()
    return dict(cls=type(obj).__name__, epoch=obj._epoch, state=canon(sd),
                params=[canon(p) for p in obj.parameters])


def run_main(argv):
    """torchtree.torchtree.main(argv) in-process; returns captured stdout."""
    import torchtree.torchtree as T
    old = sys.argv
    sys.argv = ["torchtree"] + list(argv)
    buf = io.StringIO()
    try:
        with contextlib.redirect_stdout(buf), contextlib.redirect_stderr(buf):
            T.main()
    finally:
        sys.argv = old
    return buf.getvalue()


# --------------------------------------------------------------------------- configurations

def _normal(id_, xid, loc, scale, x, **xkw):
    xp = {"id": xid, "type": "Parameter", "tensor": x}
    xp.update(xkw)
    return {"id": id_, "type": "Distribution", "distribution": "torch.distributions.Normal",
            "parameters": {"loc": loc, "scale": scale}, "x": xp}


def opt_model(case):
    """A smooth deterministic target over parameters of several shapes / kinds."""
    r = random.Random(case["pseed"])
    f = lambda: round(r.uniform(-2, 2), 3)
    s = lambda: round(r.uniform(0.4, 2.5), 3)
    ds = [_normal("d1", "x", [f(), f(), f()], [s(), s(), s()], [f(), f(), f()]),
          _normal("d2", "y", [f()], [s()], [f()], nn=True),
          _normal("d3", "z", [[f(), f()], [f(), f()]], [[s(), s()], [s(), s()]], [[f(), f()], [f(), f()]])]
    if case.get("explicit32"):
        # a parameter with an explicit dtype that differs from the run's default, and one that
        # inherits it through full_like
        ds.append(_normal("d4", "w", [f(), f()], [s(), s()], [f(), f()], dtype="torch.float32"))
        ds.append({"id": "d5", "type": "Distribution", "distribution": "torch.distributions.Normal",
                   "parameters": {"loc": [f(), f()], "scale": [s(), s()]},
                   "x": {"id": "v", "type": "Parameter", "full_like": "w", "tensor": 0.25}})
    return {"id": "joint", "type": "JointDistributionModel", "distributions": ds}


def opt_config(case, ck, iters, freq):
    pars = ["x", "y", "z"] + (["w", "v"] if case.get("explicit32") else [])
    if case.get("groups"):
        pj = [{"params": ["x"], "lr": case["lr"] * 0.5}, {"params": pars[1:]}]
    else:
        pj = pars
    options = dict(case.get("options", {}))
    if case["algorithm"] != "torch.optim.Adafactor" or "lr" in options:
        options.setdefault("lr", case["lr"])
    opt = {"id": "opt", "type": "Optimizer", "algorithm": case["algorithm"], "options": options,
           "maximize": True, "iterations": iters, "checkpoint": ck, "checkpoint_frequency": freq,
           "checkpoint_all": True, "loss": "joint", "parameters": pj}
    if case.get("scheduler"):
        sc = {"id": "sched", "type": "Scheduler"}
        sc.update(case["scheduler"])
        opt["scheduler"] = sc
    return [opt_model(case), opt]


def mcmc_model(case):
    r = random.Random(case["pseed"])
    f = lambda: round(r.uniform(-1, 1), 3)
    s = lambda: round(r.uniform(0.5, 2.0), 3)
    ds = [{"id": "d1", "type": "Distribution", "distribution": "torch.distributions.LogNormal",
           "parameters": {"loc": [f(), f(), f()], "scale": [s(), s(), s()]},
           "x": {"id": "x", "type": "Parameter", "tensor": [round(r.uniform(0.2, 3), 3) for _ in range(3)]}},
          _normal("d2", "y", [f(), f()], [s(), s()], [f(), f()]),
          {"id": "d3", "type": "Distribution", "distribution": "torch.distributions.Dirichlet",
           "parameters": {"concentration": [2.0, 3.0, 1.5, 2.5]},
           "x": {"id": "p", "type": "Parameter", "tensor": [0.1, 0.2, 0.3, 0.4]}}]
    return {"id": "joint", "type": "JointDistributionModel", "distributions": ds}


def _hmc(case, adaptors, mass="diag", **kw):
    mm = {"id": "mm", "type": "Parameter"}
    mm.update({"ones": 2} if mass == "diag" else {"eye": 2})
    op = {"id": "hmc", "type": "HMCOperator", "joint": "joint", "parameters": ["y"], "weight": 1.0,
          "integrator": {"id": "lf", "type": "LeapfrogIntegrator", "steps": 3, "step_size": 0.1},
          "mass_matrix": mm}
    if adaptors:
        op["adaptors"] = adaptors
    op.update(kw)
    return op


ADAPTORS = {
    "adaptive": lambda: {"id": "ad.step", "type": "AdaptiveStepSize", "integrator": "lf"},
    "adaptive_rate": lambda: {"id": "ad.step", "type": "AdaptiveStepSize", "integrator": "lf",
                              "use_acceptance_rate": True, "start": 2},
    "dual": lambda: {"id": "ad.dual", "type": "DualAveragingStepSize", "integrator": "lf"},
    "mass": lambda: {"id": "ad.mass", "type": "MassMatrixAdaptor", "parameters": ["y"], "mass_matrix": "mm",
                     "update_frequency": 2},
    "mass_window": lambda: {"id": "ad.mass", "type": "MassMatrixAdaptor", "parameters": ["y"],
                            "mass_matrix": "mm", "update_frequency": 2, "variance_window": 1},
    "mass_swap": lambda: {"id": "ad.mass", "type": "MassMatrixAdaptor", "parameters": ["y"],
                          "mass_matrix": "mm", "update_frequency": 2, "swap_every": 7},
}


def mcmc_ops(case):
    out = []
    for o in case["operators"]:
        k = o["kind"]
        extra = {x: o[x] for x in ("acceptance_window_length", "disable_adaptation", "weight") if x in o}
        if k == "scaler":
            d = {"id": "op.scaler", "type": "ScalerOperator", "parameters": ["x"], "weight": 1.0, "scaler": 0.5}
        elif k == "slide":
            d = {"id": "op.slide", "type": "SlidingWindowOperator", "parameters": ["y"], "weight": 2.0, "width": 0.5}
        elif k == "slide_xy":
            d = {"id": "op.slide2", "type": "SlidingWindowOperator", "parameters": ["x", "y"], "weight": 1.0,
                 "width": 0.1}
        elif k == "dirichlet":
            d = {"id": "op.dir", "type": "DirichletOperator", "parameters": ["p"], "weight": 1.0, "scaler": 50.0}
        elif k == "hmc":
            d = _hmc(case, [ADAPTORS[a]() for a in o.get("adaptors", [])], o.get("mass", "diag"),
                     **({"find_reasonable_step_size": True} if o.get("frss") else {}))
        else:
            raise ValueError(k)
        d.update(extra)
        out.append(d)
    return out


def mcmc_config(case, ck, log, iters, freq):
    if case.get("tree"):
        return tree_config(case, ck, log, iters, freq)
    return [mcmc_model(case),
            {"id": "mcmc", "type": "MCMC", "joint": "joint", "iterations": iters, "checkpoint": ck,
             "checkpoint_frequency": freq, "every": 0, "operators": mcmc_ops(case),
             "loggers": [{"id": "lg", "type": "Logger", "parameters": ["x", "y", "p"], "file_name": log,
                          "every": 1, "delimiter": "\t"}]}]


_TREE_BASE = None


def tree_config(case, ck, log, iters, freq):
    """The configuration `torchtree-cli mcmc --coalescent skygrid` emits for data/tiny.* (time tree,
    GMRF block-updating operator + sliding windows), produced by the real CLI."""
    global _TREE_BASE
    if _TREE_BASE is None:
        from torchtree.cli import cli as tcli
        old = sys.argv
        sys.argv = ["torchtree-cli", "mcmc", "-i", os.path.join(C.REPO, "data/tiny.fa"), "-t",
                    os.path.join(C.REPO, "data/tiny.nwk"), "--coalescent", "skygrid", "--grid", "3",
                    "--cutoff", "0.05", "--dates", "0", "--clock", "strict", "--rate", "0.01", "--iter", "10",
                    "--stem", os.path.join(WORK, "skg")]
        buf, err = io.StringIO(), io.StringIO()
        try:
            with contextlib.redirect_stdout(buf), contextlib.redirect_stderr(err):
                tcli.main()
        finally:
            sys.argv = old
        _TREE_BASE = json.loads(buf.getvalue())
    j = copy.deepcopy(_TREE_BASE)
    m = [o for o in j if isinstance(o, dict) and o.get("id") == "mcmc"][0]
    m.update(iterations=iters, checkpoint=ck, checkpoint_frequency=freq, every=0)
    for op in m["operators"]:
        if op["type"].startswith("GMRF"):
            op["weight"] = 6.0
    m["loggers"] = [{"id": "lg", "type": "Logger",
                     "parameters": ["tree.ratios.unres", "tree.root_height.unres", "coalescent.theta.log",
                                    "gmrf.precision.unres"],
                     "file_name": log, "every": 1, "delimiter": "\t"}]
    return j


def config_for(case, ck, log, iters, freq):
    if case["algo"] == "optimizer":
        return opt_config(case, ck, iters, freq)
    return mcmc_config(case, ck, log, iters, freq)


# --------------------------------------------------------------------------- one case = runs A and C

def read_log(fn):
    """Logger output -> [(label, [hex floats])]"""
    rows = []
    with open(fn) as f:
        lines = f.read().strip().split("\n")
    for ln in lines[1:]:
        c = ln.split("\t")
        rows.append((int(c[0]), [float(x).hex() for x in c[1:]]))
    return rows


def read_ckpts(d, stem):
    """checkpoint_all files stem-<label>.json -> [(label, {param id: [hex floats]}, algorithm state)]"""
    out = []
    for fn in os.listdir(d):
        if fn.startswith(stem + "-") and fn.endswith(".json"):
            lab = int(fn[len(stem) + 1:-5])
            j = json.load(open(os.path.join(d, fn)))
            ps = {p["id"]: [float(x).hex() for x in _flat(p["tensor"])] + [p["dtype"]] for p in j[1:]}
            out.append((lab, ps, j[0]))
    return sorted(out, key=lambda r: r[0])


def _flat(v):
    if isinstance(v, list):
        return [y for x in v for y in _flat(x)]
    return [v]


def run_case(case):
    """-> observation dict (JSON-serialisable)."""
    N, K = case["N"], case["K"]
    d = os.path.join(WORK, "runs", case["name"])
    shutil.rmtree(d, ignore_errors=True)
    os.makedirs(os.path.join(d, "A"))
    os.makedirs(os.path.join(d, "C"))
    is_opt = case["algo"] == "optimizer"
    reseed = None if is_opt else case["seed"] + 7919
    args = ["--dtype", case["dtype"], "-s", str(case["seed"])]
    obs = dict(name=case["name"], N=N, K=K)
    ck_at_n = os.path.join(d, "at_N.json")
    # ---- run A: uninterrupted
    cfgA = os.path.join(d, "A", "config.json")
    json.dump(config_for(case, os.path.join(d, "A", "ck.json"), os.path.join(d, "A", "log.tsv"), N + K,
                         1 if is_opt else N), open(cfgA, "w"))
    h = _Hooks(reseed)
    h.capture_at = N if is_opt else 1
    h.copy_to = ck_at_n
    h.install()
    try:
        try:
            run_main([cfgA] + args)
        except Exception as e:          # a failure of the plain run is not a checkpoint matter
            obs["plain_run_error"] = f"{type(e).__name__}: {e}"
            obs["trace"] = traceback.format_exc()[-1500:]
            return obs
    finally:
        h.remove()
    if not h.saved:
        obs["plain_run_error"] = "no checkpoint written at N"
        return obs
    obs["saved"] = h.saved
    obs["A_saves"] = [os.path.basename(s) for s in h.saves]
    if is_opt:
        obs["A_traj"] = [(lab, ps) for lab, ps, _ in read_ckpts(os.path.join(d, "A"), "ck")]
        obs["A_final_state"] = read_ckpts(os.path.join(d, "A"), "ck")[-1][2]
    else:
        obs["A_traj"] = read_log(os.path.join(d, "A", "log.tsv"))
    obs["checkpoint_text"] = open(ck_at_n).read()
    # ---- run C: restart from the checkpoint written at N
    cfgC = os.path.join(d, "C", "config.json")
    json.dump(config_for(case, os.path.join(d, "C", "ck.json"), os.path.join(d, "C", "log.tsv"), N + K,
                         1 if is_opt else 10 ** 6), open(cfgC, "w"))
    h = _Hooks(reseed)
    h.install()
    try:
        try:
            run_main([cfgC, "-c", ck_at_n] + args)
        except Exception as e:
            tb = traceback.extract_tb(e.__traceback__)
            site = next((f"{os.path.basename(fr.filename)}:{fr.name}" for fr in reversed(tb)
                         if "/torchtree/" in fr.filename), "?")
            obs["restart_error"] = dict(type=type(e).__name__, msg=str(e)[:200], site=site,
                                        before_run=h.entry is None)
    finally:
        h.remove()
    obs["restored"] = h.entry
    obs["C_saves"] = [os.path.basename(s) for s in h.saves]
    if is_opt:
        obs["C_traj"] = [(lab, ps) for lab, ps, _ in read_ckpts(os.path.join(d, "C"), "ck")]
        cks = read_ckpts(os.path.join(d, "C"), "ck")
        obs["C_final_state"] = cks[-1][2] if cks else None
    elif os.path.exists(os.path.join(d, "C", "log.tsv")):
        obs["C_traj"] = [r for r in read_log(os.path.join(d, "C", "log.tsv"))]
    else:
        obs["C_traj"] = []
    return obs
