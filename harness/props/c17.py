"""C17 — a checkpoint restores the whole run state; resuming continues the same run.

sync   : T5 (harness/translate/t5_state.py) regenerates coq/gen/G_state.v (state_dict/load_state_dict key
         tables, mutable-field tables, run-loop shapes) from the anchored sources.
prove  : coq/prop/C17.v (generic round-trip / resume theorems + the finite per-class table theorems).
impl   : every case is driven through the real command-line entry point torchtree.torchtree.main
         (in-process): run A = uninterrupted run of N+K iterations writing a checkpoint at N,
         run C = restart of the same configuration with `-c <checkpoint written at N>`.
         Observed: state_dict() + parameter tensors at the moment the checkpoint is written and on
         entry to run() after the restart, the exception raised by the restart (if any), and the
         sequence of parameter states visited after N in both runs.
corr   : the model's executable definitions (vm_compute) on the recorded states: JSON round trip,
         restore∘save from the generated tables, run-loop labels; compared with the implementation.
"""
import contextlib
import copy
import io
import json
import math
import os
import random
import shutil
import sys
import time
import traceback

from harness import common as C
from harness import impl
from harness.translate import t5_state

PID = "C17"
WORK = os.path.join(C.WORKROOT, PID)

# --------------------------------------------------------------------------- driving the real code


def _torch():
    import torch
    return torch


def _site(e):
    """Class.method of the innermost torchtree frame of an exception"""
    tb = e.__traceback__
    site = "?"
    while tb is not None:
        fr = tb.tb_frame
        if "/torchtree/" in fr.f_code.co_filename:
            slf = fr.f_locals.get("self")
            site = (type(slf).__name__ + "." if slf is not None else
                    os.path.basename(fr.f_code.co_filename) + ":") + fr.f_code.co_name
        tb = tb.tb_next
    return site


def _supply(d, key):
    """what-if experiment: put a placeholder under `key` into every nested state dictionary lacking it"""
    if isinstance(d, dict):
        if "id" in d and key not in d:
            d[key] = 0
        for v in d.values():
            _supply(v, key)
    elif isinstance(d, list):
        for v in d:
            _supply(v, key)


class _Hooks:
    """Harness-side observation points (the repository is not modified): wraps run(),
    save_full_state() and load_state_dict() of Optimizer and MCMC while a case executes."""

    def __init__(self, reseed, info=None):
        self.reseed = reseed          # int or None: torch.manual_seed at the checkpoint / at run() entry
        self.info = info              # T5 tables (for the projection of live objects); None = no projection
        self.saved = {}               # snapshot taken right after the save_full_state that is the interruption point
        self.entry = None             # snapshot on entry to run()
        self.capture_at = None        # which save (1-based) is the interruption point
        self.copy_to = None           # where to copy the checkpoint written there
        self.saves = []               # (file written, _epoch at that moment, "iteration" written)
        self.load = None              # what load_state_dict did on the restart

    def install(self):
        import torchtree.inference.mcmc.mcmc as M
        import torchtree.optim.optimizer as O
        torch = _torch()
        hooks = self
        self._orig = []

        def wrap_run(cls):
            orig = cls.run

            def run(obj):
                hooks.entry = snapshot(obj)
                if hooks.reseed is not None:
                    torch.manual_seed(hooks.reseed)
                return orig(obj)
            cls.run = run
            self._orig.append((cls, "run", orig))

        def wrap_save(cls):
            orig = cls.save_full_state

            def save_full_state(obj, *a, **kw):
                r = orig(obj, *a, **kw)
                fn = a[0] if a else kw.get("checkpoint", getattr(obj, "checkpoint", None))
                hooks.saves.append((fn, obj._epoch, obj.state_dict().get("iteration")))
                if hooks.copy_to is not None and hooks.capture_at is not None and \
                        len(hooks.saves) == hooks.capture_at:
                    shutil.copyfile(fn, hooks.copy_to)
                    hooks.saved = snapshot(obj)
                    if hooks.info is not None:
                        hooks.saved["proj"] = project(obj, hooks.info)
                        hooks.saved["sd"] = pv_of(obj.state_dict())
                    if hooks.reseed is not None:
                        torch.manual_seed(hooks.reseed)
                return r
            cls.save_full_state = save_full_state
            self._orig.append((cls, "save_full_state", orig))

        def wrap_load(cls):
            orig = cls.load_state_dict

            def load_state_dict(obj, sd):
                rec = hooks.load = dict(cls=type(obj).__name__)
                if hooks.info is not None:
                    rec["s0"] = project(obj, hooks.info)
                try:
                    r = orig(obj, sd)
                except Exception as e:
                    rec["error"] = dict(type=type(e).__name__, msg=str(e)[:200], site=_site(e))
                    # what-if: with the missing key(s) supplied, is the rest of the state restored?
                    if isinstance(e, KeyError) and hooks.info is not None:
                        sd2 = copy.deepcopy(sd)
                        supplied = []
                        err = e
                        for _ in range(4):
                            k = err.args[0] if err.args else None
                            if not isinstance(k, str):
                                break
                            supplied.append(k)
                            _supply(sd2, k)
                            try:
                                orig(obj, sd2)
                                rec["supplied"] = supplied
                                rec["s1_whatif"] = project(obj, hooks.info)
                                break
                            except KeyError as e2:
                                err = e2
                            except Exception:
                                break
                    raise
                if hooks.info is not None:
                    rec["s1"] = project(obj, hooks.info)
                return r
            cls.load_state_dict = load_state_dict
            self._orig.append((cls, "load_state_dict", orig))

        for cls in (O.Optimizer, M.MCMC):
            wrap_run(cls)
            wrap_save(cls)
            wrap_load(cls)

    def remove(self):
        for cls, name, orig in self._orig:
            setattr(cls, name, orig)


def canon(v):
    """Canonical, JSON-serialisable picture of a live state value.  Keeps what the property is
    about: key types (int vs str), container kinds (tuple vs list), tensor dtype / nn flag / shape."""
    torch = _torch()
    from torchtree.core.abstractparameter import AbstractParameter
    if isinstance(v, AbstractParameter):
        t = v.tensor
        return {"$": "param", "id": v.id, "dtype": str(t.dtype), "nn": isinstance(t, torch.nn.Parameter),
                "shape": list(t.shape), "v": _floats(t)}
    if isinstance(v, torch.Tensor):
        return {"$": "tensor", "dtype": str(v.dtype), "nn": isinstance(v, torch.nn.Parameter),
                "shape": list(v.shape), "v": _floats(v)}
    if isinstance(v, dict):
        return {"$": "dict", "items": [[_ckey(k), canon(x)] for k, x in v.items()]}
    if isinstance(v, tuple):
        return {"$": "tuple", "items": [canon(x) for x in v]}
    if isinstance(v, (list,)) or type(v).__name__ == "deque":
        return {"$": "list", "items": [canon(x) for x in v]}
    if isinstance(v, bool):
        return {"$": "bool", "v": v}
    if isinstance(v, int):
        return {"$": "int", "v": v}
    if isinstance(v, float):
        return {"$": "float", "v": float(v).hex()}
    if v is None:
        return {"$": "none"}
    if isinstance(v, str):
        return {"$": "str", "v": v}
    return {"$": "other", "v": f"{type(v).__name__}:{v!r}"}


def _ckey(k):
    if isinstance(k, bool):
        return ["bool", k]
    if isinstance(k, int):
        return ["int", k]
    if isinstance(k, str):
        return ["str", k]
    return ["other", repr(k)]


def _floats(t):
    t = t.detach().cpu()
    if t.is_floating_point():
        return [float(x).hex() for x in t.double().reshape(-1).tolist()]
    return [int(x) for x in t.reshape(-1).tolist()]


def snapshot(obj):
    sd = obj.state_dict()
    return dict(cls=type(obj).__name__, epoch=obj._epoch, state=canon(sd),
                params=[canon(p) for p in obj.parameters])


def run_main(argv):
    """torchtree.torchtree.main(argv) in-process; returns captured stdout."""
    import torchtree.torchtree as T
    old = sys.argv
    sys.argv = ["torchtree"] + list(argv)
    buf = io.StringIO()
    try:
        with contextlib.redirect_stdout(buf), contextlib.redirect_stderr(buf):
            T.main()
    finally:
        sys.argv = old
    return buf.getvalue()


# --------------------------------------------------------------------------- configurations

def _normal(id_, xid, loc, scale, x, **xkw):
    xp = {"id": xid, "type": "Parameter", "tensor": x}
    xp.update(xkw)
    return {"id": id_, "type": "Distribution", "distribution": "torch.distributions.Normal",
            "parameters": {"loc": loc, "scale": scale}, "x": xp}


def opt_model(case):
    """A smooth deterministic target over parameters of several shapes / kinds."""
    r = random.Random(case["pseed"])
    f = lambda: round(r.uniform(-2, 2), 3)
    s = lambda: round(r.uniform(0.4, 2.5), 3)
    ds = [_normal("d1", "x", [f(), f(), f()], [s(), s(), s()], [f(), f(), f()]),
          _normal("d2", "y", [f()], [s()], [f()], nn=True),
          # (a 2-D x would be read as [samples, dim] by Distribution._sample_shape: the library's
          #  convention is that leading dimensions are sample dimensions)
          _normal("d3", "z", [f(), f(), f(), f()], [s(), s(), s(), s()], [f(), f(), f(), f()])]
    if case.get("explicit32"):
        # a parameter with an explicit dtype that differs from the run's default, and one that
        # inherits it through full_like
        ds.append(_normal("d4", "w", [f(), f()], [s(), s()], [f(), f()], dtype="torch.float32"))
        ds.append({"id": "d5", "type": "Distribution", "distribution": "torch.distributions.Normal",
                   "parameters": {"loc": [f(), f()], "scale": [s(), s()]},
                   "x": {"id": "v", "type": "Parameter", "full_like": "w", "tensor": 0.25}})
    if case.get("plate"):
        # optimised parameters DEFINED INSIDE A PLATE (both numbering forms): their ids exist only after expansion
        ds.append({"type": "Plate", "range": "0:3", "var": "i",
                   "object": _normal("dp.${i}", "xp.${i}", [f()], [s()], [f()])})
        ds.append({"type": "Plate", "range": "0:2",
                   "object": _normal("dq*", "xq*", [f(), f()], [s(), s()], [f(), f()])})
    if case.get("unused"):
        # a parameter the loss does not depend on (the optimiser keeps no state for it), registered on its own
        return [{"id": "u", "type": "Parameter", "tensor": [f(), f()]},
                {"id": "joint", "type": "JointDistributionModel", "distributions": ds}]
    return {"id": "joint", "type": "JointDistributionModel", "distributions": ds}


def opt_config(case, ck, iters, freq):
    pars = ["x", "y", "z"] + (["w", "v"] if case.get("explicit32") else [])
    if case.get("unused"):
        pars = ["x", "u", "y", "z"]
    if case.get("plate"):
        pars = pars + ["xp.0", "xp.1", "xp.2", "xq0", "xq1"]
    if case.get("groups"):
        pj = [{"params": ["x"], "lr": case["lr"] * 0.5}, {"params": pars[1:]}]
    else:
        pj = pars
    options = dict(case.get("options", {}))
    if case["algorithm"] != "torch.optim.Adafactor" or "lr" in options:
        options.setdefault("lr", case["lr"])
    opt = {"id": "opt", "type": "Optimizer", "algorithm": case["algorithm"], "options": options,
           "maximize": True, "iterations": iters, "checkpoint": ck, "checkpoint_frequency": freq,
           "checkpoint_all": True, "loss": "joint", "parameters": pj}
    if case.get("scheduler"):
        sc = {"id": "sched", "type": "Scheduler"}
        sc.update(case["scheduler"])
        opt["scheduler"] = sc
    m = opt_model(case)
    return (m if isinstance(m, list) else [m]) + [opt]


def mcmc_model(case):
    r = random.Random(case["pseed"])
    f = lambda: round(r.uniform(-1, 1), 3)
    s = lambda: round(r.uniform(0.5, 2.0), 3)
    ds = [{"id": "d1", "type": "Distribution", "distribution": "torch.distributions.LogNormal",
           "parameters": {"loc": [f(), f(), f()], "scale": [s(), s(), s()]},
           "x": {"id": "x", "type": "Parameter", "tensor": [round(r.uniform(0.2, 3), 3) for _ in range(3)]}},
          _normal("d2", "y", [f(), f()], [s(), s()], [f(), f()]),
          {"id": "d3", "type": "Distribution", "distribution": "torch.distributions.Dirichlet",
           "parameters": {"concentration": [2.0, 3.0, 1.5, 2.5]},
           "x": {"id": "p", "type": "Parameter", "tensor": [0.1, 0.2, 0.3, 0.4]}}]
    return {"id": "joint", "type": "JointDistributionModel", "distributions": ds}


def _hmc(case, adaptors, mass="diag", **kw):
    mm = {"id": "mm", "type": "Parameter"}
    mm.update({"ones": 2} if mass == "diag" else {"eye": 2})
    op = {"id": "hmc", "type": "HMCOperator", "joint": "joint", "parameters": ["y"], "weight": 1.0,
          "integrator": {"id": "lf", "type": "LeapfrogIntegrator", "steps": 3, "step_size": 0.1},
          "mass_matrix": mm}
    if adaptors:
        op["adaptors"] = adaptors
    op.update(kw)
    return op


ADAPTORS = {
    "adaptive": lambda: {"id": "ad.step", "type": "AdaptiveStepSize", "integrator": "lf"},
    "adaptive_rate": lambda: {"id": "ad.step", "type": "AdaptiveStepSize", "integrator": "lf",
                              "use_acceptance_rate": True, "start": 2},
    "dual": lambda: {"id": "ad.dual", "type": "DualAveragingStepSize", "integrator": "lf"},
    "dual_late": lambda: {"id": "ad.dual", "type": "DualAveragingStepSize", "integrator": "lf", "start": 4},
    "mass": lambda: {"id": "ad.mass", "type": "MassMatrixAdaptor", "parameters": ["y"], "mass_matrix": "mm",
                     "update_frequency": 2},
    "mass_window": lambda: {"id": "ad.mass", "type": "MassMatrixAdaptor", "parameters": ["y"],
                            "mass_matrix": "mm", "update_frequency": 2, "variance_window": 1},
    "mass_swap": lambda: {"id": "ad.mass", "type": "MassMatrixAdaptor", "parameters": ["y"],
                          "mass_matrix": "mm", "update_frequency": 2, "swap_every": 5},
}


def mcmc_ops(case):
    out = []
    for o in case["operators"]:
        k = o["kind"]
        extra = {x: o[x] for x in ("acceptance_window_length", "disable_adaptation", "weight") if x in o}
        if k == "scaler":
            d = {"id": "op.scaler", "type": "ScalerOperator", "parameters": ["x"], "weight": 1.0, "scaler": 0.5}
        elif k == "slide":
            d = {"id": "op.slide", "type": "SlidingWindowOperator", "parameters": ["y"], "weight": 2.0, "width": 0.5}
        elif k == "slide_xy":
            d = {"id": "op.slide2", "type": "SlidingWindowOperator", "parameters": ["x", "y"], "weight": 1.0,
                 "width": 0.1}
        elif k == "dirichlet":
            d = {"id": "op.dir", "type": "DirichletOperator", "parameters": ["p"], "weight": 1.0, "scaler": 50.0}
        elif k == "hmc":
            ads = []
            for a in o.get("adaptors", []):
                ad = ADAPTORS[a]()
                if "swap_every" in ad:
                    ad["swap_every"] = o.get("swap_every", ad["swap_every"])
                ads.append(ad)
            d = _hmc(case, ads, o.get("mass", "diag"),
                     **({"find_reasonable_step_size": True} if o.get("frss") else {}))
        else:
            raise ValueError(k)
        d.update(extra)
        out.append(d)
    return out


def mcmc_config(case, ck, log, iters, freq):
    if case.get("tree"):
        return tree_config(case, ck, log, iters, freq)
    return [mcmc_model(case),
            {"id": "mcmc", "type": "MCMC", "joint": "joint", "iterations": iters, "checkpoint": ck,
             "checkpoint_frequency": freq, "every": 0, "operators": mcmc_ops(case),
             "loggers": [{"id": "lg", "type": "Logger", "parameters": ["x", "y", "p"], "file_name": log,
                          "every": 1, "delimiter": "\t"}]}]


_TREE_BASE = None


def tree_config(case, ck, log, iters, freq):
    """The configuration `torchtree-cli mcmc --coalescent skygrid` emits for data/tiny.* (time tree,
    GMRF block-updating operator + sliding windows), produced by the real CLI."""
    global _TREE_BASE
    if _TREE_BASE is None:
        from torchtree.cli import cli as tcli
        old = sys.argv
        sys.argv = ["torchtree-cli", "mcmc", "-i", os.path.join(C.REPO, "data/tiny.fa"), "-t",
                    os.path.join(C.REPO, "data/tiny.nwk"), "--coalescent", "skygrid", "--grid", "3",
                    "--cutoff", "0.05", "--dates", "0", "--clock", "strict", "--rate", "0.01", "--iter", "10",
                    "--stem", os.path.join(WORK, "skg")]
        buf, err = io.StringIO(), io.StringIO()
        try:
            with contextlib.redirect_stdout(buf), contextlib.redirect_stderr(err):
                tcli.main()
        finally:
            sys.argv = old
        _TREE_BASE = json.loads(buf.getvalue())
    j = copy.deepcopy(_TREE_BASE)
    m = [o for o in j if isinstance(o, dict) and o.get("id") == "mcmc"][0]
    m.update(iterations=iters, checkpoint=ck, checkpoint_frequency=freq, every=0)
    for op in m["operators"]:
        op["weight"] = 1.0
    m["loggers"] = [{"id": "lg", "type": "Logger",
                     "parameters": ["tree.ratios.unres", "tree.root_height.unres", "coalescent.theta.log",
                                    "gmrf.precision.unres"],
                     "file_name": log, "every": 1, "delimiter": "\t"}]
    return j


def config_for(case, ck, log, iters, freq):
    if case["algo"] == "optimizer":
        return opt_config(case, ck, iters, freq)
    return mcmc_config(case, ck, log, iters, freq)


# --------------------------------------------------------------------------- one case = runs A and C

def read_log(fn):
    """Logger output -> [(label, [hex floats])]"""
    rows = []
    with open(fn) as f:
        lines = f.read().strip().split("\n")
    for ln in lines[1:]:
        c = ln.split("\t")
        rows.append((int(c[0]), [float(x).hex() for x in c[1:]]))
    return rows


def read_ckpts(d, stem):
    """checkpoint_all files stem-<label>.json -> [(label, {param id: [hex floats]}, algorithm state)]"""
    out = []
    for fn in os.listdir(d):
        if fn.startswith(stem + "-") and fn.endswith(".json"):
            lab = int(fn[len(stem) + 1:-5])
            j = json.load(open(os.path.join(d, fn)))
            ps = {p["id"]: [float(x).hex() for x in _flat(p["tensor"])] + [p["dtype"]] for p in j[1:]}
            out.append((lab, ps, j[0]))
    return sorted(out, key=lambda r: r[0])


def _flat(v):
    if isinstance(v, list):
        return [y for x in v for y in _flat(x)]
    return [v]


def run_case(case, info=None):
    """-> observation dict (JSON-serialisable)."""
    N, K = case["N"], case["K"]
    d = os.path.join(WORK, "runs", case["name"])
    shutil.rmtree(d, ignore_errors=True)
    os.makedirs(os.path.join(d, "A"))
    os.makedirs(os.path.join(d, "C"))
    is_opt = case["algo"] == "optimizer"
    reseed = None if is_opt else case["seed"] + 7919
    args = ["--dtype", case["dtype"], "-s", str(case["seed"])]
    obs = dict(name=case["name"], N=N, K=K)
    ck_at_n = os.path.join(d, "at_N.json")
    # ---- run A: uninterrupted
    cfgA = os.path.join(d, "A", "config.json")
    json.dump(config_for(case, os.path.join(d, "A", "ck.json"), os.path.join(d, "A", "log.tsv"), N + K,
                         1 if is_opt else N), open(cfgA, "w"))
    h = _Hooks(reseed, info)
    h.capture_at = N if is_opt else 1
    h.copy_to = ck_at_n
    h.install()
    try:
        try:
            run_main([cfgA] + args)
        except Exception as e:
            obs["plain_run_error"] = f"{type(e).__name__}: {e}"
            obs["trace"] = traceback.format_exc()[-1500:]
    finally:
        h.remove()
    if "plain_run_error" in obs:
        # an exception after the last iteration was logged (e.g. the closing statistics of MCMC.run
        # divide by zero for an operator that was never drawn) does not concern checkpointing
        done = h.saved and (is_opt or (os.path.exists(os.path.join(d, "A", "log.tsv"))
                                       and read_log(os.path.join(d, "A", "log.tsv"))[-1][0] == N + K))
        if not done:
            return obs
        obs["plain_run_tail_error"] = obs.pop("plain_run_error")
    if not h.saved:
        obs["plain_run_error"] = "no checkpoint written at N"
        return obs
    obs["saved"] = h.saved
    obs["A_saves"] = [(os.path.basename(f), e, it) for f, e, it in h.saves]
    if is_opt:
        obs["A_traj"] = [(lab, ps) for lab, ps, _ in read_ckpts(os.path.join(d, "A"), "ck")]
        obs["A_final_state"] = read_ckpts(os.path.join(d, "A"), "ck")[-1][2]
    else:
        obs["A_traj"] = read_log(os.path.join(d, "A", "log.tsv"))
    obs["checkpoint_text"] = open(ck_at_n).read()
    # ---- run C: restart from the checkpoint written at N
    cfgC = os.path.join(d, "C", "config.json")
    json.dump(config_for(case, os.path.join(d, "C", "ck.json"), os.path.join(d, "C", "log.tsv"), N + K,
                         1 if is_opt else 10 ** 6), open(cfgC, "w"))
    h = _Hooks(reseed, info)
    h.install()
    try:
        try:
            run_main([cfgC, "-c", ck_at_n] + args)
        except Exception as e:
            obs["restart_error"] = dict(type=type(e).__name__, msg=str(e)[:200], site=_site(e),
                                        before_run=h.entry is None)
    finally:
        h.remove()
    obs["restored"] = h.entry
    obs["load"] = h.load
    obs["C_saves"] = [(os.path.basename(f), e, it) for f, e, it in h.saves]
    if is_opt:
        obs["C_traj"] = [(lab, ps) for lab, ps, _ in read_ckpts(os.path.join(d, "C"), "ck")]
        cks = read_ckpts(os.path.join(d, "C"), "ck")
        obs["C_final_state"] = cks[-1][2] if cks else None
    elif os.path.exists(os.path.join(d, "C", "log.tsv")):
        obs["C_traj"] = [r for r in read_log(os.path.join(d, "C", "log.tsv"))]
    else:
        obs["C_traj"] = []
    return obs


def two_runnables_check():
    """A specification with TWO checkpointing runnables (each writes its own checkpoint), interrupted while the second
    one runs, restarted with both checkpoint files given (`-c a -c b`, in either order): the final parameters must be
    those of the uninterrupted run.  -> list of (key, text, replay)"""
    d = os.path.join(WORK, "runs", "two-runnables")
    shutil.rmtree(d, ignore_errors=True)
    os.makedirs(d)
    T, N = 9, 4

    def cfg(tag, it1, it2):
        ds = [_normal("d1", "x", [0.7, -0.4], [1.3, 0.8], [0.1, 0.2]), _normal("d2", "y", [-1.1], [0.6], [0.5])]
        # (each optimizer has its own target: two optimizers over one cached joint cannot back-propagate twice)
        j1 = {"id": "joint1", "type": "JointDistributionModel", "distributions": ds[:1]}
        j2 = {"id": "joint2", "type": "JointDistributionModel", "distributions": ds[1:]}
        mk = lambda i, par, its: {"id": f"opt{i}", "type": "Optimizer", "algorithm": "torch.optim.Adam",
                                  "options": {"lr": 0.05}, "maximize": True, "iterations": its,
                                  "checkpoint": os.path.join(d, f"{tag}_ck{i}.json"), "checkpoint_frequency": 1,
                                  "loss": f"joint{i}", "parameters": [par]}
        fn = os.path.join(d, f"{tag}.json")
        json.dump([j1, j2, mk(1, "x", it1), mk(2, "y", it2)], open(fn, "w"))
        return fn

    def final(tag):
        out = {}
        for i in (1, 2):
            j = json.load(open(os.path.join(d, f"{tag}_ck{i}.json")))
            for p in j[1:]:
                out[p["id"]] = [float(v) for v in _flat(p["tensor"])]
        return out
    args = ["--dtype", "float64", "-s", "1"]
    found = []
    try:
        run_main([cfg("A", T, T)] + args)                       # uninterrupted
        want = final("A")
        run_main([cfg("B", T, N)] + args)                       # stopped while the second runnable is at iteration N
        for order in ((1, 2), (2, 1)):
            tag = f"C{order[0]}{order[1]}"
            fn = cfg(tag, T, T)
            cks = [a for i in order for a in ("-c", os.path.join(d, f"B_ck{i}.json"))]
            run_main([fn] + cks + args)
            got = {}
            for i in (1, 2):
                # a runnable that had finished writes no new checkpoint: its parameters are those of its last one
                fck = os.path.join(d, f"{tag}_ck{i}.json")
                j = json.load(open(fck if os.path.exists(fck) else os.path.join(d, f"B_ck{i}.json")))
                for p in j[1:]:
                    got[p["id"]] = [float(v) for v in _flat(p["tensor"])]
            bad = [k for k in want if k not in got or any(abs(a - b) > 1e-12 * max(1.0, abs(b))
                                                          for a, b in zip(got[k], want[k]))]
            if bad:
                found.append(("C17:two-runnables:restart-with-several-checkpoint-files",
                              f"two optimizers, the second interrupted at iteration {N}; restarted with -c "
                              f"ck{order[0]} -c ck{order[1]}: final {bad} = {[got.get(k) for k in bad]} but the "
                              f"uninterrupted run ends at {[want[k] for k in bad]}",
                              dict(order=list(order), got=got, want=want)))
    except Exception as e:  # noqa
        found.append((f"C17:two-runnables:raises:{type(e).__name__}", f"{type(e).__name__}: {str(e)[:200]}", {}))
    return found


# --------------------------------------------------------------------------- case lists

OPTIMISERS = [
    ("Adam", "torch.optim.Adam", {}),
    ("Adam-amsgrad", "torch.optim.Adam", {"amsgrad": True}),
    ("AdamW", "torch.optim.AdamW", {"weight_decay": 0.01}),
    ("SGD", "torch.optim.SGD", {}),
    ("SGD-momentum", "torch.optim.SGD", {"momentum": 0.9, "nesterov": True}),
    ("Adagrad", "torch.optim.Adagrad", {}),
    ("RMSprop", "torch.optim.RMSprop", {"momentum": 0.5, "centered": True}),
    ("Adadelta", "torch.optim.Adadelta", {}),
    ("Adamax", "torch.optim.Adamax", {}),
    ("NAdam", "torch.optim.NAdam", {}),
    ("RAdam", "torch.optim.RAdam", {}),
    ("ASGD", "torch.optim.ASGD", {}),
    ("Rprop", "torch.optim.Rprop", {}),
    ("Adafactor", "torch.optim.Adafactor", {}),
    ("LBFGS", "torch.optim.LBFGS", {"max_iter": 2, "history_size": 3}),
]
# not driven: SparseAdam (needs sparse gradients, torchtree has none), Muon (2-D parameters only)

_S = "torch.optim.lr_scheduler."


def schedulers(N, K):
    return [
        ("StepLR", {"scheduler": _S + "StepLR", "step_size": 2, "gamma": 0.7}),
        ("MultiStepLR", {"scheduler": _S + "MultiStepLR", "milestones": [2, N + 2], "gamma": 0.5}),
        ("ExponentialLR", {"scheduler": _S + "ExponentialLR", "gamma": 0.9}),
        ("CosineAnnealingLR", {"scheduler": _S + "CosineAnnealingLR", "T_max": N + K + 3}),
        ("LinearLR", {"scheduler": _S + "LinearLR", "total_iters": N + 2}),
        ("ConstantLR", {"scheduler": _S + "ConstantLR", "total_iters": N + 2, "factor": 0.5}),
        ("PolynomialLR", {"scheduler": _S + "PolynomialLR", "total_iters": N + K + 3, "power": 2.0}),
        ("OneCycleLR", {"scheduler": _S + "OneCycleLR", "max_lr": 0.2, "total_steps": N + K + 6,
                        "cycle_momentum": False}),
        ("CyclicLR", {"scheduler": _S + "CyclicLR", "base_lr": 0.01, "max_lr": 0.2, "step_size_up": 3,
                      "cycle_momentum": False}),
        ("CosineAnnealingWarmRestarts", {"scheduler": _S + "CosineAnnealingWarmRestarts", "T_0": 3}),
        ("LambdaLR", {"scheduler": _S + "LambdaLR", "lr_lambda": "lambda epoch: 0.9 ** epoch"}),
        ("MultiplicativeLR", {"scheduler": _S + "MultiplicativeLR", "lr_lambda": "lambda epoch: 0.95"}),
    ]
# not driven: ReduceLROnPlateau (step() needs a metric, Optimizer._run passes none), SequentialLR /
# ChainedScheduler (take scheduler objects, not expressible in the JSON specification)


def make_cases(tier, seed):
    """quick: one interruption point per configuration; thorough: three, all optimisers in float32 too"""
    rng = random.Random(seed)
    cases = []
    for rnd in range(3 if tier == "thorough" else 1):
        _batch(rng, tier, cases, "" if rnd == 0 else f"#{rnd + 1}")
    return cases


def _batch(rng, tier, cases, suffix):
    def add(c):
        c.setdefault("dtype", "float64")
        c["seed"] = rng.randrange(1, 10 ** 6)
        c["pseed"] = rng.randrange(1, 10 ** 6)
        c["name"] = c["family"] + "-" + c["dtype"] + suffix
        cases.append(c)

    seed = rng.randrange(10 ** 6)
    N = rng.choice([4, 5, 6] if not suffix else [2, 3, 7, 9])
    K = rng.choice([4, 5])
    sch = schedulers(N, K)
    for i, (nm, alg, opts) in enumerate(OPTIMISERS):
        lr = 1.0 if nm in ("LBFGS", "Adadelta") else 0.05
        add(dict(algo="optimizer", family=f"opt:{nm}", algorithm=alg, options=opts, lr=lr, N=N, K=K))
        if nm == "LBFGS":
            continue
        # every optimiser meets one scheduler (rotating), every scheduler meets Adam and SGD-momentum
        snm, sc = sch[(i + seed) % len(sch)]
        if tier == "thorough" or i % 2 == 0:
            add(dict(algo="optimizer", family=f"opt:{nm}+{snm}", algorithm=alg, options=opts, lr=lr, N=N, K=K,
                     scheduler=sc))
    for snm, sc in sch:
        add(dict(algo="optimizer", family=f"opt:Adam+{snm}", algorithm="torch.optim.Adam", options={}, lr=0.05,
                 N=N, K=K, scheduler=sc))
        if tier == "thorough":
            add(dict(algo="optimizer", family=f"opt:SGD-momentum+{snm}", algorithm="torch.optim.SGD",
                     options={"momentum": 0.9}, lr=0.05, N=N, K=K, scheduler=sc))
    add(dict(algo="optimizer", family="opt:Adam[param_groups]", algorithm="torch.optim.Adam", options={}, lr=0.05,
             N=N, K=K, groups=True, scheduler=sch[0][1]))
    add(dict(algo="optimizer", family="opt:Adam[explicit-float32-parameter]", algorithm="torch.optim.Adam",
             options={}, lr=0.05, N=N, K=K, explicit32=True))
    add(dict(algo="optimizer", family="opt:Adam[parameters-defined-in-plates]", algorithm="torch.optim.Adam",
             options={}, lr=0.05, N=N, K=K, plate=True))
    add(dict(algo="optimizer", family="opt:Adam[unused-parameter-in-the-middle]", algorithm="torch.optim.Adam",
             options={}, lr=0.05, N=N, K=K, unused=True))
    add(dict(algo="optimizer", family="opt:SGD-momentum[unused-parameter-in-the-middle]", algorithm="torch.optim.SGD",
             options={"momentum": 0.9}, lr=0.05, N=N, K=K, unused=True))
    f32 = ["Adam", "SGD-momentum", "LBFGS", "RMSprop"] if tier == "quick" else [o[0] for o in OPTIMISERS]
    for nm, alg, opts in OPTIMISERS:
        if nm in f32:
            lr = 1.0 if nm in ("LBFGS", "Adadelta") else 0.05
            add(dict(algo="optimizer", family=f"opt:{nm}", algorithm=alg, options=opts, lr=lr, N=N, K=K,
                     dtype="float32", scheduler=None if nm == "LBFGS" else sch[2][1]))

    Nm = rng.choice([10, 12, 14])
    Km = rng.choice([6, 8])
    H = lambda *ad, **kw: dict(kind="hmc", adaptors=list(ad), **kw)
    mc = [
        ("scaler", [dict(kind="scaler", acceptance_window_length=5)]),
        ("slide", [dict(kind="slide")]),
        ("dirichlet", [dict(kind="dirichlet", acceptance_window_length=4)]),
        ("scaler+slide+dirichlet", [dict(kind="scaler"), dict(kind="slide_xy"), dict(kind="dirichlet")]),
        ("scaler[no-adaptation]", [dict(kind="scaler", disable_adaptation=True)]),
        ("hmc", [H()]),
        ("hmc[find_reasonable_step_size]", [H(frss=True)]),
        ("hmc[AdaptiveStepSize]", [H("adaptive")]),
        ("hmc[AdaptiveStepSize(use_acceptance_rate)]", [H("adaptive_rate")]),
        ("hmc[DualAveragingStepSize]", [H("dual")]),
        ("hmc[DualAveragingStepSize(start=4)]", [H("dual_late")]),
        ("hmc[MassMatrixAdaptor]", [H("mass")]),
        ("hmc[MassMatrixAdaptor,dense]", [H("mass", mass="dense")]),
        # the second estimator must hold samples at the checkpoint: N not a multiple of swap_every
        ("hmc[MassMatrixAdaptor(swap_every)]",
         [H("mass_swap", swap_every=next(s for s in (5, 4, 6, 7) if Nm % s >= 2))]),
        ("hmc[AdaptiveStepSize+MassMatrixAdaptor]", [H("adaptive", "mass")]),
        ("hmc[DualAveragingStepSize+MassMatrixAdaptor]", [H("dual", "mass")]),
        ("hmc[AdaptiveStepSize]+scaler", [H("adaptive"), dict(kind="scaler")]),
    ]
    for nm, ops in mc:
        add(dict(algo="mcmc", family=f"mcmc:{nm}", operators=ops, N=Nm, K=Km + (6 if "swap" in nm else 0)))
    # the sliding variance window only starts dropping samples after 100 of them
    add(dict(algo="mcmc", family="mcmc:hmc[MassMatrixAdaptor(variance_window)]", operators=[H("mass_window")],
             N=104 + rng.choice([0, 1, 2]), K=Km))
    add(dict(algo="mcmc", family="mcmc:skygrid[GMRFBlockUpdating+slide]", tree=True, operators=[],
             N=rng.choice([24, 30]), K=10))
    for nm, ops in mc:
        if "dense" in nm:
            continue
        if tier == "thorough" or nm in ("scaler+slide+dirichlet", "hmc[AdaptiveStepSize+MassMatrixAdaptor]",
                                       "hmc[DualAveragingStepSize]"):
            add(dict(algo="mcmc", family=f"mcmc:{nm}", operators=ops, N=Nm, K=Km, dtype="float32"))


# --------------------------------------------------------------------------- the property on observations

def id_types(cfg, out=None):
    out = {} if out is None else out
    if isinstance(cfg, dict):
        if isinstance(cfg.get("id"), str) and isinstance(cfg.get("type"), str):
            out[cfg["id"]] = cfg["type"].split(".")[-1]
        for v in cfg.values():
            id_types(v, out)
    elif isinstance(cfg, list):
        for v in cfg:
            id_types(v, out)
    return out


def _item_id(c):
    if c.get("$") == "dict":
        for k, v in c["items"]:
            if k == ["str", "id"] and v.get("$") == "str":
                return v["v"]
    return None


def diff_state(a, b, path, types, out):
    """Differences between two canon() pictures.  out: list of (kind, path, detail)."""
    ka, kb = a.get("$"), b.get("$")
    if {ka, kb} == {"tuple", "list"}:
        out.append(("tuple-to-list", path, ""))
        ka = kb = "list"
    if ka != kb:
        out.append(("kind", path, f"{ka} -> {kb}"))
        return
    if ka == "dict":
        da = {tuple(k): v for k, v in a["items"]}
        db = {tuple(k): v for k, v in b["items"]}
        for k, v in da.items():
            if k in db:
                comp = "[*]" if k[0] == "int" else (f".{k[1]}" if path else str(k[1]))
                i = _item_id(v)
                if i is not None and i in types:
                    comp += f"[{types[i]}]"        # a child object's own dictionary
                diff_state(v, db[k], path + comp, types, out)
            elif k[0] == "int" and ("str", str(k[1])) in db:
                out.append(("int-key-to-str", path, f"key {k[1]!r} came back as {str(k[1])!r}"))
                diff_state(v, db[("str", str(k[1]))], f"{path}[*]", types, out)
            else:
                out.append(("missing", f"{path}.{k[1]}" if path else str(k[1]), "key absent after restart"))
        for k in db:
            if k not in da and not (k[0] == "str" and ("int", _int(k[1])) in da):
                out.append(("extra", f"{path}.{k[1]}" if path else str(k[1]), "key only present after restart"))
    elif ka == "list":
        if len(a["items"]) != len(b["items"]):
            out.append(("length", path, f"{len(a['items'])} -> {len(b['items'])}"))
            return
        for x, y in zip(a["items"], b["items"]):
            i = _item_id(x)
            comp = f"[{types.get(i, i)}]" if i is not None else "[*]"
            diff_state(x, y, path + comp, types, out)
    elif ka in ("tensor", "param"):
        for f in ("dtype", "nn", "shape", "id"):
            if a.get(f) != b.get(f):
                out.append((f, path, f"{a.get(f)} -> {b.get(f)}"))
        if a["v"] != b["v"] and a["shape"] == b["shape"]:
            out.append(("value", path, f"{_show(a['v'])} -> {_show(b['v'])}"))
    elif a != b:
        out.append(("value", path, f"{_show(a.get('v'))} -> {_show(b.get('v'))}"))


def _int(s):
    try:
        return int(s)
    except ValueError:
        return None


def _show(v):
    def one(x):
        if isinstance(x, str):
            try:
                return repr(float.fromhex(x))
            except ValueError:
                return x
        return repr(x)
    if isinstance(v, list):
        return "[" + ", ".join(one(x) for x in v[:4]) + (", ..." if len(v) > 4 else "") + "]"
    return one(v)


def _close(a, b, dtype):
    """two rows of hex floats (or of mixed values) agree"""
    if len(a) != len(b):
        return False
    tol = 1e-12 if dtype == "float64" else 1e-6
    for x, y in zip(a, b):
        if x == y:
            continue
        try:
            fx, fy = float.fromhex(x), float.fromhex(y)
        except (ValueError, TypeError):
            return False
        if math.isnan(fx) and math.isnan(fy):
            continue
        if not abs(fx - fy) <= tol * max(1.0, abs(fx), abs(fy)):
            return False
    return True


def _rows(traj):
    """trajectory entry -> comparable flat row"""
    out = []
    for lab, r in traj:
        if isinstance(r, dict):
            flat = []
            for pid in sorted(r):
                flat += r[pid][:-1]
            out.append((lab, flat))
        else:
            out.append((lab, r))
    return out


def loop_name(case):
    if case["algo"] == "mcmc":
        return "MCMC.run"
    return "Optimizer._run_closure" if case["algorithm"].endswith("LBFGS") else "Optimizer._run"


def evaluate(case, obs):
    """-> (violations [(key, what, replay)], notes dict)"""
    fam = case["family"]
    rp = dict(case=case)
    v, notes = [], dict(benign_tuple_to_list=0)
    if "plain_run_error" in obs:
        v.append((f"C17:cannot-run:{fam}", f"the uninterrupted run of {case['name']} fails: {obs['plain_run_error']}", rp))
        return v, notes
    N, K = case["N"], case["K"]
    types = id_types(config_for(case, "ck", "log", N + K, 1))
    explained = []
    err = obs.get("restart_error")
    if err and err["before_run"]:
        key = f"C17:restart-raises:{err['site']}:{err['type']}:{err['msg'][:40]}"
        v.append((key, f"restarting {case['name']} from its own checkpoint raises {err['type']}({err['msg']}) in "
                       f"{err['site']}", rp))
        ld = obs.get("load") or {}
        if "s1_whatif" in ld and "proj" in obs.get("saved", {}):
            # with the missing key(s) supplied by the harness: is everything else restored?
            for cls, f, detail in obj_diffs(obs["saved"]["proj"], ld["s1_whatif"]):
                k = _wkey_of(case, cls, f)
                v.append((f"C17:state-not-restored:{cls}:{k}",
                          f"{case['name']}: even with the missing key(s) {ld['supplied']} supplied, "
                          f"{cls}.load_state_dict leaves {f} (saved under '{k}') unrestored: {detail}", rp))
        return v, notes
    saved, rest = obs["saved"], obs["restored"]
    if rest is None:
        v.append((f"C17:restart-does-not-run:{fam}",
                  f"{case['name']}: the restart neither raised nor reached run() (main() swallowed an error?)", rp))
        return v, notes
    # ---- parameter tensors
    pa = {p["id"]: p for p in saved["params"]}
    pb = {p["id"]: p for p in rest["params"]}
    param_dtype_changed = False
    for pid in pa:
        if pid not in pb:
            v.append((f"C17:parameter-not-restored:missing:{fam}", f"{case['name']}: parameter {pid} missing", rp))
            continue
        d = []
        diff_state(pa[pid], pb[pid], pid, {}, d)
        for kind, path, detail in d:
            key = (f"C17:parameter-not-restored:{kind}:spec={_spec_kind(case, pid)}" if kind in ("dtype", "nn")
                   else f"C17:parameter-not-restored:{kind}:{fam}")
            param_dtype_changed |= kind == "dtype"
            explained.append(key)
            v.append((key, f"{case['name']}: parameter {pid} ({_spec_kind(case, pid)} specification) differs after "
                           f"the restart ({kind}): {detail}", rp))
    # ---- state_dict() before saving vs after restart (iteration counter: judged on behaviour below)
    diffs = []
    diff_state(saved["state"], rest["state"], "", types, diffs)
    for kind, path, detail in diffs:
        if path == "iteration" or path.startswith("iteration"):
            continue
        if kind == "tuple-to-list":
            notes["benign_tuple_to_list"] += 1
            continue
        if kind == "dtype" and param_dtype_changed and path.startswith("optimizer.state"):
            notes["consequence_dtype"] = f"{path}: {detail} (torch casts the moments to the parameter's dtype)"
            continue
        if kind == "int-key-to-str":
            key = f"C17:int-keys-become-strings:{saved['cls']}:{path}"
            what = (f"{case['name']}: after the restart {saved['cls']}.state_dict()['{path}'] is keyed by strings "
                    f"({detail}); the entries no longer belong to their parameters / epochs")
        else:
            # owner = the innermost object whose dictionary holds the entry
            import re
            m = list(re.finditer(r"\[([A-Za-z_][A-Za-z0-9_]*)\]", path))
            owner, rest = (m[-1].group(1), path[m[-1].end():].lstrip(".")) if m else (saved["cls"], path)
            key = f"C17:state-not-restored:{owner}:{rest or kind}"
            what = f"{case['name']}: {saved['cls']}.state_dict() differs after the restart at {path} ({kind}): {detail}"
        explained.append(key)
        v.append((key, what, rp))
    # ---- the run continued from the checkpoint
    A = dict(_rows(obs["A_traj"]))
    Cr = [r for r in _rows(obs["C_traj"]) if r[0] > 0]
    labels = [r[0] for r in Cr]
    depart = None
    for i, (lab, row) in enumerate(Cr):
        ref = A.get(N + 1 + i)
        if ref is None:
            break
        if not _close(row, ref, case["dtype"]):
            depart = i
            break
    loop = loop_name(case)
    if err and not err.get("before_run") and labels[-1:] != [N + K]:
        key = f"C17:resumed-run-raises:{err['site']}:{err['type']}"
        if explained:
            notes["consequence"] = f"the resumed run then raises {err['type']}({err['msg']})"
        else:
            v.append((key, f"{case['name']}: the resumed run raises {err['type']}({err['msg']}) in {err['site']} "
                           f"after {len(labels)} iterations", rp))
            explained.append(key)
    if depart is not None:
        msg = (f"{case['name']}: state number {depart + 1} after the restart is {_show(Cr[depart][1])} but the "
               f"uninterrupted run visits {_show(A[N + 1 + depart])} at iteration {N + 1 + depart}")
        if explained:
            notes["consequence"] = msg
        else:
            v.append((f"C17:resumed-trajectory-differs:{fam}", msg, rp))
    if not (err and not err.get("before_run")):
        if labels == list(range(N, N + K + 1)):
            v.append((f"C17:resume-repeats-iteration:{loop}",
                      f"{case['name']}: the checkpoint written at the end of iteration {N} stores iteration={N} and "
                      f"{loop} restarts AT {N}: the resumed run executes {K + 1} iterations ({N}..{N + K}) where the "
                      f"uninterrupted run executes {K}" + ("" if depart is not None else
                      f"; its states are those of iterations {N + 1}..{N + K + 1}"), rp))
        elif labels != list(range(N + 1, N + K + 1)):
            v.append((f"C17:resume-iteration-labels:{loop}",
                      f"{case['name']}: resumed run executes iterations {labels[:3]}..{labels[-1:]}, expected "
                      f"{N + 1}..{N + K}", rp))
    notes["explained_by"] = explained
    notes["depart"] = depart
    return v, notes


def _spec_kind(case, pid):
    cfg = config_for(case, "ck", "log", 1, 1)

    def find(o):
        if isinstance(o, dict):
            if o.get("id") == pid and o.get("type", "").endswith("Parameter"):
                return o
            for x in o.values():
                r = find(x)
                if r:
                    return r
        elif isinstance(o, list):
            for x in o:
                r = find(x)
                if r:
                    return r
        return None
    spec = find(cfg) or {}
    ks = [k for k in ("full_like", "full", "zeros_like", "zeros", "ones_like", "ones", "eye_like", "eye", "arange")
          if k in spec]
    return (ks[0] if ks else "tensor") + ("+dtype" if "dtype" in spec else "")


# --------------------------------------------------------------------------- Python values as model terms (pv)
# ("none",) ("bool",b) ("int",z) ("float",bits) ("str",s) ("list",[..]) ("tuple",[..]) ("dict",[(key,v)..])
# ("tensor",dtype,nn,vals) ("param",id,dtype,nn,vals) ("obj",cls,[(field,v)..]);  key = ("int",z) | ("str",s)

def _bits(x):
    import struct
    x = float(x)
    if x != x:
        return 0x7ff8000000000000
    return struct.unpack("<q", struct.pack("<d", x))[0]


def pv_of(v):
    torch = _torch()
    from torchtree.core.abstractparameter import AbstractParameter
    if v is None:
        return ("none",)
    if isinstance(v, bool):
        return ("bool", v)
    if isinstance(v, int):
        return ("int", v)
    if isinstance(v, float):
        return ("float", _bits(v))
    if isinstance(v, str):
        return ("str", v)
    if isinstance(v, AbstractParameter):
        t = v.tensor
        return ("param", v.id, str(t.dtype), isinstance(t, torch.nn.Parameter), pv_of(t.detach().tolist()))
    if isinstance(v, torch.Tensor):
        return ("tensor", str(v.dtype), isinstance(v, torch.nn.Parameter), pv_of(v.detach().tolist()))
    if isinstance(v, dict):
        return ("dict", [(("int", k) if isinstance(k, int) and not isinstance(k, bool) else ("str", str(k)), pv_of(x))
                         for k, x in v.items()])
    if isinstance(v, tuple):
        return ("tuple", [pv_of(x) for x in v])
    if isinstance(v, list) or type(v).__name__ == "deque":
        return ("list", [pv_of(x) for x in v])
    return ("str", f"<{type(v).__name__}>")


def _cs(s):
    out = '"' + s.replace('"', '""') + '"'
    if "Parameter" in s:
        a, b = s.split("Parameter", 1)
        return "(" + _cs(a + "Para") + " ++ " + _cs("meter" + b) + ")%string"
    return out


def pv_coq(v):
    t = v[0]
    if t == "none":
        return "PNone"
    if t == "bool":
        return f"(PBool {'true' if v[1] else 'false'})"
    if t in ("int", "float"):
        return f"({'PInt' if t == 'int' else 'PFloat'} ({v[1]})%Z)"
    if t == "str":
        return f"(PStr {_cs(v[1])})"
    if t in ("list", "tuple"):
        return f"({'PList' if t == 'list' else 'PTuple'} [" + "; ".join(pv_coq(x) for x in v[1]) + "])"
    if t == "dict":
        return "(PDict [" + "; ".join(
            f"({'KInt (' + str(k[1]) + ')%Z' if k[0] == 'int' else 'KStr ' + _cs(k[1])}, {pv_coq(x)})" for k, x in v[1]) + "])"
    if t == "tensor":
        return f"(PTensor {_cs(v[1])} {'true' if v[2] else 'false'} {pv_coq(v[3])})"
    if t == "param":
        return f"(PParam {_cs(v[1])} {_cs(v[2])} {'true' if v[3] else 'false'} {pv_coq(v[4])})"
    if t == "obj":
        return f"(PObj {_cs(v[1])} [" + "; ".join(f"({_cs(f)}, {pv_coq(x)})" for f, x in v[2]) + "])"
    raise ValueError(t)


def pv_parse(z):
    """inverse of M_ckpt.show_pv / show_opt on a list of ints -> pv or None"""
    pos = [0]

    def nxt():
        pos[0] += 1
        return z[pos[0] - 1]

    def s():
        n = nxt()
        return "".join(chr(nxt()) for _ in range(n))

    def go():
        t = nxt()
        if t == -1:
            return None
        if t == 0:
            return ("none",)
        if t == 1:
            return ("bool", bool(nxt()))
        if t == 2:
            return ("int", nxt())
        if t == 3:
            return ("float", nxt())
        if t == 4:
            return ("str", s())
        if t in (5, 6):
            n = nxt()
            return ("list" if t == 5 else "tuple", [go() for _ in range(n)])
        if t == 7:
            n = nxt()
            items = []
            for _ in range(n):
                kt = nxt()
                k = ("int", nxt()) if kt == 0 else ("str", s())
                items.append((k, go()))
            return ("dict", items)
        if t == 8:
            dt = s()
            nn = bool(nxt())
            return ("tensor", dt, nn, go())
        if t == 9:
            i = s()
            dt = s()
            nn = bool(nxt())
            return ("param", i, dt, nn, go())
        if t == 10:
            c = s()
            n = nxt()
            return ("obj", c, [(s(), go()) for _ in range(n)])
        raise ValueError(f"bad tag {t}")
    r = go()
    if pos[0] != len(z):
        raise ValueError("trailing output")
    return r


def pv_canon(v, tuples_as_lists=False):
    """order-insensitive dictionaries; optionally tuples = lists"""
    if v is None:
        return None
    t = v[0]
    if t in ("list", "tuple"):
        return ("list" if tuples_as_lists else t, [pv_canon(x, tuples_as_lists) for x in v[1]])
    if t == "dict":
        return ("dict", sorted(((k, pv_canon(x, tuples_as_lists)) for k, x in v[1]), key=lambda p: repr(p[0])))
    if t == "tensor":
        return (t, v[1], v[2], pv_canon(v[3], tuples_as_lists))
    if t == "param":
        return (t, v[1], v[2], v[3], pv_canon(v[4], tuples_as_lists))
    if t == "obj":
        return (t, v[1], [(f, pv_canon(x, tuples_as_lists)) for f, x in v[2]])
    return v


def pv_diff(a, b, path=""):
    """first difference between two pv (canonical) -> text or None"""
    if a is None or b is None:
        return None if a == b else f"{path}: {'failure' if a is None else 'value'} vs {'failure' if b is None else 'value'}"
    if a[0] != b[0]:
        return f"{path}: {a[0]} vs {b[0]}"
    t = a[0]
    if t in ("list", "tuple"):
        if len(a[1]) != len(b[1]):
            return f"{path}: length {len(a[1])} vs {len(b[1])}"
        for i, (x, y) in enumerate(zip(a[1], b[1])):
            d = pv_diff(x, y, f"{path}[{i}]")
            if d:
                return d
        return None
    if t == "dict":
        ka, kb = [k for k, _ in a[1]], [k for k, _ in b[1]]
        if ka != kb:
            return f"{path}: keys {ka[:6]} vs {kb[:6]}"
        for (k, x), (_, y) in zip(a[1], b[1]):
            d = pv_diff(x, y, f"{path}.{k[1]}")
            if d:
                return d
        return None
    if t == "obj":
        if a[1] != b[1] or [f for f, _ in a[2]] != [f for f, _ in b[2]]:
            return f"{path}: object {a[1]}{[f for f, _ in a[2]]} vs {b[1]}{[f for f, _ in b[2]]}"
        for (f, x), (_, y) in zip(a[2], b[2]):
            d = pv_diff(x, y, f"{path}.{f}")
            if d:
                return d
        return None
    if t == "tensor":
        if a[1:3] != b[1:3]:
            return f"{path}: tensor {a[1:3]} vs {b[1:3]}"
        return pv_diff(a[3], b[3], path)
    if t == "param":
        if a[1:4] != b[1:4]:
            return f"{path}: parameter {a[1:4]} vs {b[1:4]}"
        return pv_diff(a[4], b[4], path)
    return None if a == b else f"{path}: {a} vs {b}"


# --------------------------------------------------------------------------- projection of live objects

def _get_path(obj, path):
    cur = obj
    for part in path.split("."):
        if cur is None or not hasattr(cur, part):
            return None
        cur = getattr(cur, part)
    return cur


def project(obj, info):
    """the attributes of a live object named by its class table, as a PObj (children recursively)"""
    tables = {t["name"]: t for t in info["tables"]}
    name = type(obj).__name__
    t = tables.get(name)
    if t is None:
        return ("str", f"<no table for {name}>")
    if t["delegate"]:
        f = t["delegate"][0]
        return ("obj", name, [(f, pv_of(getattr(obj, f).state_dict()))])
    fields = []
    for key, f, mode, guard in t["writes"]:
        val = _get_path(obj, f)
        if mode == "WChild":
            pvv = ("none",) if val is None else project(val, info)
        elif mode == "WChildren":
            pvv = ("list", [project(c, info) for c in (val or [])])
        elif mode.startswith("(WExternal"):
            pvv = ("none",) if val is None else pv_of(val.state_dict())
        else:
            pvv = pv_of(val)
        fields.append((f, pvv))
    return ("obj", name, fields)


_INFO = {}


def obj_diffs(a, b, out=None):
    """attribute-level differences between two projections -> [(class, field, detail)]"""
    out = [] if out is None else out
    a, b = pv_canon(a, True), pv_canon(b, True)

    def go(x, y):
        if x[0] == "obj" and y[0] == "obj" and x[1] == y[1]:
            for (f, u), (_, w) in zip(x[2], y[2]):
                if u[0] == "obj" or (u[0] == "list" and u[1] and u[1][0][0] == "obj"):
                    if u[0] == "obj":
                        go(u, w)
                    elif w[0] == "list" and len(w[1]) == len(u[1]):
                        for c, d in zip(u[1], w[1]):
                            go(c, d)
                    else:
                        out.append((x[1], f, "children differ"))
                else:
                    d = pv_diff(u, w, f)
                    if d:
                        out.append((x[1], f, d))
        elif x != y:
            out.append((x[1] if x[0] == "obj" else "?", "", "objects differ"))
    go(a, b)
    return out


def _wkey_of(case, cls, field):
    for t in _INFO.get("tables", []):
        if t["name"] == cls:
            for key, f, mode, guard in t["writes"]:
                if f == field:
                    return key
    return field


# --------------------------------------------------------------------------- sync / Coq side

HEADER = ("From Coq Require Import List String ZArith. Import ListNotations.\n"
          "From TT Require Import M_ckpt G_state.\nOpen Scope string_scope.\nOpen Scope list_scope.\n")

# which case family exercises an attribute that a class mutates but does not save
REPRO = {("MassMatrixAdaptor", "_values"): "mcmc:hmc[MassMatrixAdaptor(variance_window)]",
         ("MassMatrixAdaptor", "variance_estimator2"): "mcmc:hmc[MassMatrixAdaptor(swap_every)]"}
# which observed finding a table-level failure of an external (torch) object predicts
EXT_KEYS = {("Optimizer", "optimizer"): "C17:int-keys-become-strings:Optimizer:optimizer.state",
            ("Scheduler", "scheduler"): "C17:int-keys-become-strings:Optimizer:scheduler.milestones"}


def sync():
    try:
        txt, info = t5_state.translate(C.REPO)
    except t5_state.TranslateError as e:
        return False, f"T5 translator: {e}"
    except Exception as e:      # a parse problem must not pass silently either
        return False, f"T5 translator crashed: {type(e).__name__}: {e}"
    with C.CoqLock():
        C.write_if_changed(os.path.join(C.COQ, "gen", "G_state.v"), txt)
    _INFO.clear()
    _INFO.update(info)
    return True, info


def _ident(name):
    return "".join(ch if ch.isalnum() else "_" for ch in name)


def _take_str(z, i):
    n = z[i]
    return "".join(chr(c) for c in z[i + 1:i + 1 + n]), i + 1 + n


def _take_strs(z, i):
    n = z[i]
    i += 1
    out = []
    for _ in range(n):
        x, i = _take_str(z, i)
        out.append(x)
    return out, i


def table_reports(info):
    """Evaluate the verified checker on the regenerated tables (vm_compute)."""
    exprs = [f"show_table_report tbl_{_ident(t['name'])}" for t in info["tables"]]
    exprs += [f"[show_bool (loop_ok loop_{_ident(l['name'])}); show_bool (cond_ok loop_{_ident(l['name'])})]"
              for l in info["loops"]]
    exprs += ["[show_bool (params_ok upd_kept upd_copied penc_keys)]"]
    res = C.run_cases(PID + "_tables", HEADER, exprs, shard=len(exprs), rtype="Z")
    reps = {}
    for t, z in zip(info["tables"], res):
        name, i = _take_str(z, 0)
        keys_ok, fields_ok = bool(z[i]), bool(z[i + 1])
        bad_r, i = _take_strs(z, i + 2)
        bad_w, i = _take_strs(z, i)
        unc, i = _take_strs(z, i)
        wkeys, i = _take_strs(z, i)
        assert name == t["name"] and i == len(z), (name, t["name"])
        reps[name] = dict(keys_ok=keys_ok, fields_ok=fields_ok, bad_reads=bad_r, bad_writes=bad_w,
                          uncovered=unc, wkeys=wkeys)
    nT = len(info["tables"])
    loops = {l["name"]: dict(loop_ok=bool(z[0]), cond_ok=bool(z[1]))
             for l, z in zip(info["loops"], res[nT:nT + len(info["loops"])])}
    return reps, loops, bool(res[-1][0])


def predicted_findings(info, reps, loops, params_ok):
    """table-level failures -> the finding each one predicts on the real code: [(key, what)]"""
    out = []
    for t in info["tables"]:
        r = reps[t["name"]]
        X = t["name"]
        for k in r["bad_reads"]:
            rd = next(e for e in t["reads"] if e[0] == k)
            if k not in r["wkeys"]:
                out.append((f"C17:restart-raises:{X}.load_state_dict:KeyError:'{k}'",
                            f"{X}.load_state_dict reads key '{k}' which {X}.state_dict never writes"))
            elif rd[2].startswith("(RExternal"):
                out.append((EXT_KEYS.get((X, rd[1]), f"C17:int-keys-become-strings:{X}:{rd[1]}"),
                            f"{X}.load_state_dict hands the JSON-decoded state of the torch object '{rd[1]}' back "
                            f"without restoring its integer keys"))
            else:
                out.append((f"C17:table:{X}:read-is-not-inverse-of-write:{k}",
                            f"{X}: key '{k}' is not read back into the attribute / by the decoding it was written with"))
        if t["delegate"] and not r["keys_ok"]:
            out.append((EXT_KEYS.get((X, t["delegate"][0]), f"C17:int-keys-become-strings:{X}:{t['delegate'][0]}"),
                        f"{X}.load_state_dict hands the JSON-decoded state of the torch object "
                        f"'{t['delegate'][0]}' back without restoring its integer keys"))
        bw_fields = {e[1] for e in t["writes"] if e[0] in r["bad_writes"]}
        for k in r["bad_writes"]:
            out.append((f"C17:state-not-restored:{X}:{k}", f"{X}.state_dict writes key '{k}' that load_state_dict never reads"))
        heads = []
        for f in r["uncovered"]:
            if f in bw_fields:
                continue
            h = f.split(".")[0]
            if h not in heads:
                heads.append(h)
        for h in heads:
            out.append((f"C17:state-not-saved:{X}:{h}",
                        f"{X} mutates self.{h} while running but neither saves nor restores it"))
        if not t["delegate"] and not r["keys_ok"] and not r["bad_reads"] and not r["bad_writes"]:
            out.append((f"C17:table:{X}:structure", f"{X}: a key or an attribute is used twice, or a key is called 'type'"))
    for name, l in loops.items():
        if not l["loop_ok"]:
            out.append((f"C17:resume-repeats-iteration:{name}",
                        f"{name}: the iteration counter is saved before it is incremented and loaded as is"))
        if not l["cond_ok"]:
            out.append((f"C17:checkpoint-condition:{name}", f"{name}: the checkpoint block does not fire at multiples of the frequency"))
    if not params_ok:
        out.append(("C17:parameter-not-restored:dtype:spec=", "update_parameters does not copy 'dtype' / 'nn' from the checkpoint entry"))
    return out


def loop_of(info, case):
    return "loop_" + _ident(loop_name(case))


# --------------------------------------------------------------------------- run

def view_checkpoint_check():
    """An MCMC run whose operator acts on a VIEW of a parameter (how the CLI writes relative rates, kappa next to the
    frequencies, ...), checkpointing at every iteration: the checkpoint can be written, it holds the parameter the
    view reads from with its current value, and objects rebuilt from the specification with the checkpointed values
    written in hold that state."""
    torch = impl.load()
    import tempfile
    from torchtree.core.utils import process_objects
    found = []
    d = tempfile.mkdtemp(prefix="c17view_")
    ck = os.path.join(d, "ck.json")
    spec = [{"id": "c", "type": "Parameter", "tensor": [1.0, 2.0, 3.0]},
            {"id": "c.view", "type": "ViewParameter", "parameter": "c", "indices": "1:3"},
            {"id": "joint", "type": "JointDistributionModel", "distributions": [
                {"id": "pr", "type": "Distribution", "distribution": "torch.distributions.LogNormal", "x": "c",
                 "parameters": {"loc": 0.0, "scale": 1.0}}]},
            {"id": "mcmc", "type": "MCMC", "joint": "joint", "iterations": 6, "checkpoint": ck,
             "checkpoint_frequency": 1, "every": 0,
             "operators": [{"id": "op", "type": "ScalerOperator", "parameters": ["c.view"], "weight": 1.0,
                            "scaler": 0.5}]}]
    try:
        dic = {}
        for e in copy.deepcopy(spec):
            process_objects(e, dic)
        torch.manual_seed(17)
        with contextlib.redirect_stdout(io.StringIO()):
            dic["mcmc"].run()
        now = [float(v) for v in dic["c"].tensor]
        saved = {x.get("id"): x for x in json.load(open(ck))}
        if "c" not in saved or [float(v) for v in saved["c"]["tensor"]] != now:
            found.append(("C17:checkpoint:operator-on-view:state-not-in-checkpoint",
                          f"after a run whose operator moves `c.view` the parameter `c` is {now} but the checkpoint holds "
                          f"{saved.get('c', {}).get('tensor')} (entries: {sorted(saved)})",
                          dict(spec=spec, checkpoint=sorted(saved))))
    except Exception as e:  # noqa
        found.append((f"C17:checkpoint:operator-on-view:raises:{type(e).__name__}",
                      f"an MCMC run whose operator acts on a ViewParameter cannot write its checkpoint: "
                      f"{type(e).__name__}: {str(e)[:160]}", dict(spec=spec)))
    finally:
        shutil.rmtree(d, ignore_errors=True)
    return found


def run(tier, seed, replay=None):
    rep = C.Report(PID, tier, seed)
    rep.trusted = C.COMMON_TRUSTED + [
        "translator T5 (harness/translate/t5_state.py, python ast, fail-closed) incl. its two hand-written lists: "
        "which attributes hold external torch objects, and which mutated attributes are owned/checkpointed by "
        "another object or are scratch (each printed with its reason in gen/G_state.v); mutations through calls "
        "other than the listed mutator methods are not seen",
        "model/M_ckpt.v: Python value model (float repr / float32<->double conversions round-trip exactly — "
        "validated on every recorded state), torch.optim layout (which entries are integer-keyed), "
        "torch's own load_state_dict restoring an identical dictionary identically",
        "harness hooks on Optimizer/MCMC run(), save_full_state(), load_state_dict() (observation only; RNG reseeded "
        "at the checkpoint and at the restart for the stochastic MCMC runs: the checkpoint does not hold RNG state)"]
    rep.assumptions = [
        "a restart uses the same specification and --dtype as the interrupted run",
        "deterministic step function: the torch RNG state is not part of a checkpoint (MCMC cases reseed it identically "
        "in both runs at the interruption point)",
        "not covered: state of convergence monitors (StanVariationalConvergence), logger files (reopened with 'w'), "
        "CUDA devices, SparseAdam / Muon / ReduceLROnPlateau / SequentialLR / ChainedScheduler"]
    os.makedirs(WORK, exist_ok=True)

    ok_sync, info = sync()
    cases = make_cases(tier, seed)
    if replay:
        cases = [json.load(open(replay))["replay"]["case"]]
    # ---- the real code, through main()
    t0 = time.time()
    obs = []
    retried = []
    for ci, c in enumerate(cases):
        o = None
        for attempt in range(3):
            # a target / proposal sequence on which the plain run itself breaks down numerically says
            # nothing about checkpointing: draw another one (twice) before giving up on the configuration
            cc = c if attempt == 0 else dict(c, seed=c["seed"] + 101 * attempt, pseed=c["pseed"] + 17 * attempt)
            try:
                o = run_case(cc, info if ok_sync else None)
            except Exception as e:          # harness trouble must not look like a pass
                o = dict(name=c["name"], plain_run_error=f"harness: {type(e).__name__}: {e}",
                         trace=traceback.format_exc()[-1500:])
            if "plain_run_error" not in o or replay:
                cases[ci] = cc
                break
            retried.append(c["name"])
        obs.append(o)
    rep.timings["impl"] = round(time.time() - t0, 2)
    evals = [evaluate(c, o) for c, o in zip(cases, obs)]

    state = dict(reps=None)

    def observed():
        """the property evaluated on the implementation's outputs, keys canonicalised"""
        found = {}
        unc_heads = {}
        for (X, h), fam in REPRO.items():
            # without table reports (translator failure) the attribution falls back on the static list
            if not state["reps"] or (X in state["reps"][0] and any(
                    f.split(".")[0] == h for f in state["reps"][0][X]["uncovered"])):
                unc_heads[fam] = (X, h)
        for c, (vs, notes) in zip(cases, evals):
            for key, what, rp in vs:
                if key.startswith("C17:resumed-trajectory-differs:") and c["family"] in unc_heads:
                    continue        # named below after the attribute that is not saved
                found.setdefault(key, (key, what, rp))
            if c["family"] in unc_heads and notes.get("depart") is not None:
                X, h = unc_heads[c["family"]]
                key = f"C17:state-not-saved:{X}:{h}"
                found.setdefault(key, (key, f"{X} mutates self.{h} while running but state_dict() does not save it — "
                                            f"{c['name']}: the resumed run departs from the uninterrupted one at state "
                                            f"number {notes['depart'] + 1} after the restart", dict(case=c)))
        return list(found.values())

    def search():
        return observed()

    if not ok_sync:
        rep.proof = dict(obligations=1, discharged=0, axioms={}, theorems=["T5 translation"], ok=False)
        fs = search()
        for f in fs:
            rep.violation(*f)
        rep.violation("C17:translator-failed", str(info)[:400], dict(error=str(info)), False)
        rep.rule = "translator failed: only the direct comparison on the implementation ran"
        for c, o in zip(cases, obs):
            rep.case(dict(name=c["name"], seed=c["seed"]), nontrivial="saved" in o)
        return rep.finish()

    # ---- the checker on the regenerated tables (needed to name findings), then the proofs
    t0 = time.time()
    C.coq_make(["model/M_ckpt.vo", "gen/G_state.vo"])
    try:
        state["reps"] = table_reports(info)
    except RuntimeError as e:
        rep.violation("C17:model-eval-failed:tables", str(e)[:300], dict(error=str(e)[-2000:]), False)
    rep.timings["tables"] = round(time.time() - t0, 2)
    proved = C.handle_proof(rep, PID, search)
    if not proved and rep.proof and not rep.proof.get("axioms"):
        # the theorems before the failing one were checked: keep their Print Assumptions
        import re
        src = C.strip_coq_comments(open(os.path.join(C.COQ, "prop", f"{PID}.v")).read())
        names = re.findall(r"Print Assumptions\s+([A-Za-z0-9_'.]+)", src)
        blocks = re.findall(r"(?m)^(Closed under the global context|Axioms:)", rep.proof.get("log", ""))
        rep.proof["axioms"] = {n: ([] if b.startswith("Closed") else ["<see log>"]) for n, b in zip(names, blocks)}
    obs_f = observed()
    for f in obs_f:
        rep.violation(*f)
    # every table-level failure must be reproduced on the real code
    predicted = predicted_findings(info, *state["reps"]) if state["reps"] else []
    obs_keys = [k for k, _, _ in obs_f]
    for key, what in ([] if replay else predicted):     # a replay drives one configuration only
        if not any(k == key or k == key.replace(".load_state_dict:", "._load_state_dict:")
                   or (key.endswith("spec=") and k.startswith(key)) for k in obs_keys):
            rep.violation("C17:unreproduced:" + key, what + " — not reproduced by any driven configuration",
                          dict(predicted=key), False)
    if not proved and not predicted and not obs_f:
        pass   # handle_proof has filed the proof-broken violation

    # ---- correspondence: the model's executable definitions on the recorded states
    t0 = time.time()
    exprs, index = [], []
    for ci, (c, o) in enumerate(zip(cases, obs)):
        sv = o.get("saved") or {}
        if "proj" not in sv:
            continue
        O = pv_coq(sv["proj"])
        exprs.append(f"show_opt (save 4 all_tables {O})")
        index.append((ci, "save"))
        # the encoder / decoder model against the file save_parameters really wrote
        exprs.append(f"show_opt (json_rt {pv_coq(sv['sd'])})")
        index.append((ci, "json"))
        ld = o.get("load")
        if ld and "s0" in ld:
            exprs.append(f"show_opt (checkpoint_roundtrip 4 all_tables {O} {pv_coq(ld['s0'])})")
            index.append((ci, "restore"))
    loop_exprs = {}
    for ci, (c, o) in enumerate(zip(cases, obs)):
        if "saved" not in o:
            continue
        L = loop_of(info, c)
        N, K = c["N"], c["K"]
        freqA = 1 if c["algo"] == "optimizer" else N
        loop_exprs.setdefault((L, 1, N + K, freqA), []).append((ci, "A"))
        if o.get("restored"):
            freqC = 1 if c["algo"] == "optimizer" else 10 ** 6
            loop_exprs.setdefault((L, o["restored"]["epoch"], N + K, freqC), []).append((ci, "C"))
            loop_exprs.setdefault((L, "resume", N), []).append((ci, "resume"))
    loop_keys = list(loop_exprs)
    for k in loop_keys:
        if k[1] == "resume":
            exprs.append(f"[resume_epoch {k[0]} ({k[2]})%Z]")
        else:
            exprs.append(f"show_events (run_events {k[0]} {C.natlit(k[2] + 2)} ({k[1]})%Z ({k[2]})%Z ({k[3]})%Z)")
        index.append((k, "loop"))
    dt_exprs = {}
    for ci, (c, o) in enumerate(zip(cases, obs)):
        if not o.get("restored") or "saved" not in o:
            continue
        default = "torch." + c["dtype"]
        cfg = config_for(c, "ck", "log", 1, 1)
        for p in o["saved"]["params"]:
            spec = _find_spec(cfg, p["id"]) or {}
            sd = spec.get("dtype")
            inferred = default if any(isinstance(x, str) for x in p["v"]) else "torch.int64"
            k = (sd, inferred, p["dtype"])
            dt_exprs.setdefault(k, []).append((ci, p["id"]))
    dt_keys = list(dt_exprs)
    for sd, inferred, saved_dt in dt_keys:
        spec_t = f'(Some "{sd}")' if sd else "None"
        exprs.append(f'show_str (restored_dtype upd_kept upd_copied {spec_t} "{inferred}" "{saved_dt}")')
        index.append(((sd, inferred, saved_dt), "dtype"))
    res = []
    try:
        res = C.run_cases(PID, HEADER, exprs, shard=max(4, len(exprs) // 16 + 1), rtype="Z")
    except RuntimeError as e:
        rep.violation("C17:model-eval-failed", str(e)[:300], dict(error=str(e)[-2000:]), False)
    rep.timings["model_eval"] = round(time.time() - t0, 2)

    mismatches = []
    validated = 0
    for (who, kind), z in zip(index, res):
        if kind in ("save", "restore", "json"):
            c, o = cases[who], obs[who]
            vs, notes = evals[who]
            model = pv_parse(z)
            if kind == "json":
                from torchtree.core.utils import TensorDecoder
                real = json.loads(o["checkpoint_text"], cls=TensorDecoder)[0]
                real = {k: x for k, x in real.items() if k not in ("id", "type")}
                d = pv_diff(pv_canon(model), pv_canon(pv_of(real)), "json")
                what = f"{c['name']}: model json round trip vs the decoded checkpoint file: {d}"
            elif kind == "save":
                d = pv_diff(pv_canon(model), pv_canon(o["saved"]["sd"]), "state_dict()")
                what = f"{c['name']}: model save vs real state_dict(): {d}"
            else:
                ld = o["load"]
                real = ld.get("s1") if "error" not in ld else None
                d = pv_diff(pv_canon(model, True), pv_canon(real, True), "after load_state_dict")
                what = (f"{c['name']}: model restore(save) vs the object after the real load_state_dict"
                        f"{' (which raised ' + ld['error']['type'] + ')' if 'error' in ld else ''}: {d}")
                if d and any(k.startswith("C17:parameter-not-restored:dtype") for k, _, _ in vs):
                    notes["model_skipped"] = "a parameter changed dtype: torch casts the moments accordingly"
                    d = None
            validated += 1
            if d:
                mismatches.append((f"C17:model-impl-differ:{kind}", what, dict(case=c)))
        elif kind == "loop":
            k = who
            for ci, which in loop_exprs[k]:
                c, o = cases[ci], obs[ci]
                validated += 1
                if which == "resume":
                    if z[0] != o["restored"]["epoch"]:
                        mismatches.append((f"C17:model-impl-differ:resume-epoch:{loop_name(c)}",
                                           f"{c['name']}: model restarts at {z[0]}, implementation at "
                                           f"{o['restored']['epoch']}", dict(case=c)))
                    continue
                ev = [(z[i], z[i + 1]) for i in range(0, len(z), 2)]
                saves = o["A_saves"] if which == "A" else o["C_saves"]
                traj = o["A_traj"] if which == "A" else o["C_traj"]
                m_saved = [s_ for _, s_ in ev if s_ != -1]
                r_saved = [it for _, _, it in saves]
                bad = None
                if m_saved != r_saved:
                    bad = f"checkpoints hold iteration {r_saved[:4]}..., model {m_saved[:4]}..."
                if c["algo"] == "mcmc":
                    labels = [l for l, _ in traj if l > 0]
                    if labels != [l for l, _ in ev] and not (o.get("restart_error") and which == "C"):
                        bad = f"iterations executed {labels[:3]}..{labels[-1:]}, model {[l for l, _ in ev][:3]}.."
                if bad:
                    mismatches.append((f"C17:model-impl-differ:loop:{loop_name(c)}",
                                       f"{c['name']} run {which}: {bad}", dict(case=c)))
        elif kind == "dtype":
            model_dt, _ = _take_str(z, 0)
            for ci, pid in dt_exprs[who]:
                c, o = cases[ci], obs[ci]
                real = next((p["dtype"] for p in o["restored"]["params"] if p["id"] == pid), None)
                validated += 1
                if real != model_dt:
                    mismatches.append((f"C17:model-impl-differ:parameter-dtype:{c['family']}",
                                       f"{c['name']}: parameter {pid} restored as {real}, model {model_dt}", dict(case=c)))
    seen = set()
    for key, what, rp in mismatches:
        if key in seen:
            continue
        seen.add(key)
        n = sum(1 for k, _, _ in mismatches if k == key)
        rp = dict(rp, broken="correspondence M_ckpt/G_state vs implementation")
        rep.violation(key, what + (f" (and {n - 1} more configurations)" if n > 1 else ""), rp, False)

    # ---- bookkeeping
    dist = {}
    for c, o, (vs, notes) in zip(cases, obs, evals):
        fam = c["family"].split(":")[0] + "/" + c["dtype"]
        dist[fam] = dist.get(fam, 0) + 1
        sv = o.get("saved") or {}
        rep.case(dict(name=c["name"], seed=c["seed"], pseed=c["pseed"], N=c["N"], K=c["K"]),
                 nontrivial="saved" in o and c["N"] >= 2 and c["K"] >= 2,
                 sample=dict(case=c["name"], iterations_before=c["N"], iterations_after=c["K"],
                             restart_error=o.get("restart_error"),
                             findings=[k for k, _, _ in vs], consequence=notes.get("consequence")))
    tuple_notes = sum(n.get("benign_tuple_to_list", 0) for _, n in evals)
    for f in two_runnables_check():
        rep.violation(*f)
    for f in view_checkpoint_check():
        rep.violation(*f)
    rep.case(dict(operator_on_view=True), nontrivial=True)
    rep.case(dict(two_runnables=True), nontrivial=True)
    rep.rule = (f"{len(cases)} configurations driven through torchtree.torchtree.main: every torch optimiser "
                f"(15 settings) alone and with a rotating scheduler, every scheduler expressible in the JSON "
                f"specification (12) with Adam, parameter groups, an explicit-float32 + full_like parameter, "
                f"float32 runs; MCMC with every operator (Scaler, SlidingWindow, Dirichlet, GMRF block updating on the "
                f"CLI's skygrid configuration, HMC) and every adaptor combination (AdaptiveStepSize ±acceptance rate, "
                f"DualAveragingStepSize, MassMatrixAdaptor diag/dense/variance_window/swap_every, pairs), "
                f"float32/float64; interruption point N and horizon K drawn from the seed; non-trivial = checkpoint "
                f"written after >= 2 iterations and >= 2 iterations remain; state compared exactly (hex floats), "
                f"trajectories with rtol 1e-12 (float64) / 1e-6 (float32); tuple->list (betas) counted as benign: "
                f"{tuple_notes} occurrences")
    rep.extra = dict(input_distribution=dist, traces_validated_against_impl=validated,
                     model_undefined=0,
                     translator_units=[f"{t['name']} ({t['file']})" for t in info["tables"]]
                     + [l["name"] for l in info["loops"]] + ["update_parameters", "ParameterEncoder"],
                     table_reports=state["reps"][0] if state["reps"] else None,
                     loop_reports=state["reps"][1] if state["reps"] else None,
                     plain_run_retries=retried,
                     not_driven=["SparseAdam", "Muon", "ReduceLROnPlateau", "SequentialLR", "ChainedScheduler",
                                 "dense mass matrix in float32 (the adapted matrix loses symmetry: the plain run fails)"])
    return rep.finish()


def _find_spec(o, pid):
    if isinstance(o, dict):
        if o.get("id") == pid and str(o.get("type", "")).endswith("Parameter"):
            return o
        for x in o.values():
            r = _find_spec(x, pid)
            if r:
                return r
    elif isinstance(o, list):
        for x in o:
            r = _find_spec(x, pid)
            if r:
                return r
    return None
