"""Helpers to drive the real torchtree implementation (imported from /repo's working tree)."""
import importlib
import os
import sys

_loaded = False


def load():
    global _loaded
    import torch
    if not _loaded:
        torch.set_default_dtype(torch.float64)
        # tiny tensors everywhere: intra-op threads only add contention when several checks run at once
        torch.set_num_threads(int(os.environ.get("VERIF_TORCH_THREADS", "2")))
        from torchtree.core.utils import package_contents
        for m in package_contents("torchtree"):
            try:
                importlib.import_module(m)
            except Exception:  # optional plugins
                pass
        _loaded = True
    return torch


def param_json(id_, values, **kw):
    d = {"id": id_, "type": "Parameter", "tensor": values}
    d.update(kw)
    return d
