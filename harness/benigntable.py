#!/venv/bin/python
"""dev tool: regenerate the table of behaviour-preserving changes in DESIGN.md (between the BENIGN-TABLE markers)
from /verif/benign/*/meta.json"""
import glob
import json
import re

rows, silent, trans, alarm = [], 0, 0, 0
for f in sorted(glob.glob("/verif/benign/*/meta.json")):
    sid = f.split("/")[-2]
    m = json.load(open(f))
    v = m.get("verif", {})
    summ = re.sub(r"\s+", " ", (m.get("summary") or "")).strip()
    summ = summ[:260] + ("…" if len(summ) > 260 else "")
    ck = v.get("checks", {})
    out = []
    for p, c in ck.items():
        if c["exit"] == 0 and not c["violations"]:
            out.append(f"`{p}` silent")
            silent += 1
        else:
            firsts = c.get("first") or []
            k = ""
            if firsts:
                mm = re.match(r"violation (\S+?):? ", firsts[0] + " ")
                k = mm.group(1).rstrip(":") if mm else ""
            only_nf = c.get("no_failing_input_found", 0) == c.get("violations", 0)
            if only_nf:
                trans += 1
                out.append(f"`{p}` {k[:60]} — `no-failing-input-found`")
            else:
                alarm += 1
                out.append(f"`{p}` **ALARM** {k[:80]}")
    valid = "yes" if v.get("valid") else ("?" if "valid" not in v else "NO")
    rows.append(f"| {sid} | {m.get('kind', '')} | {summ.replace('|', '/')} | {valid} | {', '.join(out) if out else '(not run)'} |")
table = ("| id | kind | change (as described by its author) | valid (tests pass, demo identical) | check |\n"
         "|----|----|----|----|----|\n" + "\n".join(rows) + "\n")
p = "/verif/DESIGN.md"
s = open(p).read()
a, b = "<!-- BENIGN-TABLE-BEGIN -->", "<!-- BENIGN-TABLE-END -->"
if a in s:
    s = s[:s.index(a) + len(a)] + "\n" + table + s[s.index(b):]
    open(p, "w").write(s)
print(f"{len(rows)} behaviour-preserving changes: {silent} silent, {trans} translator/proof no longer applies "
      f"(no-failing-input-found), {alarm} alarms with an input")
