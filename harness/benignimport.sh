#!/bin/sh
# dev tool: benignimport.sh C05  -> copies /tmp/benign_out/C05/{patch,demo,meta}_{A,B} into /verif/benign/C05_{A,B}
P=$1; SRC=/tmp/benign_out
for v in A B; do
  [ -f $SRC/$P/patch_$v.diff ] || continue
  d=/verif/benign/${P}_$v; mkdir -p $d
  cp $SRC/$P/patch_$v.diff $d/patch.diff
  cp $SRC/$P/demo_$v.py $d/demo.py 2>/dev/null
  /venv/bin/python - "$P" "$v" "$SRC" <<'PY'
import json,sys
P,v,SRC=sys.argv[1:4]
try: m=json.load(open(f"{SRC}/{P}/meta_{v}.json"))
except Exception as e: m={"summary":f"(meta unreadable: {e})"}
m["property"]=P; m["origin"]="fresh sub-agent given only the property text and a scratch worktree; asked for a behaviour-preserving change"
json.dump(m,open(f"/verif/benign/{P}_{v}/meta.json","w"),indent=1)
PY
done
ls /verif/benign | grep $P | tr '\n' ' '; echo
