#!/bin/sh
# dev tool: setup + every quick check on the unchanged tree; usage: fullpass.sh [seed] [tier]
SEED=${1:-1}; TIER=${2:-quick}
cd /verif
export VERIF_SEED=$SEED VERIF_TIER=$TIER
echo "== setup"; ( time -p ./check --setup ) 2>&1 | tail -4
for i in 01 02 03 04 05 06 07 08 09 10 11 12 13 14 15 16 17 18 19 20; do
  out=$(timeout 5400 ./check C$i --tier $TIER 2>&1); rc=$?
  echo "C$i rc=$rc $(echo "$out" | grep -c '^VIOLATION') violations; $(echo "$out" | grep -c '^KNOWN-FINDING') known; $(echo "$out" | grep '^\[C' | tail -1 | sed 's/.*wall=/wall=/')"
  echo "$out" | grep '^VIOLATION\|  violation ' | head -8
done
