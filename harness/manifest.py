"""Regenerates /verif/MANIFEST.json from the table below (keeps it schema-valid at all times)."""
import json
import os

ALL = [f"C{i:02d}" for i in range(1, 21)]

CHECKS = {
    "C18": dict(
        technique="Coq proof by induction over crash histories on a model regenerated from source (ast translator) + exhaustive fault-injection correspondence",
        text="Theorems C18_single_write_safe / C18_history_safe / C18_completed_write_installs (prop/C18.v) hold for "
             "every crash point and any number of consecutive interrupted writes, about the file-system program "
             "that translator T4 regenerates from save_parameters on every run; the Fs model is tied to the real "
             "function by exhaustive crash-injection correspondence (depth 3 quick / 5 thorough).",
        note="Trusted: Coq kernel; T4 translator; Fs model's atomicity of open-truncate/close/rename/remove (POSIX "
             "rename, no fsync/durability); fault injector. Theorems closed under the global context.",
        design="§6 C18"),
}

CHECKS["C05"] = dict(
    technique="Coq proof over R of the normalisation identities for every K/shape/invariant/mu on a hand-written polymorphic model; Paramcoq free theorem ties its interval run to the real model; interval-run correspondence against rates()/probabilities()",
    text="Theorems C05_weibull / C05_normalise_any / C05_invariant / C05_constant (prop/C05.v) prove, for every category "
         "count, shape, invariant proportion and relative rate, that probabilities sum to one, rates are non-negative, "
         "the invariant category has rate exactly 0 and the weighted mean rate equals mu; C05_run_encloses_model is the "
         "free theorem that the interval run of the same term encloses the real value. The model is tied to "
         "site_model.py by correspondence on rates()/probabilities() (relative 1e-9) over random configurations, and the "
         "property is also evaluated directly on the implementation's outputs. The relative rate is carried by a plain parameter, a view or a transformed parameter; the same specification dict is parsed twice.",
    note="Trusted: Coq kernel; hand-written model M_site.v (validated by correspondence only); Interval library (BigZ "
         "backend => Uint63 primitive specs) and Paramcoq output are kernel-checked; torch.pow/log rounding is modelled, "
         "not verified. Axioms: standard-library reals (sig_forall_dec, sig_not_dec, functional_extensionality_dep), classic, Uint63 primitives.",
    design="§6 C05")

CHECKS["C06"] = dict(
    technique="Coq proofs by induction over the tree (every topology, every date vector) on a hand-written polymorphic model; Paramcoq free theorem ties the exact rational run to the real model; device-move effects regenerated from source by an ast translator; exact-rational correspondence",
    text="Theorems C06_ratio_valid / C06_ratio_roundtrip / C06_diff_valid / C06_diff_roundtrip / C06_branch_is_difference / "
         "C06_branch_nonneg (prop/C06.v) hold for every rooted binary topology, every sampling-time vector (ties "
         "included) and every parameter value in the domain; C06_kind_preserved holds for every sequence of "
         "cpu()/cuda()/to() over effects regenerated from tree_model.py; C06_ratio_forward_after_inverse(_indexed) / "
         "C06_diff_forward_after_inverse: re-applying the forward map to what the inverse returns gives the tree of heights "
         "back (with C06_ratio_inverse_lands_in_domain / _forward_lands_strictly_above / C06_diff_inverse_domain: mutually "
         "inverse bijections between the parameter domain and the valid time trees); C06_run_is_model is the free theorem that the "
         "exact rational run equals the real-valued model. The model is tied to the code by exact-rational "
         "correspondence on node_heights, branch_lengths(), transform(x), transform.inv(y) over all topologies <= 4 "
         "(quick) / <= 6 (thorough) taxa plus random ones, single and batched. Generators include the edge of the parameter domain (ratios next to 0 and 1, root just above the oldest tip, increments of 2^-24, a 2^-22 time scale) with a round-trip tolerance that follows the conditioning.",
    note="Trusted: Coq kernel; hand-written models Tree.v/M_height.v (index assignment, bounds, transforms; validated by "
         "correspondence only); t_kind translator; dendropy parsing and torch indexing modelled not verified; batched = "
         "map over rows is checked by correspondence, not proved; cuda() cannot be executed in this sandbox (translator + "
         "theorem only). Axioms: standard-library reals + classic; Uint63 primitives for the BigQ run theorem.",
    design="§6 C06")

CHECKS["C01"] = dict(
    technique="Coq proof by induction over trees that pruning = explicit marginalisation over all state assignments and rate categories (any tree, any state count, any matrices); the ARRAY LOOP of the code — update expression and returned expression regenerated from tree_likelihood.py by an ast translator — proved to compute that recursion for every soundly numbered tree; symbol tables regenerated from source and proved to be IUPAC unions; Paramcoq free theorem + interval-run correspondence at TreeLikelihoodModel()",
    text="Theorems (prop/C01.v): C01_pruning_is_marginalisation / C01_site_likelihood_is_marginal / C01_loglik_is_marginal / "
         "C01_compress_sum / C01_*_symbols_are_unions / C01_tip_state_is_indicator / C01_tip_unknown_is_missing: for every "
         "indexed binary tree, state count, matrix family, rate-category mixture and alignment the model's log-likelihood "
         "equals the weighted sum over patterns of ln of the sum over every assignment of states and every category; the "
         "datatype tables regenerated from datatype.py map each of the 128 symbols to the indicator of its IUPAC set. "
         "C01_array_loop_is_pruning: the loop `for node, left, right in post_indexing: partials[node] = ...` with the update "
         "regenerated from calculate_treelikelihood_discrete on every run leaves the recursion's value at the root index, for "
         "every tree with a sound numbering (C01_indexing_is_sound: setup_indexes' numbering is sound), any number type; "
         "C01_returned_expression (regenerated) and C01_tip_state_loop_is_tip_partial_loop (regenerated tip-state update). "
         "C01_run_encloses_model: the interval run encloses the real value. The rest of the model (index assignment by taxon "
         "name, sequence lookup by name, compression, which matrix goes with which node, zero root branch, clock x branch x "
         "category rate) is tied to the code by correspondence at the value returned by a TreeLikelihoodModel built from JSON "
         "(relative 1e-9) over all topologies <= 4 (quick) / <= 6 (thorough) taxa plus random ones and all model/site/clock/"
         "tip combinations, trees written with their lengths in the newick string, same-object histories (evaluate, assign "
         "parameters, evaluate; time trees also as plain TimeTreeModel) against freshly built objects, and two 560/640-taxon "
         "trees on which the plain recursion underflows (first and later evaluation). Also fresh models whose site likelihoods lie inside the subnormal band of doubles (placed by bisection) against the log-domain reference.",
    note="Trusted: Coq kernel; hand-written models (validated by correspondence only); T1 and T8 translators (fail-closed ast); "
         "the transition matrices, frequencies and category rates/probabilities enter as oracle tables read through the "
         "implementation's public API (C04/C05 cover them); torch.matmul broadcasting over categories and site columns is "
         "modelled (one category, one pattern at a time); the rescaled / 'safe' variants of the loop are covered by C03's "
         "theorem on the model and by correspondence, not regenerated; amino-acid likelihoods: few cases; torch rounding "
         "modelled not verified.",
    design="§6 C01")

CHECKS["C03"] = dict(
    technique="Coq proof that every rescaling code path equals plain pruning in exact arithmetic (any positive scalers, any tree) + sticky-flag induction; the rescaled and 'safe' loops of the code regenerated from source (update numerator, scaler, stored quotient, rescaling condition, returned expression) and proved to use the plain update and to weight both terms; the proved interval model is the extended-range reference for a sweep through the subnormal band with histories (floating-point clause decided by the sweep only)",
    text="Theorems C03_rescaled_eq_plain (for ANY positive per-node scalers, hence the rescaled, the partially "
         "rescaled 'safe' and the tip-state variants, any tree/categories), C03_flag_sticky / C03_flag_monotone, and — over "
         "definitions regenerated by translator T8 from calculate_treelikelihood_discrete_rescaled / _safe on every run — "
         "C03_rescaled_loops_use_the_plain_update and C03_rescaled_returned_expression (sum over sites of weight x (ln root "
         "term + sum of ln scalers)) (prop/C03.v). They make the interval run of the plain model a legitimate extended-range "
         "reference. The clause about doubles (finite and accurate to 1e-8 when site likelihoods are subnormal or underflow) "
         "is a statement about IEEE arithmetic: it is decided by the sweep only (560/640-taxon caterpillar, balanced and "
         "random trees, tip partials and tip states, a repeated column, branch scale bisected into every part of the band "
         "[5e-324, 2.2e-308] and beyond; fresh models, up-and-down histories on one model with the flag observed, batches "
         "mixing regimes and evaluated again after the switch, alignments mixing conserved and random columns). Also small trees (120-250 taxa) with very short branches (underflow without a large tree), fresh and in a history.",
    note="Trusted: Coq kernel; hand-written models M_like.v/M_rescale.v; T8 translator; oracle transition matrices from p_t; the "
         "floating-point accuracy clause is NOT proved (no Flocq-level analysis of batched pruning): exploration only, "
         "stated here on purpose; the rescaled tip-STATE loop is not regenerated (model + sweep only).",
    design="§6 C03")

CHECKS["C02"] = dict(
    technique="Coq proofs of the invariances (children swap, any permutation of the taxa list, name-keyed sequence lookup under any permutation, column permutation/merging, tip states vs partials, and re-rooting: every root placement reachable by any number of root moves, for any state count and any reversible semigroup family) on the C01 model + pairs of equivalent JSON specifications on the implementation and against the model",
    text="Theorems C02_swap_children / C02_perm_sequences / C02_perm_columns / C02_merge_columns / "
         "C02_states_vs_partials(_missing), the pulley identity C02_reroot_one_step and C02_reroot_any_branch / "
         "C02_reroot_along_any_path (prop/C02.v): for every tree carrying its tip vectors and branch lengths, every state "
         "count and every family P(t) of S x S matrices with detailed balance and P(a+b) = P(a)P(b), all rootings related by "
         "any number of moves of the root (exchange the root children, slide along the root edge, cross the node below onto "
         "either grandchild branch) have the same site likelihood. C02_perm_taxa(_amino_acids): ANY permutation of the taxa list "
         "(leaf indices, row order of the alignment, compressed patterns and the node-indexed matrix tables all move) gives "
         "the same log-likelihood, every tree, any number of categories, every tip mode. All of it is also decided by pairs "
         "of equivalent specifications (data keyed by taxon name / clade / bipartition, realised twice: permuted taxa, permuted sequences, "
         "swapped children, permuted / merged columns, tip states vs partials, root moved to a random branch, the same "
         "unrooted tree with its lengths written in the newick string with the root edge split anywhere or a trifurcating "
         "root) on the implementation (|A-B| <= 1e-9 rel) with every specification also checked against the interval run of "
         "the C01 model. Also the same tree written in other ways inside the newick string (zero-length branches written out or collapsed into multifurcations below either kind of root, [&U]/[&R] rooting comments).",
    note="Trusted: as C01, plus the generator of equivalent specifications; that the three root moves generate ALL rootings of "
         "an unrooted tree is a graph-theoretic fact argued in the comment, not formalised; perm_taxa is decided by pairs only.",
    design="§6 C02")

CHECKS["C07"] = dict(
    technique="Coq proofs of inverses, of every partial derivative of the cumulative maps and of the ratio node-height transform on every topology (Coquelicot is_derive), of det(triangular) = product of the diagonal for the Laplace determinant, hence report = ln|det J| + interval-run correspondence and autograd-Jacobian comparison on the implementation",
    text="34 theorems in prop/C07.v: inverse-after-forward = identity for cumsum, cumsum-exp, softplus, cumsum-softplus, log, "
         "exp, sigmoid, affine; the diagonal entries of each Jacobian are the true derivatives (softplus' = sigmoid, exp, "
         "1/x, sigmoid(1-sigmoid), chain rule for cumulative maps) and the reported quantities are their logarithms; "
         "cumulative maps are triangular (prefix dependence); for the ratio node-height transform on every topology "
         "heights do not depend on parameters outside the subtree, each height is affine in its own ratio with slope "
         "(parent height - bound) and the reported value is the sum of ln of exactly these entries; and the reports ARE "
         "ln |det| of the full matrix of partial derivatives (C07_cumsum/cumsumexp/cumsumsoftplus_report_is_logabsdet, "
         "C07_ratio_report_is_logabsdet(_indexed) on every topology), the determinant being the Laplace expansion, "
         "C07_det_lower/upper_triangular = product of the diagonal (the same definition equals mathcomp's det on every "
         "commutative ring, proof/P_tridet_mc.v). The five list transforms of distributions/transforms.py are "
         "REGENERATED from the source on every run (translator T10 -> gen/G_transforms.v) and "
         "C07_transform_source_is_model proves the regenerated _call/_inverse/log_abs_det_jacobian equal to the "
         "model's; all models are also tied "
         "to the code by interval-run correspondence on transform(x), .inv(y), .log_abs_det_jacobian, "
         "TransformedParameter() and ReparameterizedTimeTreeModel(); the property itself (reported = slogdet of the "
         "autograd Jacobian; inv(fwd(x)) = x) is evaluated on the implementation for every case.",
    note="Trusted: Coq kernel; translator T10; hand-written models; the ratio Jacobian is taken with rows and columns in pre-order OR "
         "in node-index order as autograd lays it out (C07_det_simultaneous_permutation: any injective re-indexing of rows and "
         "columns by the same map leaves the determinant unchanged; C07_ratio_report_is_logabsdet_node_order; "
         "C07_node_order_entries_are_partial_derivatives — these go through mathcomp's determinant over R and additionally "
         "list the standard-library axiom ClassicalEpsilon.constructive_indefinite_description); torch autograd on the implementation side; StickBreaking / "
         "ConvexCombination / RescaledRate transforms not covered (non-square or nothing reported); TrilExpDiagonal: "
         "inverse only (it reports no log-det).",
    design="§6 C07")

CHECKS["C12"] = dict(
    technique="Coq-verified forward-mode AD: dual numbers over intervals proved (Coquelicot + Interval) to enclose value and derivative of every Num operation; Paramcoq free theorems lift it to whole models (likelihood, height Jacobian, site rates, four coalescents, birth-death skyline, GMRF); correspondence autograd vs proved enclosures + autograd vs finite differences for every density/parameter on the implementation",
    text="Theorem C12_dual_numbers_enclose_derivatives (NumFD_R): for every x0 the dual-number instance is related to the "
         "pointwise real-function instance by 'value enclosed, derivative enclosed or NaN (no claim at possible zero "
         "divisors, non-positive ln/sqrt arguments, ties of max)'; by parametricity C12_loglik_gradient, "
         "C12_height_jacobian_gradient, C12_site_rates_gradient, C12_constant_coalescent_gradient, "
         "C12_exponential_coalescent_gradient, C12_skyride_gradient, C12_skygrid_gradient (population sizes AND event "
         "times as functions of the variable; event order decided on exact keys = the property's 'away from ties'), "
         "C12_bdsk_gradient (any number of epochs, w.r.t. R/delta/s), C12_birth_death_gradient, C12_gmrf_gradient (plain, "
         "weighted, time-aware): the dual run of those model terms encloses the derivative of their real-valued reading. "
         "That PyTorch's autograd returns this derivative is decided by correspondence (autograd inside the proved "
         "enclosure, relative 1e-7) for each of these families on objects built through the public API; for the remaining "
         "densities (piecewise-linear / -exponential coalescent, CTMC scale, torch priors, joint) and for EVERY density "
         "again the property is evaluated directly on the implementation: autograd vs Richardson finite differences for "
         "every parameter coordinate (half of the likelihoods with the rescaled recursion in use), missing or zero "
         "gradients of influential parameters reported. Also GMRFCovariate (field, precision, coefficients) and the relative rate mu (also at exactly 1.0); every coalescent family in turn in the joint scenarios, grids ending below the root.",
    note="Trusted: Coq kernel; models as in C01/C05/C06/C08/C09/C20; dP/dt oracle (autograd of p_t validated by central "
         "differences); PyTorch autograd is the thing under test, not trusted; finite differences are a numerical "
         "reference with an adaptive tolerance (implementation side only); max at ties: no claim. Axioms: standard-library "
         "reals, classic, Uint63 primitives (interval runs).",
    design="§6 C12")

CHECKS["C11"] = dict(
    technique="Coq proof by induction over operation histories (wired graph => every evaluation returns the fresh value, no update raises) on a listener-graph model whose per-class handler table is regenerated from source by an ast translator; `wired` evaluated by vm_compute on graphs extracted from real objects; random-history correspondence against fresh rebuilds",
    text="Theorems wired_sound / wired_sound_from_construction / eval_returns_fresh / update_state_independent (prop/C11.v, "
         "closed under the global context): if the decidable predicate `wired g` holds then every finite history of "
         "assignments (through plain, view, concatenated, transformed parameters), in-place changes followed by the "
         "notification, bare notifications and evaluations runs without raising and every evaluation returns the value "
         "recomputed from the leaves. The handler table (79 classes) is regenerated by translator T7 on every run; "
         "`wired` is evaluated on the wiring extracted from 7 composite instances covering 44 classes (listeners by "
         "introspection, read-dependencies by tracing cross-checked by perturbation); random histories on the real "
         "objects are compared with freshly built copies (the property itself) and with the model (flags, re-executed "
         "_calls, raises). Site-model accessors are read in alternating order; a Weibull site model without invariant class is among the instance graphs.",
    note="Trusted: Coq kernel; T7 translator (cross-checked against the runtime MRO and by calling the real handlers); "
         "dependency extraction by read-tracing (mitigated by perturbation); classes that cannot be instantiated from "
         "JSON here (abstract empirical models, nn-based, variational objectives, HMC operator) are not covered.",
    design="§6 C11")

CHECKS["C08"] = dict(
    technique="Coq proofs (sorted running sums = counting definition for any tie-breaking; model = Kingman density; piece integrals by Coquelicot is_RInt; all-equal = constant; scaling law) on a polymorphic hand-written model; Paramcoq enclosure theorems; interval-run correspondence on log_prob and the JSON-built model call",
    text="45 theorems in prop/C08.v: sorted_cumsum_is_counting and order_invariance for all six models, model = Kingman "
         "density for constant / exponential / skyride / skygrid (the piecewise-constant grid model under no_tie: its N jumps "
         "at grid points) and for piecewise-linear / piecewise-exponential WITH ties between coalescent times and grid points "
         "(C08_linear_eq_kingman, C08_pwexp_eq_kingman: continuity of N across grid points; the grid must be 0 < g1 < g2 < .. "
         "resp. sorted, and four _refuted theorems give witnesses that each part of that hypothesis is necessary), the "
         "closed-form piece integrals are the integrals of 1/N (Coquelicot), all-equal = constant, scaling law for ALL SIX "
         "models (C08_scaling_law_linear / _pwexp with ties allowed, + entry points; the refutation shows times >= 0 is needed "
         "for the linear model), Paramcoq enclosures of the interval runs. Tie to the code: interval-run correspondence "
         "(relative 1e-9) on Distribution.log_prob and the JSON-built model call, n = 2..50, serial sampling with ties, "
         "shuffled heights, grids inside/beyond the root/before the first coalescence, batched; direct checks on the "
         "implementation: permutations, scaling, all-equal = constant, one-piece pwexp = exponential, refined skygrid.",
    note="Trusted: Coq kernel; hand-written model M_coalescent.v; torch argsort/bucketize modelled by exact sorting on Q "
         "keys; "
         "batch layouts that raise belong to C10.",
    design="§6 C08")

AX_R = ("Axioms (Print Assumptions): standard-library reals (sig_forall_dec, sig_not_dec, functional_extensionality_dep), "
        "Classical_Prop.classic; Uint63/PrimInt63 primitive specs for the interval/bigQ run theorems only.")

CHECKS["C04"] = dict(
    technique="Coq proofs on rate-matrix builders regenerated from source (ast translator T2: HKY.q, GTR.q, JC closed forms, LG/WAG and genetic-code tables) and on hand-written general/empirical/MG94 builders: rows sum to zero, off-diagonals non-negative, detailed balance, normalisation, spectral formula = the matrix exponential power series (Coquelicot), stochastic for t >= 0; Paramcoq enclosure of an exact Taylor reference; correspondence on q(), frequencies, p_t()",
    text="27 theorems in prop/C04.v: C04_builder_rate_matrix / _reversible / C04_normalised / C04_norm_positive for every state count, "
         "mapping and parameter value; C04_hky / C04_gtr (+ _is_documented_matrix) about the entries regenerated from nucleotide.py; "
         "C04_general_symmetric / _nonsymmetric / C04_empirical / C04_mg94 (every genetic code table regenerated from source); "
         "C04_spectral_semigroup and C04_spectral_generator (A diag(exp(lambda t)) B with A B = I: P(0)=I, P(s+t)=P(s)P(t), P'(0)=Q), "
         "C04_symmetrisation (the sqrt(pi) similarity the code uses), C04_jc69 / C04_general_jc69(_q) closed forms; "
         "C04_run_encloses_Q / _taylor: the interval runs enclose the real model. C04_p_t_is_matrix_exponential: for every t and "
         "entry the power series sum_k t^k/k! (Q^k)_ij converges (Coquelicot is_series) to the code's spectral formula, i.e. "
         "P(t) IS exp(Qt); C04_p_t_rows_are_probability_vectors: entries in [0,1] for t >= 0 and rows summing to one for every "
         "rate matrix; both also for ANY real diagonalisation (C04_any_real_diagonalisation_*). Tie: T2 translator + interval-run correspondence on q(), frequencies, p_t(t) of every model class built "
         "from JSON (single, batched all / rates-only / frequencies-only), t in [0,100], against the exact scaling-and-squaring "
         "Taylor reference of the model's Q; eig oracles validated exactly; property identities (row sums, P(0)=I, semigroup, "
         "pi P = pi, detailed balance) evaluated on the implementation. Generators draw nearly reducible rate matrices (a small non-zero eigenvalue next to the stationary zero) and nearly uniform frequencies deliberately.",
    note="Trusted: Coq kernel; T2 translator; hand-written M_subst.v; not formalised: truncation bound of the degree-20 Taylor reference (cross-checked by the semigroup identity each run); torch "
         "eigh/matrix_exp are oracles validated per case. " + AX_R,
    design="§6 C04")

CHECKS["C09"] = dict(
    technique="Coq proofs (Coquelicot is_derive) that the closed forms p0 and q solve the birth-death master equations for all positive rates, boundary wiring of the backward recursion, split-epoch invariance, single epoch = constant model; JSON option table regenerated from from_json by translator T6 and proved to select what it names; Paramcoq enclosures; interval-run correspondence on log_prob / BDSKModel() / BirthDeathModel()",
    text="15 theorems in prop/C09.v: C09_p0_solves_master, C09_q_solves_master (d/dt of the closed forms = right-hand sides of the master "
         "equations, every lambda, mu, psi > 0), C09_boundary_wiring, C09_split_epoch (one cut with identical rates and rho = 0 leaves p "
         "and the q-product unchanged), C09_refinement_invariance (the WHOLE density is unchanged when any epoch of a skyline with any number of "
         "epochs is cut in two, every tree incl. tips/nodes on the cut, +- survival, +- removal probabilities; cuts compose), C09_single_epoch_is_constant, C09_options_cover_constructor / _defaults_agree / "
         "_select_what_they_name over the table regenerated from BDSKModel.from_json / BirthDeathModel.from_json on every run, "
         "C09_run_encloses_* free theorems. Tie: T6 + interval-run correspondence (relative 1e-9) on PiecewiseConstantBirthDeath.log_prob, "
         "BDSKModel(), BirthDeath.log_prob, BirthDeathModel() over random trees n = 2..12, 1..8 epochs, boundaries on node / tip times, "
         "rho at boundaries, removal probability, relative times, +- survival; pairs (epoch, split epoch); RK4 integration of the master "
         "equations along the tree as an implementation-side cross-check. Generators include tips within 1e-7..1e-5 of a rho-sampling event, whole-number epoch boundaries written as integers, relative times with a root-edge origin.",
    note="Trusted: Coq kernel; hand-written M_bdsk.v; T6 translator; RK4 integrator (supporting only); torch searchsorted/gather "
         "modelled on exact times. Known finding kept: removal probability with several epochs raises. " + AX_R,
    design="§6 C09")

CHECKS["C10"] = dict(
    technique="Coq proofs on a shaped-tensor model (broadcasting, reductions, JointDistributionModel.log_prob case analysis, sample_shape rules): row-wise action of broadcast operations and 'joint adds components of the same sample only' for every shape in the unambiguous class, refutations exhibiting the ambiguous classes; slice-oracle correspondence on every callable model with every subset of parameters batched",
    text="12 theorems in prop/C10.v: C10_broadcast_rowwise / _row_dependency (an elementwise broadcast of a [S,...] operand with an "
         "unbatched one acts row by row, for every shape), C10_joint_no_mixing(_R) (for every list of components shaped sample_shape_i "
         "++ event_i outside the decidable class `ambiguous', the model of JointDistributionModel.log_prob returns an error or the "
         "per-sample sum), C10_longest_sample_shape, C10_dist_sample_shape_standard / _scalar / _event1 (the rule Distribution._sample_shape "
         "implements), and C10_joint_mixing_refuted / _joint_event_axis_refuted / _clock_expand_refuted (members of the ambiguous classes, "
         "kept as documentation of what cannot hold). Tie: tensor operations vs torch on random shapes; joint model vs "
         "JointDistributionModel on the component tensors of real models; sample_shape rules vs real objects; the property itself "
         "(batched call vs call with slice s only, relative 1e-9; unsupported combinations must raise) on a catalogue of ~60 model "
         "classes / transformed parameters x parameter subsets x shapes [S], [S,K]. Includes a birth-death skyline whose epochs differ between samples with a tip of one sample on the epoch boundary of another.",
    note="Trusted: Coq kernel; hand-written M_tensor.v (strides, dtype promotion, torch.cat legacy rule not modelled); the densities "
         "themselves are not re-proved here (batched = map over rows is what the slice oracle decides on the implementation). "
         "Axioms: sig_forall_dec, functional_extensionality_dep (theorem over R only).",
    design="§6 C10")

CHECKS["C13"] = dict(
    technique="Coq proofs by induction over JSON terms on a loader model (process_object(s) threading the registry, per-class schemas, remove_comments, expand_plates): references share identity, dangling and duplicate ids rejected at any depth, comments inert; type-string table regenerated from source (translator); outcome correspondence against torchtree.torchtree.main on random specification programs",
    text="12 theorems in prop/C13.v: C13_refs_share_identity, C13_update_seen_by_every_holder, C13_dangling_rejected, C13_duplicate_rejected "
         "(any nesting depth, incl. inside its own definition), C13_accepts_exactly_wellformed (loader accepts iff the decidable "
         "well-formedness predicate holds), C13_comments_inert, C13_remove_comments_idempotent, C13_plates_expand; "
         "C13_current_code_accepts_more / C13_nested_duplicate_refuted / C13_duplicate_rejected_partial document the loader before fix "
         "106ad2b. Tie: translator t_classes (type strings) + correspondence over random specification programs (nested/inlined/"
         "referenced objects over 18 classes, injected duplicate ids at random depth, dangling/forward/self references, comments, "
         "ignored objects, plates): outcome (identity-sharing partition of the registry | error class) model vs the real main; "
         "sharing tested on the implementation by `is' and by update-through-one-holder; json_factory round trips evaluated on the "
         "implementation.",
    note="Trusted: Coq kernel; hand-written M_loader.v with its per-class schema table (validated by the correspondence only); "
         "t_classes translator; range references and Runnable objects outside the model. Theorems closed under the global context.",
    design="§6 C13")

CHECKS["C14"] = dict(
    technique="Coq proofs over R: every objective (ELBO, multi-sample ELBO, VR, CUBO, self-normalised KLpq, [S] and [S,K]) returns exactly c when log p - log q = c for every draw (any sample count, alpha, n); conjugate-pair identities (log joint - log posterior is the constant log marginal) incl. through exp/sigmoid/affine transforms with their Jacobians; Paramcoq enclosures; correspondence on recorded p()/q() tensors of JSON-built conjugate models, fresh-draw and pairing checks",
    text="35 theorems in prop/C14.v: tight_elbo / _elbo_multi / _vr / _vr_multi / _cubo / _cubo_multi / _klpq / _klpq_multi (list induction, "
         "every sample count), elbo_entropy_identity and elbo_entropy_tight_iff (the analytic-entropy ELBO equals c plus a zero-mean "
         "Monte-Carlo term: the honest form of 'for every draw' for that variant), logsumexp_spec, bayes_constant_* for gamma-exponential, "
         "gamma-Poisson, normal-normal, beta-binomial and their transformed versions, the bivariate normal with a FULL noise covariance "
         "(and with independent noise), the Gaussian model through the cumulative-sum-exp transform with its Jacobian "
         "(bayes_constant_bivariate_normal(_independent_noise), cumsumexp_prior_with_jacobian_is_gaussian, bayes_constant_cumsumexp), "
         "exact_at_posterior, C14_run_encloses_*. Tie: "
         "objectives and conjugate densities evaluated in Coq (interval run) on the tensors p() and q() returned on the same draw, for "
         "every objective x sample shape x q in {joint, bare Distribution} x conjugate pair; each request must draw fresh samples and "
         "evaluate p and q after the draw; objective vs log marginal on the implementation. Includes a joint variational family with components of different sizes and the generic Distribution wrapper around torch's multivariate normal.",
    note="Trusted: Coq kernel; hand-written M_vi.v; lgamma / ln sqrt(2 pi) / digamma values are oracle inputs; the three "
         "parameterisations of the variational multivariate normal (covariance / precision / scale_tril) are tied on the implementation only; instrumentation by dynamic subclassing of the p/q models. " + AX_R,
    design="§6 C14")

CHECKS["C15"] = dict(
    technique="Coq proofs by induction over runs on an MCMC chain model (carried density = target, accept iff u < min(1, exp(delta + Hastings)), reject restores the state, logged rows consistent) and, with Coquelicot, that each operator's Hastings term is the log ratio of the true proposal densities (scaler, sliding window, precision mixture); tuning expressions regenerated from source (translator T3) and proved monotone in the right direction; transition records of real runs replayed through the model",
    text="36 theorems in prop/C15.v: carried_density_is_target, accept_iff(_unfolded), accept_log_form, reject_restores, logged_row_consistent, "
         "trace_chained (every run, operator schedule and draw sequence); scaler_event_is_cdf / scale_density_is_derivative / "
         "hastings_scaler, sliding_* / hastings_sliding, hastings_dirichlet, hastings_hmc_is_delta_H, precision_* / "
         "hastings_precision_mixture; hastings_gaussian_block (the block operator's forward and backward terms are the log densities "
         "of N(mu, (U^T U)^-1) up to one common constant, any dimension; change of variables, back substitution, mean = QW^-1 b); tuning_direction / _below / _adaptive over the getter/setter expressions regenerated from "
         "operator.py, gmrf_block_updating.py and hmc on every run, tuning_direction_dirichlet_code (after fix 191b5ae; "
         "_refuted_for_log_exp documents the former code), tuning_direction_dual_averaging_partial; replay_encloses_model. Tie: T3 + "
         "transition records reconstructed by wrapping operator.step/accept/reject, the target and torch RNG around MCMC.run for seeded "
         "runs with every operator type and mixtures, adaptation on/off: each record replayed through the Coq step function (target "
         "re-evaluated on a freshly built model), logger rows compared with the state, bit-identity after rejection on the implementation. Includes a chain started where the target vanishes (log density -inf).",
    note="Trusted: Coq kernel; hand-written M_mcmc.v; T3 translator; torch RNG, Dirichlet sampler, Cholesky/solve kernels are oracles; "
         "Gaussian block proposal of the GMRF operator: Hastings ratio proved (hastings_gaussian_block, proof/P_block_gauss.v), the Cholesky/solve kernels that produce the factor are oracles; dual "
         "averaging: partial. " + AX_R,
    design="§6 C15")

CHECKS["C16"] = dict(
    technique="Integrator arithmetic and statement order regenerated from integrator.py (ast translator T9) and proved to be the model; Coq proofs over any commutative ring / any gradient function / any dimension and step count: the code's leapfrog arrangement = L kick-drift-kick steps, exact reversibility, shear decomposition with unit Jacobian determinant (mathcomp determinants), exact conservation of the modified energy for harmonic targets, Hastings = change of kinetic energy; exact-rational correspondence on Gaussian targets and oracle-gradient correspondence on transformed/phylogenetic targets",
    text="29 theorems in prop/C16.v: C16_jacobian_determinant_one (COMPLETE volume preservation: in every dimension, for every "
         "Frechet-differentiable gradient, diagonal or dense mass matrix, step size, step count and point, the matrix of partial "
         "derivatives of the implemented map (q,p) -> leapfrog(q,p) exists and its determinant — mathcomp's Leibniz determinant over R, "
         "R made a comRingType in proof/P_Rring.v — is exactly one; C16_coordinates_are_list_entries / C16_basis_is_unit_vectors / "
         "C16_detU_is_determinant_like / C16_detU_homothety say what the coordinates, the basis and the determinant are), "
         "C16_integrator_source_is_model (the integrator assembled, in the statement order of the source, from the "
         "arithmetic regenerated from LeapfrogIntegrator.__call__ by translator T9 is the model's leapfrog: any number type, mass "
         "matrix, gradient, step count), C16_leapfrog_is_standard, C16_leapfrog_reversible (flip o leapfrog o flip o leapfrog = id for ANY grad), "
         "C16_leapfrog_shear_decomposition, C16_shear_jacobians_det_one / C16_shear_matrices_act_as_shears / C16_volume_preserving_dim1, "
         "C16_volume_preserving_any_dimension (ANY dimension, ANY Frechet-differentiable gradient, diagonal or dense mass matrix: "
         "through coordinates the list model is a composition of shears on R^(n+1); it is differentiable at every point, its "
         "differential is the composition of 2L+2 linear shears with the Hessians taken along the trajectory — the n-dimensional "
         "chain rule formalised with Coquelicot's filterdiff — and every multiplicative determinant-like functional that is one on "
         "block shears gives it the value one), C16_leapfrog_differential_any_normed_module, C16_volume_preserving_dim1_frechet "
         "(genuine 2x2 determinant), C16_coordinates_are_a_bijection, C16_volume_preserving_partial (mathcomp matrices, linear gradients), "
         "C16_energy_error_harmonic (O(eps^2) for all L on quadratic potentials), C16_energy_error_partial (general targets: not proved), "
         "C16_hmc_hastings_is_dK, C16_acceptance_on_full_hamiltonian, C16_kinetic_even, C16_minv_odd, C16_run_is_model(_gauss/_step). "
         "Tie: positions written into the parameters and the returned momentum vs the exact rational run (Gaussian targets, dims 1..8, "
         "diagonal and dense SPD mass matrices, several parameters per operator) and vs the model with the gradient as an oracle table "
         "validated against autograd on a fresh model; geometric identities (forward-flip-forward, autograd Jacobian determinant, energy "
         "error at eps, eps/2, eps/4) evaluated on the implementation. Includes exactly k = 1, 8, 9, 10 failed trajectories before an ordinary one (a target whose first k integrator evaluations are NaN).",
    note="Trusted: Coq kernel; hand-written M_leapfrog.v; gradient oracle tables; general-target O(eps^2) is partial "
         "(implementation-side check only). Axioms of the volume theorem: the real-number axioms, classic, functional extensionality "
         "and ClassicalEpsilon.constructive_indefinite_description (needed to give R mathcomp's choiceType). " + AX_R,
    design="§6 C16")

CHECKS["C17"] = dict(
    technique="Coq proofs on a JSON-value model of json.dump/load and on per-class state tables REGENERATED from every state_dict/load_state_dict pair, run loop and update_parameters by translator T5: keys read = keys written and restored with inverse decoding, every mutated field restored, loops resume at the next iteration, round trip and same-trajectory theorems; restart correspondence through the command-line entry point",
    text="19 theorems in prop/C17.v: C17_json_roundtrip / _exact / _int_keys_become_strings, C17_torch_state_rekey, C17_roundtrip_object / _tree "
         "(restore (save s) = s for any nesting of objects whose tables satisfy keys_ok), C17_resume_same_trajectory / _epoch (for any "
         "deterministic step function the resumed run visits exactly the remaining states), C17_param_dtype / _nn; and, decided by "
         "vm_compute on the tables regenerated from /repo on every run: C17_keys_read_written_restored, C17_mutated_fields_restored, "
         "C17_loops_resume_at_next_iteration, C17_parameters_keep_dtype (these were false before the seven fix: commits and turn false "
         "again if a key is renamed, dropped or read back differently). Tie: T5 + correspondence through torchtree.torchtree.main with "
         "a checkpoint: state_dict() and parameter tensors before saving vs after restart, then K more iterations interrupted vs "
         "uninterrupted, for torch optimisers x schedulers, MCMC x every operator/adaptor combination, float32/float64, nn flag.",
    note="Trusted: Coq kernel; T5 translator (fail-closed ast; which attribute each key goes back to); hand-written M_ckpt.v; torch.optim "
         "state layout as data. Theorems closed under the global context.",
    design="§6 C17")

CHECKS["C19"] = dict(
    technique="Coq-verified checker: wf_config (ids unique at any depth, every reference resolves in processing order, every type registered, no identified object under a key the loader ignores) proved sound for the loader model, and check_jacobians proved to imply 'density handed to the sampler = joint + each needed log-Jacobian exactly once'; both run by vm_compute on every configuration the real torchtree-cli emits over a pairwise-covering option set, beside the real loader (translation validation)",
    text="10 theorems in prop/C19.v: C19_loader_is_run_of_events, C19_wf_config_sound, C19_wf_config_constructs_all, C19_loader_rejects_dangling / "
         "_duplicate, C19_jacobian_exactly_once, C19_jacobian_exact, C19_checker_rejects_missing / _repeated / _foreign. Tie: the class "
         "table regenerated from the CLI and library sources (t_cliclasses); for each of ~240 (quick) / ~3000 (thorough) option "
         "combinations of advi/map/mcmc/hmc the emitted JSON goes (a) through the verified checker in Coq and (b) through the real "
         "loader with a tracing registry (same sequence of registry operations as the model), then joint / joint.jacobian and their "
         "gradients must be finite, constrained initial values equal the requested ones, joint.jacobian - joint = sum of independently "
         "computed log-Jacobians, and a 2-iteration run must not raise. Runnability is an execution fact, not a theorem. Also: the free parameters handed to the algorithm are those of the substitution model named on the command line and no more; branch lengths kept with --keep are those of the tree file however it is rooted.",
    note="Trusted: Coq kernel; hand-written M_config.v (per-class schema: which keys are processed, which density has which random "
         "variable); t_cliclasses translator; the option sampler. 16 known findings kept (CLI defects not repaired: see "
         "known_findings.d/C19.json). Axioms: sig_forall_dec, functional_extensionality_dep (Jacobian sums over R).",
    design="§6 C19")

CHECKS["C20"] = dict(
    technique="Coq proofs: sum of squared (weighted) first differences = x^T Q x for the tridiagonal matrix the model publishes (every length, list induction), sufficient statistics reproduce the skyride/skygrid log density for every tree, sampling scheme and grid (reusing the C08 counting theorem), integrated priors equal the integral given the Gamma-kernel normalisation; Paramcoq enclosures; interval-run correspondence on GMRF(), precision_matrix(), integrated priors and sufficient_statistics()",
    text="19 theorems in prop/C20.v: C20_gmrf_is_quadratic_form, C20_weighted_is_quadratic_form, C20_gmrf_is_gaussian_form, "
         "C20_plain_is_unit_weighted, C20_plain_matrix_error / C20_weighted_precision_refuted (the unweighted matrix published before fix "
         "a1e0fb1 is not the weighted form), C20_suffstats_any_intervals, C20_skygrid_ / C20_skyride_suffstats_reproduce_logprob, "
         "C20_constant_through_statistic, C20_integrated_pointwise / C20_gmrf_integrated_is_integral, C20_const_integrated_pointwise / "
         "_is_integral (given the hypothesis integral of tau^(a-1) e^(-b tau) = Gamma(a)/b^a about the lgamma oracle), C20_run_encloses_*. "
         "Tie: interval-run correspondence on GMRF() (plain, weighted, time-aware +- rescale), precision_matrix(), GMRFGammaIntegrated(), "
         "ConstantCoalescentIntegrated.log_prob, sufficient_statistics(); field length 2..50, single and batched; x^T Q x with the "
         "PUBLISHED matrix vs GMRF() on the implementation. Includes deep trees with one coalescence following the previous event after 1e-8.",
    note="Trusted: Coq kernel; hand-written M_gmrf.v / M_suffstat.v; the Gamma-kernel normalisation is a Section hypothesis about the "
         "lgamma oracle (no Gamma function in the installed libraries); numerical quadrature cross-check is implementation-side. " + AX_R,
    design="§6 C20")

PENDING_REASON = "check not built yet in this session (build order in DESIGN.md §9); will be claimed once its theorem file and correspondence run clean"


def main():
    checks = []
    for pid in ALL:
        if pid not in CHECKS:
            continue
        c = CHECKS[pid]
        checks.append(dict(
            property_id=pid,
            quick_cmd=f"./check {pid} --tier quick",
            thorough_cmd=f"./check {pid} --tier thorough",
            evidence_file=f"/verif/evidence/{pid}.json",
            replay_cmd_template=f"./check {pid} --replay {{path}}",
            engine="coq-proof+correspondence",
            level_claimed=dict(category="proof", text=c["text"], design_ref=c["design"]),
            level_note=c["note"],
            technique=c["technique"]))
    na = [dict(property_id=p, reason=PENDING_REASON) for p in ALL if p not in CHECKS]
    man = dict(
        version=1,
        setup_cmd="cd /verif && ./check --setup",
        hooks=dict(guard="TORCHTREE_VERIF", enable="no source hooks: all observation through public objects; env TORCHTREE_VERIF=1 is set by ./check but nothing in /repo reads it",
                   baseline_off_cmd="cd /repo && env -u TORCHTREE_VERIF /venv/bin/python -m pytest -ra -q -p no:cacheprovider --timeout=900 --continue-on-collection-errors",
                   source_commits=[], add_only=True),
        engines=[dict(name="coq-proof+correspondence", path="/verif/check",
                      serves_properties=sorted(CHECKS),
                      kind_free_text="Coq 8.16 theorems about Gallina models; models regenerated from /repo by ast translators or tied by vm_compute correspondence against the implementation")],
        checks=checks,
        notes="See DESIGN.md. fix: commits in /repo are listed in known_findings.json (status fixed).",
        not_applicable=na)
    with open("/verif/MANIFEST.json", "w") as f:
        json.dump(man, f, indent=1)


if __name__ == "__main__":
    main()
