"""Regenerates /verif/MANIFEST.json from the table below (keeps it schema-valid at all times)."""
import json
import os

ALL = [f"C{i:02d}" for i in range(1, 21)]

CHECKS = {
    "C18": dict(
        technique="Coq proof by induction over crash histories on a model regenerated from source (ast translator) + exhaustive fault-injection correspondence",
        text="Theorems C18_single_write_safe / C18_history_safe / C18_completed_write_installs (prop/C18.v) hold for "
             "every crash point and any number of consecutive interrupted writes, about the file-system program "
             "that translator T4 regenerates from save_parameters on every run; the Fs model is tied to the real "
             "function by exhaustive crash-injection correspondence (depth 3 quick / 5 thorough).",
        note="Trusted: Coq kernel; T4 translator; Fs model's atomicity of open-truncate/close/rename/remove (POSIX "
             "rename, no fsync/durability); fault injector. Theorems closed under the global context.",
        design="§6 C18"),
}

CHECKS["C05"] = dict(
    technique="Coq proof over R of the normalisation identities for every K/shape/invariant/mu on a hand-written polymorphic model; Paramcoq free theorem ties its interval run to the real model; interval-run correspondence against rates()/probabilities()",
    text="Theorems C05_weibull / C05_normalise_any / C05_invariant / C05_constant (prop/C05.v) prove, for every category "
         "count, shape, invariant proportion and relative rate, that probabilities sum to one, rates are non-negative, "
         "the invariant category has rate exactly 0 and the weighted mean rate equals mu; C05_run_encloses_model is the "
         "free theorem that the interval run of the same term encloses the real value. The model is tied to "
         "site_model.py by correspondence on rates()/probabilities() (relative 1e-9) over random configurations, and the "
         "property is also evaluated directly on the implementation's outputs.",
    note="Trusted: Coq kernel; hand-written model M_site.v (validated by correspondence only); Interval library (BigZ "
         "backend => Uint63 primitive specs) and Paramcoq output are kernel-checked; torch.pow/log rounding is modelled, "
         "not verified. Axioms: standard-library reals (sig_forall_dec, sig_not_dec, functional_extensionality_dep), classic, Uint63 primitives.",
    design="§6 C05")

CHECKS["C06"] = dict(
    technique="Coq proofs by induction over the tree (every topology, every date vector) on a hand-written polymorphic model; Paramcoq free theorem ties the exact rational run to the real model; device-move effects regenerated from source by an ast translator; exact-rational correspondence",
    text="Theorems C06_ratio_valid / C06_ratio_roundtrip / C06_diff_valid / C06_diff_roundtrip / C06_branch_is_difference / "
         "C06_branch_nonneg (prop/C06.v) hold for every rooted binary topology, every sampling-time vector (ties "
         "included) and every parameter value in the domain; C06_kind_preserved holds for every sequence of "
         "cpu()/cuda()/to() over effects regenerated from tree_model.py; C06_run_is_model is the free theorem that the "
         "exact rational run equals the real-valued model. The model is tied to the code by exact-rational "
         "correspondence on node_heights, branch_lengths(), transform(x), transform.inv(y) over all topologies <= 4 "
         "(quick) / <= 6 (thorough) taxa plus random ones, single and batched.",
    note="Trusted: Coq kernel; hand-written models Tree.v/M_height.v (index assignment, bounds, transforms; validated by "
         "correspondence only); t_kind translator; dendropy parsing and torch indexing modelled not verified; batched = "
         "map over rows is checked by correspondence, not proved; cuda() cannot be executed in this sandbox (translator + "
         "theorem only). Axioms: standard-library reals + classic; Uint63 primitives for the BigQ run theorem.",
    design="§6 C06")

CHECKS["C01"] = dict(
    technique="Coq proof by induction over trees that pruning = explicit marginalisation over all state assignments and rate categories (any tree, any state count, any matrices); symbol tables regenerated from source and proved to be IUPAC unions; Paramcoq free theorem + interval-run correspondence at TreeLikelihoodModel()",
    text="Theorems C01_pruning_is_marginalisation / C01_site_likelihood_is_marginal / C01_loglik_is_marginal / "
         "C01_compress_sum / C01_*_symbols_are_unions / C01_tip_state_is_indicator / C01_tip_unknown_is_missing "
         "(prop/C01.v): for every indexed binary tree, state count, matrix family, rate-category mixture and alignment "
         "the model's log-likelihood equals the weighted sum over patterns of ln of the sum over every assignment of "
         "states and every category; the datatype tables regenerated from datatype.py map each of the 128 symbols to "
         "the indicator of its IUPAC set. C01_run_encloses_model: the interval run encloses the real value. The model "
         "(index assignment by taxon name, sequence lookup by name, compression, which matrix goes with which node, "
         "zero root branch, clock x branch x category rate) is tied to the code by correspondence at the value returned "
         "by a TreeLikelihoodModel built from JSON (relative 1e-9) over all topologies <= 4 (quick) / <= 6 (thorough) "
         "taxa plus random ones and all model/site/clock/tip combinations of the nucleotide models.",
    note="Trusted: Coq kernel; hand-written models (validated by correspondence only); T1 translator; the transition "
         "matrices, frequencies and category rates/probabilities enter as oracle tables read through the implementation's "
         "public API (C04/C05 cover them); amino-acid/codon/general alphabets: tables proved (amino acids) but likelihood "
         "correspondence runs nucleotide models only; the array loop of the code is modelled by structural recursion on "
         "the indexed tree (equivalence checked by correspondence, not proved); torch rounding modelled not verified.",
    design="§6 C01")

CHECKS["C03"] = dict(
    technique="Coq proof that every rescaling code path equals plain pruning in exact arithmetic (any positive scalers, any tree) + sticky-flag induction; the proved interval model is the extended-range reference for a sweep through the subnormal band with histories (floating-point clause decided by the sweep only)",
    text="Theorems C03_rescaled_eq_plain (for ANY positive per-node scalers, hence the rescaled, the partially "
         "rescaled 'safe' and the tip-state variants, any tree/categories) and C03_flag_sticky / C03_flag_monotone "
         "(prop/C03.v). They make the interval run of the plain model a legitimate extended-range reference. The "
         "clause about doubles (finite and accurate to 1e-8 when site likelihoods are subnormal or underflow) is a "
         "statement about IEEE arithmetic: it is decided by the sweep only (560/640-taxon caterpillar, balanced and random "
         "trees, branch scale bisected into every part of the band [5e-324, 2.2e-308] and beyond; fresh models, "
         "up-and-down histories on one model with the flag observed, batches mixing regimes).",
    note="Trusted: Coq kernel; hand-written models M_like.v/M_rescale.v; oracle transition matrices from p_t; the "
         "floating-point accuracy clause is NOT proved (no Flocq-level analysis of batched pruning): exploration only, "
         "stated here on purpose.",
    design="§6 C03")

CHECKS["C02"] = dict(
    technique="Coq proofs of the invariances (children swap, name-keyed sequence lookup under any permutation, column permutation/merging, tip states vs partials, one-step pulley principle for any state count) on the C01 model + pairs of equivalent JSON specifications on the implementation and against the model",
    text="Theorems C02_swap_children / C02_perm_sequences / C02_perm_columns / C02_merge_columns / "
         "C02_states_vs_partials(_missing) and the pulley identity C02_reroot_one_step_partial (prop/C02.v) for all "
         "trees, alignments, state counts and reversible semigroup families. The induction from the one-step pulley "
         "identity to every root placement, and invariance under permutation of the taxa list (leaf indices and the "
         "vectors indexed by them move together), are not formalised: they are decided by pairs of equivalent "
         "specifications (data keyed by taxon name / clade / bipartition, realised twice) on the implementation "
         "(|A-B| <= 1e-9 rel) with every specification also checked against the interval run of the C01 model.",
    note="Trusted: as C01, plus the generator of equivalent specifications; reroot_any_branch and perm_taxa are partial "
         "(see text).",
    design="§6 C02")

CHECKS["C07"] = dict(
    technique="Coq proofs of inverses, of the Jacobian diagonals as true derivatives (Coquelicot is_derive) and of the triangular dependency structure (cumulative maps; ratio node-height transform on every topology) + interval-run correspondence and autograd-Jacobian comparison on the implementation",
    text="Theorems in prop/C07.v: inverse-after-forward = identity for cumsum, cumsum-exp, softplus, cumsum-softplus, log, "
         "exp, sigmoid, affine; the diagonal entries of each Jacobian are the true derivatives (softplus' = sigmoid, exp, "
         "1/x, sigmoid(1-sigmoid), chain rule for cumulative maps) and the reported quantities are their logarithms; "
         "cumulative maps are triangular (prefix dependence); for the ratio node-height transform on every topology "
         "heights do not depend on parameters outside the subtree, each height is affine in its own ratio with slope "
         "(parent height - bound) and the reported value is the sum of ln of exactly these entries. The models are tied "
         "to the code by interval-run correspondence on transform(x), .inv(y), .log_abs_det_jacobian, "
         "TransformedParameter() and ReparameterizedTimeTreeModel(); the property itself (reported = slogdet of the "
         "autograd Jacobian; inv(fwd(x)) = x) is evaluated on the implementation for every case.",
    note="Trusted: Coq kernel; hand-written models; det(triangular) = product of the diagonal (mathcomp det_trig) is not "
         "re-proved on the list representation; torch autograd on the implementation side; StickBreaking / "
         "ConvexCombination / RescaledRate transforms not covered (non-square or nothing reported); TrilExpDiagonal: "
         "inverse only (it reports no log-det).",
    design="§6 C07")

CHECKS["C12"] = dict(
    technique="Coq-verified forward-mode AD: dual numbers over intervals proved (Coquelicot + Interval) to enclose value and derivative of every Num operation; Paramcoq free theorems lift it to whole models; correspondence autograd vs proved enclosures + autograd vs finite differences for every density/parameter on the implementation",
    text="Theorem C12_dual_numbers_enclose_derivatives (NumFD_R): for every x0 the dual-number instance is related to "
         "the pointwise real-function instance by 'value enclosed, derivative enclosed or NaN (no claim at possible "
         "zero divisors, non-positive ln/sqrt arguments, ties of max)'; by parametricity C12_loglik_gradient, "
         "C12_height_jacobian_gradient, C12_site_rates_gradient: the dual run of those model terms encloses the "
         "derivative of their real-valued reading. That PyTorch's autograd returns this derivative is decided by "
         "correspondence (autograd inside the proved enclosure, relative 1e-7) for the tree likelihood w.r.t. branch "
         "lengths, the node-height log-Jacobian w.r.t. ratios/root height and Weibull rates w.r.t. shape; for all other "
         "densities (coalescents, GMRF, CTMC scale, torch priors, joint) the property is evaluated directly on the "
         "implementation: autograd vs Richardson finite differences for every parameter coordinate, missing or zero "
         "gradients of influential parameters reported.",
    note="Trusted: Coq kernel; models as in C01/C05/C06; dP/dt oracle (autograd of p_t validated by central differences); "
         "PyTorch autograd is the thing under test, not trusted; finite differences are a numerical reference with an "
         "adaptive tolerance (implementation side only). Coalescent/BDSK/GMRF derivative enclosures are not yet "
         "instantiated (their models exist in other property files): implementation-side check only — partial.",
    design="§6 C12")

CHECKS["C11"] = dict(
    technique="Coq proof by induction over operation histories (wired graph => every evaluation returns the fresh value, no update raises) on a listener-graph model whose per-class handler table is regenerated from source by an ast translator; `wired` evaluated by vm_compute on graphs extracted from real objects; random-history correspondence against fresh rebuilds",
    text="Theorems wired_sound / wired_sound_from_construction / eval_returns_fresh / update_state_independent (prop/C11.v, "
         "closed under the global context): if the decidable predicate `wired g` holds then every finite history of "
         "assignments (through plain, view, concatenated, transformed parameters), in-place changes followed by the "
         "notification, bare notifications and evaluations runs without raising and every evaluation returns the value "
         "recomputed from the leaves. The handler table (79 classes) is regenerated by translator T7 on every run; "
         "`wired` is evaluated on the wiring extracted from 7 composite instances covering 44 classes (listeners by "
         "introspection, read-dependencies by tracing cross-checked by perturbation); random histories on the real "
         "objects are compared with freshly built copies (the property itself) and with the model (flags, re-executed "
         "_calls, raises).",
    note="Trusted: Coq kernel; T7 translator (cross-checked against the runtime MRO and by calling the real handlers); "
         "dependency extraction by read-tracing (mitigated by perturbation); classes that cannot be instantiated from "
         "JSON here (abstract empirical models, nn-based, variational objectives, HMC operator) are not covered.",
    design="§6 C11")

CHECKS["C08"] = dict(
    technique="Coq proofs (sorted running sums = counting definition for any tie-breaking; model = Kingman density; piece integrals by Coquelicot is_RInt; all-equal = constant; scaling law) on a polymorphic hand-written model; Paramcoq enclosure theorems; interval-run correspondence on log_prob and the JSON-built model call",
    text="34 theorems in prop/C08.v: sorted_cumsum_is_counting and order_invariance for all six models (grid models under "
         "no_tie: no grid point exactly on a coalescent time), model = Kingman density for constant / exponential / "
         "skyride / skygrid (full) and piecewise-linear / piecewise-exponential (partial: no_tie), the closed-form piece "
         "integrals are the integrals of 1/N (Coquelicot), all-equal = constant, scaling law (constant, exponential, "
         "skyride, skygrid), Paramcoq enclosures of the interval runs. Tie to the code: interval-run correspondence "
         "(relative 1e-9) on Distribution.log_prob and the JSON-built model call, n = 2..50, serial sampling with ties, "
         "shuffled heights, grids inside/beyond the root/before the first coalescence, batched; direct checks on the "
         "implementation: permutations, scaling, all-equal = constant, one-piece pwexp = exponential, refined skygrid.",
    note="Trusted: Coq kernel; hand-written model M_coalescent.v; torch argsort/bucketize modelled by exact sorting on Q "
         "keys; scaling law for linear/pwexp and removal of no_tie not proved (checked on the implementation only); "
         "batch layouts that raise belong to C10.",
    design="§6 C08")

PENDING_REASON = "check not built yet in this session (build order in DESIGN.md §9); will be claimed once its theorem file and correspondence run clean"


def main():
    checks = []
    for pid in ALL:
        if pid not in CHECKS:
            continue
        c = CHECKS[pid]
        checks.append(dict(
            property_id=pid,
            quick_cmd=f"./check {pid} --tier quick",
            thorough_cmd=f"./check {pid} --tier thorough",
            evidence_file=f"/verif/evidence/{pid}.json",
            replay_cmd_template=f"./check {pid} --replay {{path}}",
            engine="coq-proof+correspondence",
            level_claimed=dict(category="proof", text=c["text"], design_ref=c["design"]),
            level_note=c["note"],
            technique=c["technique"]))
    na = [dict(property_id=p, reason=PENDING_REASON) for p in ALL if p not in CHECKS]
    man = dict(
        version=1,
        setup_cmd="cd /verif && ./check --setup",
        hooks=dict(guard="TORCHTREE_VERIF", enable="no source hooks: all observation through public objects; env TORCHTREE_VERIF=1 is set by ./check but nothing in /repo reads it",
                   baseline_off_cmd="cd /repo && env -u TORCHTREE_VERIF /venv/bin/python -m pytest -ra -q -p no:cacheprovider --timeout=900 --continue-on-collection-errors",
                   source_commits=[], add_only=True),
        engines=[dict(name="coq-proof+correspondence", path="/verif/check",
                      serves_properties=sorted(CHECKS),
                      kind_free_text="Coq 8.16 theorems about Gallina models; models regenerated from /repo by ast translators or tied by vm_compute correspondence against the implementation")],
        checks=checks,
        notes="See DESIGN.md. fix: commits in /repo are listed in known_findings.json (status fixed).",
        not_applicable=na)
    with open("/verif/MANIFEST.json", "w") as f:
        json.dump(man, f, indent=1)


if __name__ == "__main__":
    main()
