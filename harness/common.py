"""Shared machinery of the /verif checks: Coq build, case evaluation, evidence, findings.

Everything here is deterministic given VERIF_SEED.  The implementation under test is always
imported from /repo's *current working tree* (PYTHONPATH is forced by ./check).
"""
from __future__ import annotations

import ast
import concurrent.futures as cf
import fcntl
import glob
import hashlib
import json
import os
import re
import shutil
import subprocess
import sys
import time
from fractions import Fraction

ROOT = os.environ.get("VERIF_ROOT", "/verif")
COQ = os.path.join(ROOT, "coq")
REPO = os.environ.get("VERIF_REPO", "/repo").rstrip("/")
WORKROOT = os.path.join(ROOT, "_work")
OUTROOT = ROOT          # evidence/ and replays/ live here
if REPO != "/repo":
    # Isolated run against a scratch copy of the repository (mutation testing, experiments):
    # private copy of the Coq tree (gen/ is rewritten per repository), private work/evidence/replays.
    _alt = os.path.join(ROOT, "_work", "alt", hashlib.sha1(REPO.encode()).hexdigest()[:10])
    os.makedirs(_alt, exist_ok=True)
    subprocess.run(["rsync", "-a", "--delete", os.path.join(ROOT, "coq") + "/",
                    os.path.join(_alt, "coq") + "/"], check=True)
    COQ = os.path.join(_alt, "coq")
    WORKROOT = os.path.join(_alt, "work")
    OUTROOT = _alt
COQFLAGS = ["-Q", "base", "TT", "-Q", "model", "TT", "-Q", "proof", "TT", "-Q", "prop", "TT",
            "-Q", "gen", "TT"]
GATE_RE = (r"^\s*(?:(?:Local|Global|Polymorphic|Monomorphic|#\[[^\]]*\])\s+)*"
           r"(?:Axiom|Axioms|Parameter|Parameters|Conjecture|Conjectures|Admit Obligations)\b"
           r"|\bAdmitted\b|\badmit\b|Unset Guard|bypass_check|type-in-type|impredicative-set|"
           r"Unset Positivity|Unset Universe|Guard Checking|Positivity Checking|Universe Checking")


def log(msg):
    print(msg, flush=True)


# ----------------------------------------------------------------------------- shell / coq

def sh(cmd, timeout=600, cwd=None, env=None):
    t0 = time.time()
    try:
        p = subprocess.run(cmd, cwd=cwd, env=env, stdout=subprocess.PIPE, stderr=subprocess.STDOUT,
                           timeout=timeout, text=True)
        return p.returncode, p.stdout, time.time() - t0
    except subprocess.TimeoutExpired as e:
        out = e.stdout if isinstance(e.stdout, str) else (e.stdout or b"").decode("utf8", "replace")
        return 124, out + "\n[timeout]", time.time() - t0


class CoqLock:
    """Serialises writers of coq/gen and `make` between concurrently running checks."""

    def __enter__(self):
        os.makedirs(WORKROOT, exist_ok=True)
        self.f = open(os.path.join(WORKROOT, ".coq.lock"), "w")
        fcntl.flock(self.f, fcntl.LOCK_EX)
        return self

    def __exit__(self, *a):
        fcntl.flock(self.f, fcntl.LOCK_UN)
        self.f.close()


def write_if_changed(path, text):
    try:
        if open(path).read() == text:
            return False
    except FileNotFoundError:
        pass
    os.makedirs(os.path.dirname(path), exist_ok=True)
    with open(path, "w") as f:
        f.write(text)
    return True


def gate():
    """No axioms / admits / disabled checks anywhere in the development (comments excluded)."""
    bad = []
    for d, _, fs in os.walk(COQ):
        for fn in fs:
            if not fn.endswith(".v"):
                continue
            p = os.path.join(d, fn)
            src = strip_coq_comments(open(p).read())
            for i, line in enumerate(src.split("\n"), 1):
                if re.search(GATE_RE, line):
                    bad.append(f"{p}:{i}: {line.strip()}")
                if re.match(r"\s*(Variable|Variables|Hypothesis|Hypotheses|Context)\b", line) and \
                        not _inside_section(src, i):
                    bad.append(f"{p}:{i}: top-level {line.strip()}")
    return bad


def strip_coq_comments(s):
    out, depth, i = [], 0, 0
    while i < len(s):
        if s.startswith("(*", i):
            depth += 1
            i += 2
        elif s.startswith("*)", i) and depth:
            depth -= 1
            i += 2
        else:
            if depth == 0 or s[i] == "\n":
                out.append(s[i])
            i += 1
    return "".join(out)


def _inside_section(src, lineno):
    depth = 0
    for i, line in enumerate(src.split("\n"), 1):
        if i >= lineno:
            break
        if re.match(r"\s*Section\s+\w+", line):
            depth += 1
        elif re.match(r"\s*End\s+\w+", line) and depth:
            depth -= 1
    return depth > 0


def coq_make(targets, timeout=1500, jobs=16):
    """make the given .vo targets (paths relative to coq/).  Returns (ok, log)."""
    with CoqLock():
        if not os.path.exists(os.path.join(COQ, "Makefile.coq")) or \
                os.path.getmtime(os.path.join(COQ, "Makefile.coq")) < os.path.getmtime(
                    os.path.join(COQ, "_CoqProject")):
            rc, out, _ = sh(["coq_makefile", "-f", "_CoqProject", "-o", "Makefile.coq"], cwd=COQ)
            if rc:
                return False, out
        rc, out, _ = sh(["make", "-f", "Makefile.coq", f"-j{jobs}"] + list(targets),
                        cwd=COQ, timeout=timeout)
        return rc == 0, out


def theorems_in(prop_src):
    src = strip_coq_comments(prop_src)
    return re.findall(r"^\s*(?:Theorem|Lemma|Corollary|Example)\s+([A-Za-z0-9_']+)", src, re.M)


def prove(pid, extra_targets=()):
    """Compile prop/<pid>.v from scratch on this run and capture Print Assumptions.

    Returns dict(ok, obligations, discharged, axioms, log, failed_at)."""
    prop_v = os.path.join(COQ, "prop", f"{pid}.v")
    src = open(prop_v).read()
    thms = theorems_in(src)
    # dependencies first (incremental), then the property file itself unconditionally
    deps = re.findall(r"From TT Require (?:Import|Export) ([^.]+)\.", strip_coq_comments(src))
    mods = [m for d in deps for m in d.split()]
    targets = []
    for m in mods:
        for sub in ("base", "model", "proof", "gen", "prop"):
            if os.path.exists(os.path.join(COQ, sub, m + ".v")):
                targets.append(f"{sub}/{m}.vo")
    targets += list(extra_targets)
    ok, out = coq_make(targets)
    res = dict(ok=False, obligations=len(thms), discharged=0, axioms={}, log=out[-4000:],
               theorems=thms, failed_at=None)
    if not ok:
        m = re.search(r'File "\./([^"]+)", line (\d+)', out)
        res["failed_at"] = f"{m.group(1)}:{m.group(2)}" if m else "dependency build"
        return res
    with CoqLock():
        rc, out, _ = sh(["coqc"] + COQFLAGS + [f"prop/{pid}.v"], cwd=COQ, timeout=900)
    res["log"] = out[-6000:]
    if rc:
        m = re.search(r'File "\./([^"]+)", line (\d+)', out)
        res["failed_at"] = f"{m.group(1)}:{m.group(2)}" if m else f"prop/{pid}.v"
        # theorems before the failing line still count as discharged
        if m and m.group(1).endswith(f"{pid}.v"):
            upto = "\n".join(src.split("\n")[: int(m.group(2)) - 1])
            res["discharged"] = max(0, len(theorems_in(upto)) - 1)
        return res
    # Parse Print Assumptions blocks, in order of appearance
    blocks = re.split(r"(?m)^(?=Closed under the global context|Axioms:)", out)
    ax = []
    for b in blocks:
        if b.startswith("Closed under"):
            ax.append([])
        elif b.startswith("Axioms:"):
            names = re.findall(r"(?m)^([A-Za-z_][A-Za-z0-9_.']*)\s*(?::|$)", b[len("Axioms:"):])
            ax.append(sorted(set(names)))
    printed = re.findall(r"Print Assumptions\s+([A-Za-z0-9_'.]+)", strip_coq_comments(src))
    res["axioms"] = {t: a for t, a in zip(printed, ax)}
    res["ok"] = True
    res["discharged"] = len(thms)
    return res


def coqchk(pid, timeout=5400):
    """Independent re-check of the compiled property file and everything it depends on (coqchk -o).
    -> dict(completed, ok, axioms, assumed) — `assumed` lists anything relying on type-in-type, unsafe
    (co)fixpoints or assumed positivity (must be empty)."""
    t0 = time.time()
    rc, out, _ = sh(["coqchk", "-silent", "-o"] + COQFLAGS + [f"TT.{pid}"], cwd=COQ, timeout=timeout)
    res = dict(completed=rc != 124, ok=False, wall_s=round(time.time() - t0, 1), axioms=[], assumed=[])
    if rc == 124:
        return res
    m = re.search(r"CONTEXT SUMMARY(.*)", out, re.S)
    if rc != 0 or not m:
        res["log"] = out[-1500:]
        return res
    summ = m.group(1)

    def section(title):
        mm = re.search(r"\* " + re.escape(title) + r"[^:]*:(.*?)(?=\n\* |\Z)", summ, re.S)
        if not mm:
            return []
        body = mm.group(1).strip()
        if body.startswith("<none>"):
            return []
        return [ln.strip() for ln in body.split("\n") if ln.strip()]
    res["axioms"] = section("Axioms")
    for title in ("Constants/Inductives relying on type-in-type", "Constants/Inductives relying on unsafe (co)fixpoints",
                  "Inductives whose positivity is assumed"):
        res["assumed"] += section(title)
    res["ok"] = not res["assumed"] and "Theory: Set is predicative" in summ
    return res


# ----------------------------------------------------------------------------- literals

def frac(x) -> Fraction:
    if isinstance(x, Fraction):
        return x
    if isinstance(x, int):
        return Fraction(x)
    return Fraction(float(x))  # exact dyadic value of the double


def qlit(x) -> str:
    f = frac(x)
    n, d = f.numerator, f.denominator
    return f"(({n})#{d})%Q" if n < 0 else f"({n}#{d})%Q"


def zlit(n: int) -> str:
    return f"({n})%Z" if n < 0 else f"{n}%Z"


def natlit(n: int) -> str:
    assert 0 <= n < 5000
    return f"{n}%nat"


def coq_list(items, elem=str) -> str:
    items = list(items)
    if len(items) == 1:
        # `[x]` is also the notation of BigZ.to_Z / BigN.to_Z in the bignum scopes: write a singleton in cons form
        return "(" + elem(items[0]) + " :: nil)"
    return "[" + "; ".join(elem(i) for i in items) + "]"


def qlist(xs) -> str:
    return coq_list(xs, qlit)


def ival_to_fracs(v):
    """[tag,m,e,tag,m,e] -> (lo, hi) Fractions or None when unbounded / NaN."""
    if len(v) != 6 or v[0] != 1 or v[3] != 1:
        return None
    def f(m, e):
        return Fraction(m) * (Fraction(2) ** e)
    return f(v[1], v[2]), f(v[4], v[5])


def q_of(v):
    """[num, den] -> Fraction"""
    return Fraction(v[0], v[1])


# ----------------------------------------------------------------------------- case files

def _parse_coq_value(out):
    """Parse `= [[1; -2]; [3]] : list (list Z)` outputs (one per Eval) into python lists."""
    vals = []
    out = out.replace("%list", "")
    for m in re.finditer(r"(?s)=\s*(\[.*?\])\s*\n\s*:\s*list", out):
        txt = m.group(1).replace(";", ",").replace("%bigZ", "").replace("%Z", "").replace("\n", " ")
        vals.append(ast.literal_eval(txt))
    return vals


def run_cases(pid, header, cases, shard=250, timeout=900, workers=16, rtype="bigZ"):
    """Evaluate Gallina expressions (each of type `list Z`) with vm_compute.

    `cases` is a list of Coq expressions; returns a list of python int lists in order.
    Raises RuntimeError if coqc fails (a harness/model error, never silently ignored)."""
    # one directory per process: two runs of the same check at the same time must not see each other's files
    work = os.path.join(WORKROOT, pid, f"cases_{os.getpid()}")
    shutil.rmtree(work, ignore_errors=True)
    os.makedirs(work, exist_ok=True)
    for old in glob.glob(os.path.join(WORKROOT, pid, "cases*")):       # left behind by earlier (finished) runs
        if old != work and time.time() - os.path.getmtime(old) > 6 * 3600:
            shutil.rmtree(old, ignore_errors=True)
    files = []
    for k in range(0, len(cases), shard):
        fn = os.path.join(work, f"cases_{pid}_{k // shard}.v")
        body = ";\n  ".join(f"({c})" for c in cases[k:k + shard])
        with open(fn, "w") as f:
            f.write(header + "\nSet Printing Width 2000000000.\nSet Printing Depth 2000000000.\n"
                    + ("Open Scope Z_scope.\n" if rtype == "Z" else
                       "From Bignums Require Import BigZ.\nOpen Scope bigZ_scope.\n") +
                    f"Definition results : list (list {rtype}) := [\n  {body}\n].\n"
                    "Eval vm_compute in results.\n")
        files.append(fn)

    def one(fn):
        rc, out, dt = sh(["bash", "-c", "ulimit -s 1000000; exec coqc " +
                          " ".join(COQFLAGS) + " " + fn], cwd=COQ, timeout=timeout)
        return fn, rc, out

    results = []
    with cf.ThreadPoolExecutor(max_workers=workers) as ex:
        for fn, rc, out in ex.map(one, files):
            if rc:
                raise RuntimeError(f"coqc failed on {fn}:\n{out[-3000:]}")
            vals = _parse_coq_value(out)
            if len(vals) != 1:
                raise RuntimeError(f"unparseable coq output for {fn}: {out[:500]}")
            results.extend(vals[0])
    if len(results) != len(cases):
        raise RuntimeError(f"case count mismatch {len(results)} vs {len(cases)}")
    shutil.rmtree(work, ignore_errors=True)
    return results


# ----------------------------------------------------------------------------- findings, evidence

def load_known():
    out = []
    p = os.path.join(ROOT, "known_findings.json")
    if os.path.exists(p):
        out += json.load(open(p))["findings"]
    d = os.path.join(ROOT, "known_findings.d")
    if os.path.isdir(d):
        for fn in sorted(os.listdir(d)):
            if fn.endswith(".json"):
                out += json.load(open(os.path.join(d, fn)))["findings"]
    return out


class Violation:
    def __init__(self, key, what, replay, found_input=True):
        self.key = key            # stable identifier of the failing input / call site / history
        self.what = what          # one line
        self.replay = replay      # JSON-serialisable dict with everything needed to replay
        self.found_input = found_input


class Report:
    """Collects what a check run covered; writes evidence; prints VIOLATION / KNOWN-FINDING."""

    def __init__(self, pid, tier, seed):
        self.pid, self.tier, self.seed = pid, tier, seed
        self.t0 = time.time()
        self.violations: list[Violation] = []
        self.evaluations = 0
        self.case_hashes = set()
        self.samples = []
        self.rule = ""
        self.proof = None
        self.extra = {}
        self.assumptions = []
        self.trusted = []
        self.timings = {}
        self.exhaustive = None

    def case(self, canon, nontrivial=True, sample=None):
        self.evaluations += 1
        if nontrivial:
            self.case_hashes.add(hashlib.sha1(json.dumps(canon, sort_keys=True, default=str)
                                              .encode()).hexdigest())
        if sample is not None and len(self.samples) < 6:
            self.samples.append(sample)

    def violation(self, key, what, replay, found_input=True):
        for v in self.violations:
            if v.key == key:
                return
        self.violations.append(Violation(key, what, replay, found_input))

    def finish(self):
        known = {k["key"]: k for k in load_known() if k["property"] == self.pid}
        n_viol = 0
        n_known = 0
        os.makedirs(os.path.join(OUTROOT, "replays", self.pid), exist_ok=True)
        lines = []
        for v in self.violations:
            k = known.get(v.key)
            if k is not None and k.get("status") == "known":
                n_known += 1
                lines.append(f"KNOWN-FINDING: property={self.pid} {v.key}: {v.what}")
                continue
            n_viol += 1
            blob = json.dumps(dict(property=self.pid, key=v.key, what=v.what, replay=v.replay,
                                   seed=self.seed, tier=self.tier), indent=1, default=str)
            h = hashlib.sha1(blob.encode()).hexdigest()[:12]
            path = os.path.join(OUTROOT, "replays", self.pid, f"{h}.json")
            with open(path, "w") as f:
                f.write(blob)
            tail = "" if v.found_input else " no-failing-input-found"
            log(f"  violation {v.key}: {v.what}")
            lines.append(f"VIOLATION property={self.pid} replay={path}{tail}")
        pr = self.proof or dict(obligations=0, discharged=0, axioms={}, theorems=[])
        cov = dict(
            obligations=pr["obligations"], discharged=pr["discharged"],
            checker_cmd=f"cd /verif/coq && make -f Makefile.coq <deps> && coqc -Q base TT -Q model TT "
                        f"-Q proof TT -Q prop TT -Q gen TT prop/{self.pid}.v   (via ./check {self.pid})",
            trusted_base=self.trusted,
            theorems=pr.get("theorems", []), axioms=pr.get("axioms", {}),
            evaluations=self.evaluations, distinct_nontrivial=len(self.case_hashes),
            rule=self.rule, samples=self.samples or ["(no correspondence cases on this run)"],
            known_findings_reproduced=n_known, timings_s=self.timings,
        )
        if pr.get("coqchk"):
            cov["coqchk"] = pr["coqchk"]      # thorough tier: independent re-check with `coqchk -o`
        if self.exhaustive is not None:
            if isinstance(self.exhaustive, bool):
                cov["exhaustive"] = self.exhaustive
            else:       # only a finite SUB-space was enumerated completely: described, not claimed
                cov["exhaustive"] = False
                cov["exhaustively_enumerated_subspace"] = self.exhaustive
        cov.update(self.extra)
        ev = dict(property_id=self.pid, tier=self.tier, seed=self.seed, level="proof", coverage=cov,
                  assumptions=self.assumptions, wall_s=round(time.time() - self.t0, 2),
                  violations=n_viol)
        os.makedirs(os.path.join(OUTROOT, "evidence"), exist_ok=True)
        with open(os.path.join(OUTROOT, "evidence", f"{self.pid}.json"), "w") as f:
            json.dump(ev, f, indent=1, default=str)
        for ln in lines:
            print(ln, flush=True)
        log(f"[{self.pid}] tier={self.tier} seed={self.seed} obligations={pr['obligations']} "
            f"discharged={pr['discharged']} cases={self.evaluations} distinct={len(self.case_hashes)} "
            f"violations={n_viol} known={n_known} wall={ev['wall_s']}s")
        return 1 if n_viol else 0


def as_list(found):
    """search() may return one (key, what, replay) triple or a list of them."""
    if not found:
        return []
    if isinstance(found, tuple) and len(found) == 3 and isinstance(found[0], str):
        return [found]
    return list(found)


def handle_proof(rep: Report, pid, search=None, extra_targets=()):
    """Step 2 of the pipeline.  On failure runs `search()` (property-level failing-input search
    on the implementation) and files a violation either way."""
    t0 = time.time()
    pr = prove(pid, extra_targets)
    rep.proof = pr
    rep.timings["prove"] = round(time.time() - t0, 2)
    if pr["ok"]:
        allax = sorted({a for v in pr['axioms'].values() for a in v})
        prim = [a for a in allax if a.startswith(('PrimInt63.', 'Uint63.'))]
        rest = [a for a in allax if a not in prim]
        if prim:
            rest.append(f"<{len(prim)} Uint63/PrimInt63 primitive-integer specs of the standard library>")
        log(f"[{pid}] prove: {pr['discharged']}/{pr['obligations']} theorems, axioms: {rest or 'closed'}")
        if rep.tier == "thorough" and os.environ.get("VERIF_COQCHK", "1") != "0":
            ck = coqchk(pid)
            pr["coqchk"] = dict(ck, axioms=[a for a in ck["axioms"] if not a.startswith(("Coq.Numbers.Cyclic", "Coq.Floats"))][:60],
                                n_axioms_all_loaded_libraries=len(ck["axioms"]))
            log(f"[{pid}] coqchk -o: completed={ck['completed']} ok={ck['ok']} in {ck['wall_s']}s; "
                f"{len(ck['axioms'])} axioms over all loaded libraries; assumed (must be empty): {ck['assumed']}")
            if ck["completed"] and not ck["ok"]:
                rep.violation(f"{pid}:coqchk-rejects", f"the independent checker does not accept prop/{pid}.vo and its "
                              f"dependencies: {ck.get('log', ck['assumed'])}", dict(broken=f"coqchk TT.{pid}"), False)
                return False
        return True
    log(f"[{pid}] prove: BROKEN at {pr['failed_at']}\n{pr['log'][-1500:]}")
    found = search() if search else None
    if found:
        for key, what, replay in as_list(found):
            rep.violation(key, what, replay, True)
    else:
        rep.violation(f"{pid}:proof-broken:{pr['failed_at']}",
                      f"proof obligation no longer checks at {pr['failed_at']}",
                      dict(broken=pr["failed_at"], log=pr["log"][-2000:]), False)
    return False


COMMON_TRUSTED = [
    "Coq 8.16.1 kernel + vm_compute (no native_compute)",
    "no axioms declared in /verif/coq (grep gate); axioms per theorem as listed under coverage.axioms",
    "harness: python generators, float<->dyadic conversion (float.hex / fractions.Fraction), comparers",
]
