"""Tree generators shared by the checks: nested-tuple trees with leaves = taxon positions."""
import itertools
import random


def random_tree(rng, n, shape="random"):
    """Rooted binary tree over leaves 0..n-1 as nested tuples (left, right) / int."""
    nodes = list(range(n))
    rng.shuffle(nodes)
    if shape == "caterpillar":
        t = nodes[0]
        for x in nodes[1:]:
            t = (t, x) if rng.random() < 0.5 else (x, t)
        return t
    if shape == "balanced":
        layer = nodes
        while len(layer) > 1:
            nxt = [(layer[i], layer[i + 1]) for i in range(0, len(layer) - 1, 2)]
            if len(layer) % 2:
                nxt.append(layer[-1])
            layer = nxt
        return layer[0]
    while len(nodes) > 1:
        i, j = rng.sample(range(len(nodes)), 2)
        a, b = nodes[i], nodes[j]
        for k in sorted((i, j), reverse=True):
            nodes.pop(k)
        nodes.append((a, b))
    return nodes[0]


def all_trees(leaves):
    """All rooted binary topologies (unordered children) over the given leaf labels."""
    leaves = list(leaves)
    if len(leaves) == 1:
        yield leaves[0]
        return
    first, rest = leaves[0], leaves[1:]
    for k in range(0, len(rest)):
        for comb in itertools.combinations(rest, k):
            left = [first] + list(comb)
            right = [x for x in rest if x not in comb]
            if not right:
                continue
            for lt in all_trees(left):
                for rt in all_trees(right):
                    yield (lt, rt)


def n_leaves(t):
    return 1 if isinstance(t, int) else n_leaves(t[0]) + n_leaves(t[1])


def leaves_of(t):
    return [t] if isinstance(t, int) else leaves_of(t[0]) + leaves_of(t[1])


def newick(t, names, lengths=None):
    def rec(u):
        if isinstance(u, int):
            return names[u]
        return "(" + rec(u[0]) + "," + rec(u[1]) + ")"
    return rec(t) + ";"


def coq_tree(t):
    if isinstance(t, int):
        return f"(Leaf {t}%nat)"
    return f"(Node {coq_tree(t[0])} {coq_tree(t[1])})"


def index_tree(t):
    """Python mirror of Tree.index_tree: returns (itree, root_index) with itree = int | (idx, l, r)."""
    n = n_leaves(t)
    counter = [n]

    def rec(u):
        if isinstance(u, int):
            return u
        l = rec(u[0])
        r = rec(u[1])
        i = counter[0]
        counter[0] += 1
        return (i, l, r)
    return rec(t)


def idx(u):
    return u if isinstance(u, int) else u[0]


def edges(it):
    """(parent index, child index) for all edges of an indexed tree."""
    out = []

    def rec(u):
        if isinstance(u, int):
            return
        out.append((u[0], idx(u[1])))
        out.append((u[0], idx(u[2])))
        rec(u[1])
        rec(u[2])
    rec(it)
    return out


def swap_children(rng, t, p=0.5):
    if isinstance(t, int):
        return t
    a, b = swap_children(rng, t[0], p), swap_children(rng, t[1], p)
    return (b, a) if rng.random() < p else (a, b)
